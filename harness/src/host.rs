//! Component `host` (C05, C06, C07, C14 replay rule): the real `srad_app::generic_app::Application`
//! on a paused current-thread runtime with the mock client / event loop, recording metric
//! stores and the mock clock. One request = one delivery followed by quiescence.
//!
//!   host new ip=0 bd=1 un=1 ud=1 um=1 rf=1 rs=1 to=<ms|-> cd=<ms> rq=<0|1> q=<n> now=<ms>
//!   host ev <node> nbirth ts= bd= id= ans=<ok|inv|unk> now=
//!   host ev <node> ndeath bd= [pts=<ms|->] now=     pts: the timestamp the NDEATH PAYLOAD carries (default: now;
//!                                                   `-` = none, as srad-eon's own will); the host must not care
//!   host ev <node> ndata seq= ts= id= ans= now=
//!   host ev <node> dbirth dev= seq= ts= id= ans= now=
//!   host ev <node> ddeath dev= seq= ts= id= now=
//!   host ev <node> ddata dev= seq= ts= id= ans= now=
//!   host inv <node> now=            a payload that fails validation (NDATA without seq)
//!   host offline now= | host online now=
//!   host adv <ms> now=              advance virtual time (timers may fire)
//!   host cancel off=<0|1> now=      `AppClient::cancel()`; off=1: the event loop reports the final Offline once the
//!                                   disconnect has been asked for, off=0: it never does (bounded wait of 1 s).
//!                                   Answer: the effects, then ` w=<n>`: the run loop returned n ms after the request
//!                                   (`w=never`: not within the bound). Every later request answers `-`.
//! `pf=1` on `host new` (ignored by the model): the user's Client REJECTS every NCMD publish (returns Err, e.g. the
//! connection just dropped); the host's duties (hold the node stale, tell the stores) do not depend on the answer.
//! `m=0` on ndata / dbirth / ddata: the payload carries NO metrics (legal: seq and timestamp only); the store call
//! cannot show the message's id then (`nodeData(-1)`, `devData(d,-1)`, `devBirth(d,-1,1)`).
//! Answer: the effects observed, e.g. `n1:nodeBirth(5,1);n1:devStale(2);n1:ncmd` or `-`.
use crate::common::*;
use crate::mock::*;
use srad_app::generic_app::{ApplicationBuilder, MetricStore, RebirthConfig, StateUpdateError};
use srad_app::{MetricBirthDetails, MetricDetails, SubscriptionConfig};
use srad_client::{DeviceMessage, Event, Message, MessageKind, NodeMessage};
use srad_types::payload::{metric, DataType, Metric, Payload};
use srad_types::MetricId;
use std::collections::{BTreeMap, BTreeSet};
use std::time::Duration;

struct RecStore {
    hub: Hub,
    label: String, // "n1" or "n1:d2"
    /// what this store remembers beyond the effect strings (component `loop`)
    mem: Mem,
    /// behave like a store that knows its metrics: data for a name the last birth did not define is
    /// answered `UnknownMetric` (component `loop`, `st=1`); off = accept whatever comes (component `host`)
    strict: bool,
}

/// per store: the metric-name set of the last `update_from_birth` and the verdict of every
/// `update_from_data` (id, accepted). Never part of the canonical effect strings.
#[derive(Clone, Debug, Default)]
pub struct StoreMem {
    pub birth_names: Option<BTreeSet<String>>,
    pub births: u64,
    pub verdicts: Vec<(i64, bool)>,
}
pub type Mem = std::sync::Arc<std::sync::Mutex<BTreeMap<String, StoreMem>>>;

fn long_of(v: &Option<srad_types::MetricValue>) -> Option<i64> {
    v.clone().and_then(|x| i64::try_from(x).ok())
}

impl RecStore {
    fn note(&self, what: String) {
        self.hub.note(what);
    }
    fn prefix(&self) -> (String, Option<String>) {
        let mut it = self.label.split(':');
        let n = it.next().unwrap().to_string();
        (n, it.next().map(|d| d[1..].to_string()))
    }
}

fn verdict(names: &[String]) -> Result<(), StateUpdateError> {
    if names.iter().any(|n| n == "REJECT_INVALID") {
        Err(StateUpdateError::InvalidValue)
    } else if names.iter().any(|n| n == "REJECT_UNKNOWN") {
        Err(StateUpdateError::UnknownMetric)
    } else {
        Ok(())
    }
}

impl MetricStore for RecStore {
    fn set_stale(&mut self) {
        let (n, d) = self.prefix();
        match d {
            None => self.note(format!("{}:nodeStale", n)),
            Some(d) => self.note(format!("{}:devStale({})", n, d)),
        }
    }
    fn update_from_birth(&mut self, details: Vec<(MetricBirthDetails, MetricDetails)>) -> Result<(), StateUpdateError> {
        let mut id = -1;
        let mut names = vec![];
        for (b, m) in &details {
            if b.name == "id" {
                id = long_of(&m.value).unwrap_or(-2);
            }
            names.push(b.name.clone());
        }
        let v = verdict(&names);
        let ok = v.is_ok() as u8;
        if v.is_ok() {
            let mut g = self.mem.lock().unwrap();
            let e = g.entry(self.label.clone()).or_default();
            e.birth_names = Some(names.iter().cloned().collect());
            e.births += 1;
        }
        let (n, d) = self.prefix();
        match d {
            None => self.note(format!("{}:nodeBirth({},{})", n, id, ok)),
            Some(d) => self.note(format!("{}:devBirth({},{},{})", n, d, id, ok)),
        }
        v
    }
    fn update_from_data(&mut self, details: Vec<(MetricId, MetricDetails)>) -> Result<(), StateUpdateError> {
        let mut id = -1;
        let mut names = vec![];
        for (mid, m) in &details {
            if let MetricId::Name(nm) = mid {
                if nm == "id" {
                    id = long_of(&m.value).unwrap_or(-2);
                }
                names.push(nm.clone());
            }
        }
        let (n, d) = self.prefix();
        match d {
            None => self.note(format!("{}:nodeData({})", n, id)),
            Some(d) => self.note(format!("{}:devData({},{})", n, d, id)),
        }
        let mut v = verdict(&names);
        let mut g = self.mem.lock().unwrap();
        let e = g.entry(self.label.clone()).or_default();
        if self.strict && v.is_ok() {
            let known = e.birth_names.as_ref().map(|s| names.iter().all(|n| s.contains(n))).unwrap_or(false);
            if !known {
                v = Err(StateUpdateError::UnknownMetric);
            }
        }
        e.verdicts.push((id, v.is_ok()));
        v
    }
}

fn kv<'a>(w: &'a [&'a str], key: &str) -> Option<&'a str> {
    w.iter().find_map(|t| t.strip_prefix(key).and_then(|r| r.strip_prefix('=')))
}
fn num(w: &[&str], key: &str) -> u64 {
    kv(w, key).unwrap_or_else(|| panic!("missing {}", key)).parse().unwrap()
}

fn m_long(name: &str, v: u64, ts: u64, birth: bool) -> Metric {
    let mut m = Metric::new();
    m.set_name(name.into());
    if birth {
        m.set_datatype(DataType::Int64);
    }
    m.set_timestamp(ts);
    m.set_value(metric::Value::LongValue(v));
    m
}

fn ans_metric(ans: &str, ts: u64, birth: bool) -> Option<Metric> {
    match ans {
        "inv" => Some(m_long("REJECT_INVALID", 0, ts, birth)),
        "unk" => Some(m_long("REJECT_UNKNOWN", 0, ts, birth)),
        _ => None,
    }
}

fn payload(ts: Option<u64>, seq: Option<u64>, metrics: Vec<Metric>) -> Payload {
    Payload { timestamp: ts, metrics, seq, uuid: None, body: None }
}

pub struct Sess {
    /// None when the session lives on somebody else's runtime (component `loop`)
    rt: Option<tokio::runtime::Runtime>,
    hub: Hub,
    feeder: EventFeeder,
    mark: usize,
    // ---- independent bookkeeping for the oracles ----
    node_life: BTreeMap<String, bool>,              // latest node lifecycle effect was an accepted birth
    dev_life: BTreeMap<(String, String), bool>,
    devs: BTreeMap<String, BTreeSet<String>>,
    birth_ts: BTreeMap<String, u64>,
    stale_ts: BTreeMap<String, u64>,
    last_applied_id: BTreeMap<String, Option<i64>>, // since the last accepted NBIRTH
    applied_ids: BTreeSet<(String, i64)>,
    /// payload timestamp of every resequenceable message seen, by (node, id)
    msg_ts: BTreeMap<(String, i64), u64>,
    reseq_on: bool,
    pub ordered_ids: bool, // the generator numbers a session's messages in publish order
    /// nodes whose current publisher session lost its NBIRTH (`nl=1` on the line): two publisher
    /// sessions merge into one host session, so publish-order ids say nothing until the next
    /// accepted NBIRTH
    pub order_suspended: std::collections::HashSet<String>,
    /// the case is a fault-free stream delivered strictly in publish order: every message is
    /// applied by the line that delivers it (desc prefix `ordered inorder`)
    pub inorder: bool,
    host_online: bool,
    pub clean: bool,                                // the generator promises a fault-free history
    pub ncmds: u64,
    mem: Mem,
    /// component `hostq`: a request is a whole burst, effects cannot be attributed to single
    /// inputs; births are recognised by the id their store call shows (`nbirth_ts`)
    pub burst_mode: bool,
    nbirth_ts: BTreeMap<(String, i64), u64>,
    /// the application's `AppClient` and the task running `Application::run()` (C20, host sentence)
    app_client: Option<srad_app::AppClient>,
    run: Option<tokio::task::JoinHandle<()>>,
    run_done: bool,
    /// `AppClient::cancel()` has been called
    pub cancelled: bool,
    /// `pf=1`: the Client rejects every NCMD publish
    pub pf: bool,
}

/// how the event loop answers the disconnect `AppClient::cancel()` asks for
#[derive(Clone, Copy, Debug, PartialEq)]
pub enum FinalOffline {
    /// never (the application waits its bounded 1 s)
    Withheld,
    /// after the application has taken the stop request (what a broker does: the disconnect is acted on first)
    AfterStop,
    /// handed to the event loop before the application task has run at all: the unbiased `select!` of
    /// `AppEventLoop::poll` may deliver it as an ordinary Offline before the stop request is taken
    WithCancel,
}

/// what a cancel did, as far as the property speaks of it
#[derive(Clone, Debug)]
pub struct CancelReport {
    /// `AppClient::cancel()` completed without any virtual time passing
    pub cancel_returned: bool,
    /// the application task sat in `EventLoop::poll` (not in a send to a node's queue) when cancel was called
    pub dispatcher_waiting: bool,
    /// client calls parked when cancel was called
    pub parked_before: Vec<usize>,
    /// ms of virtual time after which `Application::run()` had returned (None: not within `bound_ms`)
    pub returned_after: Option<u64>,
    pub effects: Vec<(String, String)>,
}

/// virtual time the host may take to return after a cancel: `poll_until_offline_with_timeout` = 1 s
/// C20 says "makes its run loop return": ten seconds of virtual time count as bounded (the library waits 1 s for the
/// final Offline; the exact constant lives in the models, whose correspondence breaks - with the suffix - when it changes)
pub const HOST_STOP_BOUND_MS: u64 = 10_000;

/// build the application on the current runtime, report it Online and run to quiescence. With
/// `reset_clock` the mock clock reads `now` again afterwards (component `host`: the first request
/// runs at `now`); without, the start-up costs 1 ms like every other line (component `loop`).
thread_local! {
    /// the `AppClient` of the application built last on this thread (for the try_ publish scenario)
    static APP_CLIENT: std::cell::RefCell<Option<srad_app::AppClient>> = std::cell::RefCell::new(None);
    /// the task running `Application::run()` of that application (has the run loop returned?)
    static APP_RUN: std::cell::RefCell<Option<tokio::task::JoinHandle<()>>> = std::cell::RefCell::new(None);
}

async fn start_app(cfgw: &[&str], reset_clock: bool, strict: bool) -> (Hub, EventFeeder, Mem) {
    let now = num(cfgw, "now");
    let b = |k: &str| num(cfgw, k) == 1;
    let cfg = RebirthConfig {
        rebirth_cooldown: Duration::from_millis(num(cfgw, "cd")),
        invalid_payload: b("ip"),
        out_of_sync_bdseq: b("bd"),
        unknown_node: b("un"),
        unknown_device: b("ud"),
        unknown_metric: b("um"),
        reorder_failure: b("rf"),
        recorded_state_stale: b("rs"),
        reorder_timeout: match kv(cfgw, "to").unwrap() {
            "-" => None,
            x => Some(Duration::from_millis(x.parse().unwrap())),
        },
    };
    let reseq = b("rq");
    let q = num(cfgw, "q") as usize;
    let (hub, client, el, feeder) = mock_pair();
    let h2 = hub.clone();
    set_clocks(now);
    let hub_cb = h2.clone();
    let mem: Mem = Default::default();
    let mem_cb = mem.clone();
    let (app, app_client) = ApplicationBuilder::new("host", el, client, SubscriptionConfig::AllGroups)
        .with_rebirth_config(cfg)
        .resequence_messages(reseq)
        .with_node_queue_size(q)
        .on_node_created(move |node| {
            let n = node.id().node.clone();
            hub_cb.note(format!("{}:nodeCreated", n));
            node.register_metric_store(RecStore { hub: hub_cb.clone(), label: n.clone(), mem: mem_cb.clone(), strict });
            let hub_d = hub_cb.clone();
            let mem_d = mem_cb.clone();
            node.on_device_created(move |dev| {
                let d = dev.name().to_string();
                hub_d.note(format!("{}:devCreated({})", n, &d[1..]));
                dev.register_metric_store(RecStore { hub: hub_d.clone(), label: format!("{}:{}", n, d), mem: mem_d.clone(), strict });
            });
        })
        .build();
    APP_CLIENT.with(|c| *c.borrow_mut() = Some(app_client));
    let run = tokio::spawn(app.run());
    APP_RUN.with(|c| *c.borrow_mut() = Some(run));
    feeder.push(Event::Online);
    settle().await;
    if kv(cfgw, "tf") == Some("1") {
        // the client's request queue is "full" from now on: try_ calls fail, blocking calls get through
        hub.default_try(Some(crate::mock::Decision::Reject));
    }
    if kv(cfgw, "pf") == Some("1") {
        // a user Client that fails every NCMD publish (blocking or not)
        hub.rule(Some(crate::mock::Kind::NCmd), crate::mock::Decision::Reject, usize::MAX);
    }
    if reset_clock {
        set_clocks(now);
    }
    (hub, feeder, mem)
}

fn build(cfgw: &[&str]) -> (tokio::runtime::Runtime, Hub, EventFeeder, Mem) {
    let rt = runtime();
    let (hub, feeder, mem) = rt.block_on(start_app(cfgw, true, false));
    (rt, hub, feeder, mem)
}

/// one delivery: run to quiescence with the clock reading unchanged; then virtual time moves on
/// by 1 ms, and whatever timer expires at that instant is still handled inside this request
/// (clock reading unchanged)
pub async fn ev_tick() {
    tokio::time::sleep(Duration::from_nanos(1)).await;
    for _ in 0..24 {
        tokio::task::yield_now().await;
    }
}

/// `adv` 1 ms ticks from clock reading `now`, with the same alignment as a request: clock reading t
/// covers the virtual millisecond that ends with the timers due at its end. The clock reads
/// `now + adv - 1` afterwards (the caller moves it on).
pub async fn adv_ticks(now: u64, adv: u64) {
    for k in 0..adv {
        set_clocks(now + k);
        tokio::time::sleep(Duration::from_millis(1)).await;
        for _ in 0..24 {
            tokio::task::yield_now().await;
        }
    }
}

impl Sess {
    pub fn new(op: &str) -> Sess {
        let w: Vec<&str> = op.split(' ').collect();
        let (rt, hub, feeder, mem) = build(&w);
        Sess::with(Some(rt), hub, feeder, mem, &w)
    }

    /// the session on the CURRENT runtime (component `loop`): call inside `block_on`; the start-up
    /// costs 1 ms of virtual time and of the mock clock
    /// `strict`: the recording stores reject data for metric names their last birth did not define
    pub async fn new_here(op: &str, strict: bool) -> Sess {
        let w: Vec<&str> = op.split(' ').collect();
        let (hub, feeder, mem) = start_app(&w, false, strict).await;
        Sess::with(None, hub, feeder, mem, &w)
    }

    /// what the store `label` ("n1" / "n1:d2") remembers
    pub fn store(&self, label: &str) -> StoreMem {
        self.mem.lock().unwrap().get(label).cloned().unwrap_or_default()
    }

    fn with(rt: Option<tokio::runtime::Runtime>, hub: Hub, feeder: EventFeeder, mem: Mem, w: &[&str]) -> Sess {
        let mark = hub.trace_len();
        Sess {
            rt,
            hub,
            feeder,
            mark,
            node_life: BTreeMap::new(),
            dev_life: BTreeMap::new(),
            devs: BTreeMap::new(),
            birth_ts: BTreeMap::new(),
            stale_ts: BTreeMap::new(),
            last_applied_id: BTreeMap::new(),
            applied_ids: BTreeSet::new(),
            msg_ts: Default::default(),
            reseq_on: num(w, "rq") == 1,
            ordered_ids: false,
            order_suspended: Default::default(),
            inorder: false,
            host_online: true,
            clean: false,
            ncmds: 0,
            mem,
            burst_mode: false,
            nbirth_ts: BTreeMap::new(),
            app_client: APP_CLIENT.with(|c| c.borrow().clone()),
            run: APP_RUN.with(|c| c.borrow_mut().take()),
            run_done: false,
            cancelled: false,
            pf: kv(w, "pf") == Some("1"),
        }
    }

    /// has `Application::run()` returned?
    pub fn run_returned(&self) -> bool {
        self.run_done || self.run.as_ref().map(|h| h.is_finished()).unwrap_or(false)
    }

    /// let virtual time run until `Application::run()` has returned, at most `bound_ms`; the ms that passed
    pub fn wait_for_return(&mut self, bound_ms: u64) -> u64 {
        if self.run_returned() {
            return 0;
        }
        let mut run = self.run.take().expect("run handle");
        let rt = self.rt.as_ref().expect("host session without own runtime");
        let (ms, done) = rt.block_on(async {
            let t0 = tokio::time::Instant::now();
            // paused time jumps to the next timer once every task is idle
            let done = tokio::time::timeout(Duration::from_millis(bound_ms), &mut run).await.is_ok();
            for _ in 0..24 {
                tokio::task::yield_now().await;
            }
            (t0.elapsed().as_millis() as u64, done)
        });
        if done {
            self.run_done = true;
        } else {
            self.run = Some(run);
        }
        ms
    }

    /// deliver one event (a request body without `now=`) at clock reading `now` and run to quiescence; no request
    /// line is written and no oracle runs: for scenarios the quiescent model does not describe (parked client calls)
    pub fn feed(&mut self, body: &str, now: u64) -> Vec<(String, String)> {
        let op = format!("host {} now={}", body, now);
        let w: Vec<&str> = op.split(' ').collect();
        let ev = self.build_event(&w, now).expect("event");
        self.push(ev);
        self.rt.as_ref().expect("host session without own runtime").block_on(async {
            set_clocks(now);
            ev_tick().await;
        });
        self.effects()
    }

    /// is the application task waiting inside `EventLoop::poll` (every event handed to the event loop has been
    /// taken and dispatched)? `false` = it sits somewhere else, i.e. in `send().await` into a full node queue
    pub fn dispatcher_waiting(&self) -> bool {
        let (mut polls, mut polled) = (0u64, 0u64);
        for o in self.hub.trace_from(0) {
            match o {
                Obs::Poll => polls += 1,
                Obs::Polled(_) => polled += 1,
                _ => {}
            }
        }
        polls == polled + 1
    }

    /// `AppClient::cancel()` at clock reading `now`, the final Offline as `fin` says, then virtual time runs on in
    /// 1 ms steps (clock readings now+1, now+2, ...) until `Application::run()` has returned, at most `bound_ms`.
    /// The C20 clauses that hold for EVERY cancel are judged here: cancel itself never waits, it hands the offline
    /// STATE certificate to the client through a try_ call and then asks for the disconnect.
    pub fn cancel(&mut self, op: &str, now: u64, fin: FinalOffline, bound_ms: u64, ticked: bool, out: &mut Out) -> CancelReport {
        let client = self.app_client.clone().expect("app client");
        let hub = self.hub.clone();
        let feeder = self.feeder.clone();
        let parked_before = hub.parked_ids();
        let dispatcher_waiting = self.dispatcher_waiting();
        let host_online = self.host_online;
        let from = hub.calls().len();
        let rt = self.rt.as_ref().expect("host session without own runtime");
        let cancel_returned = rt.block_on(async {
            set_clocks(now);
            // paused time only moves when every task is idle: the timeout fires iff cancel() is waiting for something
            let done = tokio::time::timeout(Duration::from_millis(3), client.cancel()).await.is_ok();
            if fin == FinalOffline::WithCancel {
                feeder.push(Event::Offline);
            }
            ev_tick().await;
            done
        });
        self.cancelled = true;
        let during: Vec<Call> = hub.calls()[from..].to_vec();
        let mut waited = 0u64;
        if fin == FinalOffline::AfterStop && !self.run_returned() {
            self.feeder.push(Event::Offline);
        }
        if ticked {
            // 1 ms steps with the mock clock moving along (reorder timers may fire while the host waits)
            while !self.run_returned() && waited < bound_ms {
                waited += 1;
                let t = now + waited;
                self.rt.as_ref().unwrap().block_on(adv_ticks(t, 1));
            }
        } else {
            waited = self.wait_for_return(bound_ms);
        }
        set_clocks(now + waited);
        let returned_after = if self.run_returned() { Some(waited) } else { None };
        // ---- the clauses of C20's host sentence that hold whatever the state of the application
        let feat = |s: &str| format!("{}{}", s, if parked_before.is_empty() { "" } else { ":client-calls-parked" });
        if !cancel_returned {
            out.fail("C20:host-cancel-never-waits", &feat("cancel-waits"), format!("{}: AppClient::cancel() did not return without time passing (client calls parked: {:?})", op, parked_before));
        }
        let states: Vec<&Call> = during.iter().filter(|c| c.kind == Kind::State).collect();
        let offline_cert = states.iter().position(|c| matches!(c.state, Some(srad_client::StatePayload::Offline { .. })));
        match offline_cert {
            None => out.fail("C20:host-cancel-publishes-offline-state", &feat("missing"), format!("{}: cancel handed over {:?}, no offline STATE certificate", op, during.iter().map(|c| c.kind.name()).collect::<Vec<_>>())),
            Some(k) => {
                let c = states[k];
                if let Some(b) = states.iter().find(|c| !c.is_try) {
                    out.fail("C20:host-cancel-publishes-offline-state", &feat("blocking-call"), format!("{}: cancel handed a STATE message ({:?}) to the client's BLOCKING publish", op, b.state));
                }
                if c.topic != "spBv1.0/STATE/host" {
                    out.fail("C20:host-cancel-publishes-offline-state", &feat("topic"), format!("{}: offline STATE certificate published on {}", op, c.topic));
                }
                if states.len() != 1 {
                    out.fail("C20:host-cancel-publishes-offline-state", &feat("more-than-one-state-message"), format!("{}: {} STATE messages handed over by cancel", op, states.len()));
                }
            }
        }
        let disc: Vec<&Call> = during.iter().filter(|c| c.kind == Kind::Disconnect).collect();
        if disc.len() != 1 {
            out.fail("C20:host-cancel-disconnects", &feat(if disc.is_empty() { "missing" } else { "repeated" }), format!("{}: {} disconnect requests handed over by cancel", op, disc.len()));
        } else if let Some(k) = offline_cert {
            if disc[0].id < states[k].id {
                out.fail("C20:host-cancel-disconnects", &feat("before-offline-state"), format!("{}: the disconnect was asked for before the offline STATE certificate was handed over", op));
            }
        }
        let _ = host_online;
        let effects = self.effects();
        CancelReport { cancel_returned, dispatcher_waiting, parked_before, returned_after, effects }
    }

    fn node_event(&self, node: &str, kind: MessageKind, p: Payload) -> Event {
        Event::Node(NodeMessage { group_id: "g".into(), node_id: node.into(), message: Message { payload: p, kind } })
    }
    fn dev_event(&self, node: &str, dev: &str, kind: MessageKind, p: Payload) -> Event {
        Event::Device(DeviceMessage {
            group_id: "g".into(),
            node_id: node.into(),
            device_id: format!("d{}", dev),
            message: Message { payload: p, kind },
        })
    }

    /// collect the effects since the last request, canonicalised
    fn effects(&mut self) -> Vec<(String, String)> {
        let obs = self.hub.trace_from(self.mark);
        self.mark = self.hub.trace_len();
        let mut v: Vec<(String, String)> = vec![];
        // calls the client refused at once (a try_ call meeting a full request queue, `tf=1`)
        let refused: BTreeSet<usize> = obs.iter().filter_map(|o| if let Obs::Resolved(id, false) = o { Some(*id) } else { None }).collect();
        for o in obs {
            match o {
                Obs::Note(s) => {
                    let (n, e) = s.split_once(':').unwrap();
                    v.push((n.to_string(), e.to_string()));
                }
                Obs::Call(id) => {
                    let c = self.hub.call(id);
                    if c.kind == Kind::NCmd {
                        let n = c.topic.rsplit('/').next().unwrap().to_string();
                        // the NCMD must be the rebirth command
                        let ok = c.payload.as_ref().map(|p| {
                            p.metrics.len() == 1
                                && p.metrics[0].name.as_deref() == Some("Node Control/Rebirth")
                                && p.metrics[0].value == Some(metric::Value::BooleanValue(true))
                        });
                        if refused.contains(&id) && c.is_try {
                            // handed over by a call that could not wait: nothing was published (a WAITING publish the
                            // user's Client answers with Err - `pf=1` - is a request the host did make: `ncmd`)
                            v.push((n, "ncmdLost".into()));
                        } else {
                            v.push((n, if ok == Some(true) { "ncmd".into() } else { "ncmd?".into() }));
                        }
                    }
                }
                _ => {}
            }
        }
        v
    }

    fn canon(v: &[(String, String)]) -> String {
        if v.is_empty() {
            return "-".into();
        }
        let mut out = vec![];
        for (n, toks) in Self::canon_by_node(v) {
            for t in toks {
                out.push(format!("{}:{}", n, t));
            }
        }
        out.join(";")
    }

    /// the effects grouped by node (nodes sorted, order within a node kept), runs of devStale
    /// inside a node sorted by device
    pub fn canon_by_node(v: &[(String, String)]) -> Vec<(String, Vec<String>)> {
        let mut nodes: Vec<String> = v.iter().map(|x| x.0.clone()).collect();
        nodes.sort();
        nodes.dedup();
        let mut res = vec![];
        for n in nodes {
            let mut out = vec![];
            let es: Vec<&String> = v.iter().filter(|x| x.0 == n).map(|x| &x.1).collect();
            let mut i = 0;
            while i < es.len() {
                if es[i].starts_with("devStale(") {
                    let mut j = i;
                    let mut run = vec![];
                    while j < es.len() && es[j].starts_with("devStale(") {
                        let d: u64 = es[j][9..es[j].len() - 1].parse().unwrap();
                        run.push(d);
                        j += 1;
                    }
                    run.sort();
                    for d in run {
                        out.push(format!("devStale({})", d));
                    }
                    i = j;
                } else {
                    out.push(es[i].clone());
                    i += 1;
                }
            }
            res.push((n, out));
        }
        res
    }

    /// the property oracles, over what the implementation actually did
    fn oracle(&mut self, op: &str, w: &[&str], effs: &[(String, String)], now: u64, out: &mut Out) {
        if self.cancelled && w[1] != "cancel" {
            // the application has been stopped: C05/C06/C07 speak of a running host (what still happens is
            // compared with the model: nothing)
            return;
        }
        let target = if w[1] == "ev" || w[1] == "inv" { Some(w[2].to_string()) } else { None };
        let was_birthed: BTreeMap<String, bool> = self.node_life.clone();
        let ts = kv(w, "ts").map(|x| x.parse::<u64>().unwrap());
        if kv(w, "nl") == Some("1") {
            self.order_suspended.insert(target.clone().unwrap());
        }
        // C05, last sentence, on a stream delivered in publish order: nothing is withheld
        if self.inorder && w[1] == "ev" && matches!(w[3], "ndata" | "dbirth" | "ddata" | "ddeath") {
            if let Some(id) = kv(w, "id").and_then(|x| x.parse::<i64>().ok()).filter(|x| *x > 0) {
                let n = target.clone().unwrap();
                // a payload without metrics (`m=0`) is a message like any other: it is applied (the store is
                // called, with an empty list) and it consumes its sequence number
                let bare = kv(w, "m") == Some("0");
                let shown = if bare { -1 } else { id };
                let want = match w[3] {
                    "ndata" => Some(format!("nodeData({})", shown)),
                    "dbirth" => Some(format!("devBirth({},{},1)", kv(w, "dev").unwrap(), shown)),
                    "ddata" => Some(format!("devData({},{})", kv(w, "dev").unwrap(), shown)),
                    // a DDEATH (never carries metrics) of a device held birthed marks it stale
                    _ if self.dev_life.get(&(n.clone(), kv(w, "dev").unwrap().to_string())) == Some(&true) => Some(format!("devStale({})", kv(w, "dev").unwrap())),
                    _ => None,
                };
                if let Some(want) = want {
                    if !effs.iter().any(|(m, e)| *m == n && *e == want) {
                        // the discriminating trait of a message stamped in the very millisecond in which the host
                        // began to hold the node stale (it belongs to the session AFTER that instant: not older)
                        let at_stale = ts.is_some() && ts == self.stale_ts.get(&n).copied();
                        out.fail(
                            "C05:prompt-apply",
                            &format!("in-order-stream:{}{}{}", w[3], if bare { ":no-metrics" } else { "" }, if at_stale { ":stamped-at-stale-instant" } else { "" }),
                            format!("{} => {:?}: expected {}", op, effs, want),
                        );
                    }
                }
            }
        }
        // old messages are discarded (C06, third sentence)
        if w[1] == "ev" && w[3] != "nbirth" && w[3] != "ndeath" {
            let n = target.clone().unwrap();
            let t = ts.unwrap();
            if let Some(id) = kv(w, "id").and_then(|x| x.parse::<i64>().ok()) {
                if id > 0 {
                    self.msg_ts.insert((n.clone(), id), t);
                }
            }
            let old = t < *self.birth_ts.get(&n).unwrap_or(&0) || t < *self.stale_ts.get(&n).unwrap_or(&0);
            if old && self.node_life.contains_key(&n) && !effs.is_empty() {
                out.fail("C06:old-message-discarded", w[3], format!("{} => {:?}", op, effs));
            }
        }
        for (n, e) in effs {
            let name = e.split('(').next().unwrap();
            let args: Vec<i64> = e
                .split(|c| c == '(' || c == ')' || c == ',')
                .skip(1)
                .filter(|x| !x.is_empty())
                .map(|x| x.parse().unwrap_or(-9))
                .collect();
            match name {
                "nodeBirth" => {
                    if self.burst_mode {
                        // the store call shows the id of the NBIRTH: C14 (an NBIRTH that is not strictly
                        // newer reaches no store) and the bookkeeping `host` does per request line
                        if let Some(t) = self.nbirth_ts.get(&(n.clone(), args[0])).copied() {
                            if t <= *self.birth_ts.get(n).unwrap_or(&0) {
                                out.fail("C14:stale-nbirth-ignored", "older-or-equal", format!("{} => {:?}", op, effs));
                            } else if args[1] == 1 {
                                self.birth_ts.insert(n.clone(), t);
                            }
                        }
                    }
                    if args[1] == 1 {
                        self.node_life.insert(n.clone(), true);
                        self.last_applied_id.insert(n.clone(), None);
                    }
                }
                "nodeStale" => {
                    self.node_life.insert(n.clone(), false);
                    self.stale_ts.insert(n.clone(), now);
                }
                "devCreated" => {
                    self.devs.entry(n.clone()).or_default().insert(args[0].to_string());
                }
                "devBirth" => {
                    if args[2] == 1 {
                        self.dev_life.insert((n.clone(), args[0].to_string()), true);
                    }
                }
                "devStale" => {
                    self.dev_life.insert((n.clone(), args[0].to_string()), false);
                }
                "nodeData" | "devData" => {
                    // C06 third sentence, at application time: a message buffered by the resequencer
                    // must not be applied once a newer birth has been accepted
                    let id = if name == "nodeData" { args[0] } else { args[1] };
                    if let (Some(t), Some(b)) = (self.msg_ts.get(&(n.clone(), id)), self.birth_ts.get(n)) {
                        if id > 0 && *t < *b {
                            out.fail("C06:old-message-discarded", "applied-after-newer-birth", format!("{} => {:?}: message {} (ts {}) applied under the birth of ts {}", op, effs, id, t, b));
                        }
                    }
                    // C06 first sentence
                    if self.node_life.get(n) != Some(&true) {
                        out.fail("C06:data-needs-node-birth", name, format!("{} => {:?}", op, effs));
                        // C05, first sentence: messages are applied "between an accepted NBIRTH and the next staleness":
                        // the stores were told the node is stale and no NBIRTH has been accepted since
                        if self.node_life.get(n) == Some(&false) {
                            out.fail(
                                "C05:applied-between-birth-and-staleness",
                                if self.pf { "after-staleness:client-refuses-rebirth-ncmd" } else { "after-staleness" },
                                format!("{} => {:?}: applied although the node's stores were last told `stale` and no NBIRTH was accepted since", op, effs),
                            );
                        }
                    }
                    if name == "devData" && self.dev_life.get(&(n.clone(), args[0].to_string())) != Some(&true) {
                        out.fail("C06:data-needs-device-birth", name, format!("{} => {:?}", op, effs));
                    }
                }
                "ncmd" => {
                    self.ncmds += 1;
                    // C07 last sentence: only for a node currently held stale
                    if self.node_life.get(n) == Some(&true) {
                        let feature = if self.birth_ts.get(n).copied().unwrap_or(0) > now { "birth_ts>host_now" } else { "held-birthed" };
                        out.fail("C07:ncmd-only-when-stale", feature, format!("{} => {:?}", op, effs));
                    }
                    // C06 second sentence: a rebirth request issued by the host marks the node's stores stale (whatever
                    // the user's Client answers to the publish). The clock-incoherent case is K1 (C06:death-marks-stale)
                    if self.node_life.get(n) == Some(&true) && self.birth_ts.get(n).copied().unwrap_or(0) <= now {
                        out.fail(
                            "C06:rebirth-request-marks-stale",
                            if self.pf { "client-refuses-rebirth-ncmd" } else { "held-birthed" },
                            format!("{} => {:?}: rebirth NCMD requested while the node's stores were last told `birthed`", op, effs),
                        );
                    }
                    if self.clean {
                        out.fail("C07:no-spurious-rebirth", "clean-stream", format!("{} => {:?}", op, effs));
                    }
                }
                "ncmd?" => out.fail("C07:ncmd-is-rebirth-command", "payload", op.to_string()),
                "ncmdLost" => out.fail("C07:ncmd-published", "non-waiting-call-on-full-queue", format!("{} => {:?}: the rebirth NCMD was handed over by a try_ call and refused by the full client queue", op, effs)),
                _ => {}
            }
            // C05: applied in publisher order, at most once. The generators number the messages
            // of a node session in publish order, so applied ids must be strictly increasing.
            if matches!(name, "nodeData" | "devData" | "devBirth") && self.reseq_on && self.ordered_ids && !self.order_suspended.contains(n) {
                let id = if name == "nodeData" { args[0] } else { args[1] };
                if id >= 0 {
                    if let Some(Some(p)) = self.last_applied_id.get(n) {
                        if id <= *p {
                            let again = self.applied_ids.contains(&(n.clone(), id));
                            out.fail(
                                "C05:applied-in-order-once",
                                if again { "late-duplicate-reapplied" } else { "inversion" },
                                format!("{}: message {} applied after message {}", op, id, p),
                            );
                        }
                    }
                    self.applied_ids.insert((n.clone(), id));
                    self.last_applied_id.insert(n.clone(), Some(id));
                }
            }
        }
        // an accepted NBIRTH (with or without store call) restarts the sequence
        if w[1] == "ev" && w[3] == "nbirth" {
            let n = target.clone().unwrap();
            let t = ts.unwrap();
            // C14: a well-formed NBIRTH strictly newer than the birth the host holds (or than "never" = 0)
            // is shown to the node's store
            if !self.burst_mode && t > *self.birth_ts.get(&n).unwrap_or(&0) && !effs.iter().any(|(m, e)| *m == n && e.starts_with("nodeBirth(")) {
                out.fail("C14:newer-nbirth-admitted", if self.birth_ts.contains_key(&n) { "rebirth" } else { "first-birth" }, format!("{} => {:?}", op, effs));
            }
            let accepted = t > *self.birth_ts.get(&n).unwrap_or(&0)
                && !effs.iter().any(|(_, e)| e.starts_with("nodeBirth(") && e.ends_with(",0)"));
            if accepted {
                self.birth_ts.insert(n.clone(), t);
                self.node_life.insert(n.clone(), true);
                self.last_applied_id.insert(n.clone(), None);
                self.order_suspended.remove(&n);
            } else if t <= *self.birth_ts.get(&n).unwrap_or(&0) && effs.iter().any(|(_, e)| e != "nodeCreated") {
                // C14: an NBIRTH that is not strictly newer changes nothing
                out.fail("C14:stale-nbirth-ignored", "older-or-equal", format!("{} => {:?}", op, effs));
            }
        }
        // C06 second sentence: NDEATH / host offline mark everything stale
        let staling: Vec<String> = match (w[1], w.get(3).copied()) {
            ("ev", Some("ndeath")) => vec![target.clone().unwrap()],
            ("offline", _) if self.host_online => was_birthed.keys().cloned().collect(),
            _ => vec![],
        };
        match w[1] {
            "offline" => self.host_online = false,
            "online" => self.host_online = true,
            _ => {}
        }
        for n in staling {
            if was_birthed.get(&n) == Some(&true) {
                let coherent = self.birth_ts.get(&n).copied().unwrap_or(0) <= now;
                let got_node = effs.iter().any(|(m, e)| *m == n && e == "nodeStale");
                let devs = self.devs.get(&n).cloned().unwrap_or_default();
                let got_devs = devs.iter().all(|d| effs.iter().any(|(m, e)| *m == n && *e == format!("devStale({})", d)));
                if !(got_node && got_devs) {
                    out.fail(
                        "C06:death-marks-stale",
                        if coherent { w[1] } else { "birth_ts>host_now" },
                        format!("{} => {:?} (devices {:?})", op, effs, devs),
                    );
                }
            }
        }
    }

    /// the event a request line (`w[0]` = component name) delivers; `None` for `adv`
    pub fn build_event(&self, w: &[&str], now: u64) -> Option<Event> {
        match w[1] {
            "ev" => {
                let node = w[2];
                let ts = kv(w, "ts").map(|x| x.parse::<u64>().unwrap());
                let ans = kv(w, "ans").unwrap_or("ok");
                let id = kv(w, "id").map(|x| x.parse::<u64>().unwrap()).unwrap_or(0);
                // `m=0`: a payload without any metric (a store rejection needs a metric to ride on)
                let bare = match kv(w, "m") {
                    None => false,
                    Some("0") if ans == "ok" && matches!(w[3], "ndata" | "dbirth" | "ddata") => true,
                    Some(x) => panic!("bad m={} on {}", x, w[3]),
                };
                let strip = |ms: Vec<Metric>| if bare { vec![] } else { ms };
                Some(match w[3] {
                    "nbirth" => {
                        let t = ts.unwrap();
                        let mut ms = vec![m_long("bdSeq", num(w, "bd"), t, true), m_long("id", id, t, true)];
                        ms.extend(ans_metric(ans, t, true));
                        self.node_event(node, MessageKind::Birth, payload(Some(t), Some(0), ms))
                    }
                    "ndeath" => {
                        // a will is built when the connection is opened: whatever timestamp it carries is
                        // older than the session's NBIRTH; staleness is decided by the arrival time
                        let pts = match kv(w, "pts") {
                            None => Some(now),
                            Some("-") => None,
                            Some(x) => Some(x.parse::<u64>().unwrap()),
                        };
                        let ms = vec![m_long("bdSeq", num(w, "bd"), pts.unwrap_or(now), false)];
                        self.node_event(node, MessageKind::Death, payload(pts, None, ms))
                    }
                    "ndata" => {
                        let t = ts.unwrap();
                        let mut ms = vec![m_long("id", id, t, false)];
                        ms.extend(ans_metric(ans, t, false));
                        self.node_event(node, MessageKind::Data, payload(Some(t), Some(num(w, "seq")), strip(ms)))
                    }
                    "dbirth" => {
                        let t = ts.unwrap();
                        let mut ms = vec![m_long("id", id, t, true)];
                        ms.extend(ans_metric(ans, t, true));
                        self.dev_event(node, kv(w, "dev").unwrap(), MessageKind::Birth, payload(Some(t), Some(num(w, "seq")), strip(ms)))
                    }
                    "ddeath" => {
                        let t = ts.unwrap();
                        self.dev_event(node, kv(w, "dev").unwrap(), MessageKind::Death, payload(Some(t), Some(num(w, "seq")), vec![]))
                    }
                    "ddata" => {
                        let t = ts.unwrap();
                        let mut ms = vec![m_long("id", id, t, false)];
                        ms.extend(ans_metric(ans, t, false));
                        self.dev_event(node, kv(w, "dev").unwrap(), MessageKind::Data, payload(Some(t), Some(num(w, "seq")), strip(ms)))
                    }
                    x => panic!("bad host event {}", x),
                })
            }
            "inv" => Some(self.node_event(w[2], MessageKind::Data, payload(Some(now), None, vec![]))),
            "offline" => Some(Event::Offline),
            "online" => Some(Event::Online),
            "adv" => None,
            x => panic!("bad host op {}", x),
        }
    }

    /// C20, host sentence, last part: "... and makes its run loop return". What is demanded: when the application
    /// task was waiting for the next event at the moment of the cancel (it was not itself held up in a send to a
    /// full node queue) and the event loop hands it nothing but - at most - the final Offline after the stop request
    /// was taken, `Application::run()` returns within the bounded wait for the Offline (1 s of virtual time),
    /// WHETHER OR NOT client calls of the node actors are parked (back-pressure) and whatever their queues hold.
    pub fn judge_run_returns(&self, op: &str, rep: &CancelReport, fin: FinalOffline, out: &mut Out) {
        if !rep.dispatcher_waiting || fin == FinalOffline::WithCancel {
            return;
        }
        let ok = matches!(rep.returned_after, Some(w) if w <= HOST_STOP_BOUND_MS + 1);
        if !ok {
            let feature = format!(
                "{}{}",
                if fin == FinalOffline::Withheld { "offline-withheld" } else { "offline-delivered" },
                if rep.parked_before.is_empty() { "" } else { ":client-calls-parked" }
            );
            out.fail(
                "C20:host-run-returns",
                &feature,
                format!(
                    "{}: Application::run() had not returned {} ms after AppClient::cancel() (application task idle in poll at the cancel; client calls parked at the cancel {:?}, still parked {:?})",
                    op,
                    HOST_STOP_BOUND_MS + 1,
                    rep.parked_before,
                    self.hub.parked_ids()
                ),
            );
        }
    }

    fn exec_cancel(&mut self, op: &str, w: &[&str], now: u64, out: &mut Out) -> String {
        let fin = match kv(w, "off") {
            Some("1") => FinalOffline::AfterStop,
            Some("0") => FinalOffline::Withheld,
            x => panic!("bad cancel off={:?}", x),
        };
        if self.cancelled {
            // a second cancel: `cancel()` would wait for room in the stop channel of a loop that is gone
            return "-".into();
        }
        let rep = self.cancel(op, now, fin, HOST_STOP_BOUND_MS + 5, true, out);
        self.judge_run_returns(op, &rep, fin, out);
        self.oracle(op, w, &rep.effects, now, out);
        format!("{} w={}", Self::canon(&rep.effects), rep.returned_after.map(|x| x.to_string()).unwrap_or("never".into()))
    }

    pub fn exec(&mut self, op: &str, out: &mut Out) -> String {
        let w: Vec<&str> = op.split(' ').collect();
        let now = num(&w, "now");
        if w[1] == "cancel" {
            return self.exec_cancel(op, &w, now, out);
        }
        let ev: Option<Event> = self.build_event(&w, now);
        let feeder = self.feeder.clone();
        let adv: u64 = if w[1] == "adv" { w[2].parse().unwrap() } else { 0 };
        self.rt.as_ref().expect("host session without own runtime").block_on(async move {
            set_clocks(now);
            match ev {
                Some(e) => {
                    feeder.push(e);
                    ev_tick().await;
                }
                None => adv_ticks(now, adv).await,
            }
        });
        self.observe(op, out).1
    }

    /// component `hostq`: every event of the burst is handed to the event loop before anything is
    /// handled; then run to quiescence (clock reading unchanged, tick alignment as `exec`)
    pub fn run_burst(&mut self, evs: Vec<Event>, now: u64) {
        let feeder = self.feeder.clone();
        self.rt.as_ref().expect("host session without own runtime").block_on(async move {
            set_clocks(now);
            for e in evs {
                feeder.push(e);
            }
            ev_tick().await;
        });
    }

    pub fn run_adv(&mut self, now: u64, adv: u64) {
        self.rt.as_ref().expect("host session without own runtime").block_on(async move {
            set_clocks(now);
            adv_ticks(now, adv).await;
        });
    }

    /// a resequenceable message of the burst (payload timestamp by id, for the C06 oracle)
    pub fn note_msg(&mut self, node: &str, id: i64, ts: u64) {
        if id > 0 {
            self.msg_ts.insert((node.to_string(), id), ts);
        }
    }
    pub fn note_nbirth(&mut self, node: &str, id: i64, ts: u64) {
        self.nbirth_ts.insert((node.to_string(), id), ts);
    }
    /// the effects since the last request in the order they happened; the schedule-independent
    /// oracle clauses are run on them (`op` is only quoted in failure reports)
    pub fn observe_burst(&mut self, op: &str, now: u64, out: &mut Out) -> Vec<(String, String)> {
        let effs = self.effects();
        self.oracle(op, &["hostq", "burst"], &effs, now, out);
        effs
    }
    pub fn node_birthed(&self, n: &str) -> bool {
        self.node_life.get(n) == Some(&true)
    }
    pub fn birthed_devices(&self, n: &str) -> Vec<String> {
        self.dev_life.iter().filter(|(k, v)| k.0 == n && **v).map(|(k, _)| k.1.clone()).collect()
    }
    pub fn birth_ts_of(&self, n: &str) -> u64 {
        self.birth_ts.get(n).copied().unwrap_or(0)
    }

    pub fn hub(&self) -> Hub {
        self.hub.clone()
    }

    /// hand an event to the application's event loop (it is handled during the next tick)
    pub fn push(&self, e: Event) {
        self.feeder.push(e);
    }

    /// the effects since the last request: run the oracles on them for the request line `op`
    /// (which carries the clock reading `now=`) and return them raw and canonicalised
    pub fn observe(&mut self, op: &str, out: &mut Out) -> (Vec<(String, String)>, String) {
        let w: Vec<&str> = op.split(' ').collect();
        let now = num(&w, "now");
        let effs = self.effects();
        self.oracle(op, &w, &effs, now, out);
        let c = Self::canon(&effs);
        (effs, c)
    }
}

// ------------------------------------------------------------------------------------------
// generators
// ------------------------------------------------------------------------------------------

pub struct Case<'a> {
    pub sess: Sess,
    pub out: &'a mut Out,
    pub now: u64,
}

impl<'a> Case<'a> {
    pub fn begin(out: &'a mut Out, cfg: &str, now: u64) -> Case<'a> {
        let op = format!("host new {} now={}", cfg, now);
        let sess = Sess::new(&op);
        out.begin_case(&op, "ok");
        Case { sess, out, now }
    }
    /// send one request (the clock reading is appended), return the answer
    pub fn op(&mut self, body: &str) -> String {
        let op = format!("host {} now={}", body, self.now);
        let a = self.sess.exec(&op, self.out);
        self.out.line(&op, &a);
        if let Some(ms) = body.strip_prefix("adv ") {
            self.now += ms.parse::<u64>().unwrap();
        } else if body.starts_with("cancel ") && a != "-" {
            // the request took 1 ms plus the time until the run loop returned
            let w = a.rsplit_once(" w=").map(|x| x.1).unwrap_or("never");
            self.now += 1 + w.parse::<u64>().unwrap_or(HOST_STOP_BOUND_MS + 5);
        } else {
            self.now += 1;
        }
        a
    }
}

pub fn cfg_default(to: &str, cd: u64, rq: u8) -> String {
    format!("ip=0 bd=1 un=1 ud=1 um=1 rf=1 rs=1 to={} cd={} rq={} q=1024", to, cd, rq)
}

pub fn cfg_random(rng: &mut Rng) -> (String, Option<u64>) {
    let to = *rng.pick(&[None, Some(100u64), Some(250), Some(3000)]);
    let cd = *rng.pick(&[0u64, 0, 0, 50, 1_000_000_000]);
    let b = |r: &mut Rng| r.below(4).min(1); // mostly on
    let s = format!(
        "ip={} bd={} un={} ud={} um={} rf={} rs={} to={} cd={} rq={} q={}",
        rng.below(2), b(rng), b(rng), b(rng), b(rng), b(rng), b(rng),
        to.map(|x| x.to_string()).unwrap_or("-".into()),
        cd,
        if rng.chance(9, 10) { 1 } else { 0 },
        rng.pick(&[1u64, 2, 1024])
    );
    (s, to)
}

/// one message of a publisher session, in publish order
#[derive(Clone, Debug)]
pub struct PMsg {
    pub body: String, // e.g. "ndata seq=3 ts=.. id=.. ans=ok" without the node prefix
    pub index: usize, // publish index within the session (1-based; NBIRTH is 0)
}

/// how a publisher session stamps its messages relative to its NBIRTH (timestamp `b`): every comparison the host
/// makes with a message timestamp (`< birth timestamp`, `< stale timestamp`) is met with EQUAL operands by the
/// flat shapes (a publisher that sends a whole session within one millisecond of its clock)
#[derive(Clone, Copy, Debug, PartialEq)]
pub enum TsShape {
    /// message k carries b + k (1 ms per message)
    Step,
    /// every message carries b
    Flat,
    /// the first j messages carry b, message k > j carries b + (k - j)
    FlatHead(usize),
}

impl TsShape {
    pub fn ts(&self, b: u64, k: usize) -> u64 {
        match *self {
            TsShape::Step => b + k as u64,
            TsShape::Flat => b,
            TsShape::FlatHead(j) => b + k.saturating_sub(j) as u64,
        }
    }
    pub fn random(rng: &mut Rng) -> TsShape {
        match rng.below(4) {
            0 => TsShape::Flat,
            1 => TsShape::FlatHead(rng.range(1, 3) as usize),
            _ => TsShape::Step,
        }
    }
    pub fn name(&self) -> &'static str {
        match self {
            TsShape::Step => "ts-shape:step",
            TsShape::Flat => "ts-shape:flat",
            TsShape::FlatHead(_) => "ts-shape:flat-head",
        }
    }
}

/// a valid publisher session for one node: NBIRTH then `n` resequenceable messages
pub fn session(rng: &mut Rng, bd: u64, birth_ts: u64, n: usize, ndev: u64, next_id: &mut u64) -> (String, Vec<PMsg>) {
    session_shaped(rng, bd, birth_ts, n, ndev, next_id, TsShape::Step)
}

pub fn session_shaped(rng: &mut Rng, bd: u64, birth_ts: u64, n: usize, ndev: u64, next_id: &mut u64, shape: TsShape) -> (String, Vec<PMsg>) {
    *next_id += 1;
    let birth = format!("nbirth ts={} bd={} id={} ans=ok", birth_ts, bd, *next_id);
    let mut dev_up = vec![false; ndev as usize + 1];
    let mut v = vec![];
    for k in 1..=n {
        let seq = k % 256;
        let ts = shape.ts(birth_ts, k);
        *next_id += 1;
        let id = *next_id;
        let d = if ndev > 0 { rng.range(1, ndev) } else { 0 };
        let body = if d == 0 || rng.chance(1, 3) {
            format!("ndata seq={} ts={} id={} ans=ok", seq, ts, id)
        } else if !dev_up[d as usize] {
            dev_up[d as usize] = true;
            format!("dbirth dev={} seq={} ts={} id={} ans=ok", d, seq, ts, id)
        } else if rng.chance(1, 8) {
            dev_up[d as usize] = false;
            format!("ddeath dev={} seq={} ts={} id={}", d, seq, ts, id)
        } else {
            format!("ddata dev={} seq={} ts={} id={} ans=ok", d, seq, ts, id)
        };
        // a legal but degenerate payload shape: seq and timestamp, no metric at all (a heartbeat; a DBIRTH of a
        // device without metrics); a DDEATH never carries any
        let body = if !body.starts_with("ddeath") && rng.chance(1, 8) { format!("{} m=0", body) } else { body };
        v.push(PMsg { body, index: k });
    }
    (birth, v)
}

pub fn displaced(rng: &mut Rng, v: &[PMsg], d: u64) -> Vec<PMsg> {
    let mut keyed: Vec<(usize, usize)> = (0..v.len()).map(|i| (i + rng.below(d + 1) as usize, i)).collect();
    keyed.sort();
    keyed.into_iter().map(|x| v[x.1].clone()).collect()
}

/// Fault-free histories: several nodes, several sessions each (reconnects with NDEATH and a new
/// bdSeq, or rebirths with the same bdSeq), every message delivered exactly once within a
/// bounded displacement, and every sequence gap closes before the reorder timeout: the whole
/// delivery schedule is planned first, the longest time any gap stays open is measured, and the
/// timeout is chosen just above it (or 3 s, or none). Oracles: no NCMD at all (C07); promptness
/// (C05): after each delivery the applied messages of the session are exactly those whose
/// predecessors have all arrived.
fn clean_case(out: &mut Out, rng: &mut Rng, long: bool) {
    enum Item {
        Death { node: usize, bd: u64 },
        Birth { node: usize, bd: u64, n: usize, ndev: u64 },
        Msg { node: usize, k: usize }, // k-th entry of the current session's delivery order
    }
    let nodes = rng.range(1, 3) as usize;
    let mut bd: Vec<u64> = (0..nodes).map(|_| rng.below(256)).collect();
    let ndev: Vec<u64> = (0..nodes).map(|_| rng.below(4)).collect();
    let mut sessions_left: Vec<u64> = (0..nodes).map(|_| rng.range(1, 3)).collect();
    let mut remaining: Vec<usize> = vec![0; nodes];
    let mut first = vec![true; nodes];
    let mut plan: Vec<Item> = vec![];
    loop {
        let live: Vec<usize> = (0..nodes).filter(|&i| remaining[i] > 0 || sessions_left[i] > 0).collect();
        if live.is_empty() {
            break;
        }
        let i = *rng.pick(&live);
        if remaining[i] == 0 {
            sessions_left[i] -= 1;
            if !first[i] && rng.chance(1, 2) {
                plan.push(Item::Death { node: i, bd: bd[i] });
                bd[i] = (bd[i] + 1) % 256;
            }
            first[i] = false;
            let n = if long { rng.range(200, 700) } else { rng.range(1, 60) } as usize;
            plan.push(Item::Birth { node: i, bd: bd[i], n, ndev: ndev[i] });
            remaining[i] = n;
        } else {
            remaining[i] -= 1;
            plan.push(Item::Msg { node: i, k: 0 });
        }
    }
    // materialise: every request takes exactly 1 ms of host time
    let t0 = 1_000_000 + rng.below(1000);
    let mut next_id = 0u64;
    let mut queues: Vec<Vec<PMsg>> = vec![vec![]; nodes];
    let mut bodies: Vec<(usize, String, usize)> = vec![]; // (node, request body, publish index or 0)
    let mut big_any = false;
    // host clock reading at which the node's NDEATH is handled (= the instant the host holds it stale from)
    let mut died_at: Vec<Option<u64>> = vec![None; nodes];
    // position in `bodies` of the NBIRTH of a session stamped in that very millisecond
    let mut same_ms: Vec<bool> = vec![];
    let mut shapes: Vec<&'static str> = vec![];
    for (pos, it) in plan.iter().enumerate() {
        let now = t0 + pos as u64;
        match it {
            Item::Death { node, bd } => {
                died_at[*node] = Some(now);
                bodies.push((*node, format!("ev n{} ndeath bd={}{}", node + 1, bd, will_ts(rng)), 0));
                same_ms.push(false);
            }
            Item::Birth { node, bd, n, ndev } => {
                // equal timestamps: the session is stamped flat (every message at the birth's millisecond) and, after
                // an NDEATH, the whole session may start in the millisecond in which the host took the NDEATH (a fast
                // reconnect, or a publisher clock slightly behind the host's): such messages are NOT older than the
                // staleness, they are applied like any other
                let shape = TsShape::random(rng);
                let (bts, same) = match died_at[*node].take() {
                    Some(s) if rng.chance(1, 2) => (s, true),
                    _ => (now, false),
                };
                shapes.push(shape.name());
                if same {
                    shapes.push("session-stamped-at-stale-instant");
                }
                let (birth, msgs) = session_shaped(rng, *bd, bts, *n, *ndev, &mut next_id, shape);
                same_ms.push(same);
                // displacement: small (0..=30), or - long sessions, one in two - LARGE: every message may be delivered up to
                // 128..=254 places late (fewer than 256 numbers outstanding, so each message still has one place), or one
                // message overtakes 128..=220 earlier ones on top of a small displacement
                let big = long && *n > 140 && rng.chance(1, 2);
                let d = if big && rng.chance(1, 2) { rng.range(128, 254) } else { rng.range(0, 30) };
                let mut q = displaced(rng, &msgs, d);
                if big && d <= 30 {
                    for _ in 0..rng.range(1, 2) {
                        let k = rng.range(128, 220) as usize;
                        if q.len() > k + 1 {
                            let p = rng.below((q.len() - k) as u64) as usize;
                            let m = q.remove(p + k);
                            q.insert(p, m);
                        }
                    }
                }
                if big {
                    big_any = true;
                }
                q.reverse();
                queues[*node] = q;
                bodies.push((*node, format!("ev n{} {}", node + 1, birth), 0));
            }
            Item::Msg { node, .. } => {
                let m = queues[*node].pop().unwrap();
                bodies.push((*node, format!("ev n{} {}", node + 1, m.body), m.index));
                same_ms.push(false);
            }
        }
    }
    // longest time a gap stays open: for message k, from the first arrival of a later message of
    // its session (while k is missing) until k arrives
    let mut max_gap = 0u64;
    {
        let mut first_later: Vec<Vec<(usize, u64)>> = vec![vec![]; nodes]; // per node: (index, time) arrived in this session
        for (pos, (node, body, idx)) in bodies.iter().enumerate() {
            if body.contains(" nbirth ") {
                first_later[*node].clear();
                continue;
            }
            if *idx == 0 {
                continue;
            }
            let t = pos as u64;
            if let Some(open) = first_later[*node].iter().filter(|(j, _)| j > idx).map(|x| x.1).min() {
                max_gap = max_gap.max(t - open);
            }
            first_later[*node].push((*idx, t));
        }
    }
    let to = match rng.below(3) {
        0 => format!("{}", max_gap + 2),
        1 => "3000".to_string(),
        _ => "-".to_string(),
    };
    let cfg = cfg_default(&to, *rng.pick(&[0u64, 5000]), 1);
    let mut c = Case::begin(out, &cfg, t0);
    c.out.set_desc("clean".into());
    c.sess.clean = true;
    c.sess.ordered_ids = true;
    let mut arrived: Vec<Vec<bool>> = vec![vec![]; nodes];
    let mut mex = vec![1usize; nodes];
    let mut applied = vec![0usize; nodes];
    for s in shapes {
        c.out.count(s);
    }
    let mut at_stale_instant = vec![false; nodes];
    for (pos, (node, body, idx)) in bodies.into_iter().enumerate() {
        let a = c.op(&body[..]);
        if body.contains(" nbirth ") {
            at_stale_instant[node] = same_ms[pos];
            arrived[node] = vec![false; 800];
            arrived[node][0] = true;
            mex[node] = 1;
            applied[node] = 0;
            continue;
        }
        if idx == 0 {
            continue;
        }
        arrived[node][idx] = true;
        while arrived[node][mex[node]] {
            mex[node] += 1;
        }
        if a != "-" {
            applied[node] += a
                .split(';')
                .filter(|e| {
                    let e = e.split_once(':').map(|x| x.1).unwrap_or("");
                    e.starts_with("nodeData(") || e.starts_with("devData(") || e.starts_with("devBirth(") || e.starts_with("devStale(")
                })
                .count();
        }
        if applied[node] != mex[node] - 1 {
            c.out.fail(
                "C05:prompt-apply",
                if at_stale_instant[node] { "clean-stream:session-stamped-at-stale-instant" } else { "clean-stream" },
                format!("node n{}: after delivery of message #{} (`{}` => {}) all of 1..{} have arrived but {} applied", node + 1, idx, body, a, mex[node], applied[node]),
            );
            applied[node] = mex[node] - 1; // report once
        }
    }
    c.out.nontrivial();
    c.out.count(if long { "clean:long" } else { "clean:short" });
    if big_any {
        c.out.count("clean:displacement-128..254");
    }
    c.out.count(&format!("clean:timeout={}", if to == "-" { "none" } else if to == "3000" { "3s" } else { "tight" }));
}

/// Faulty histories: the deliveries of `clean_case`-style sessions with duplicates, losses,
/// NDEATHs (matching / non-matching bdSeq), host offline/online, late deliveries from earlier
/// sessions, unknown nodes and devices, store rejections, replayed NBIRTHs, invalid payloads and
/// virtual time advanced to just before / after the reorder timeout; random configuration.
fn faulty_case(out: &mut Out, rng: &mut Rng) {
    let (cfg, to) = cfg_random(rng);
    let mut c = Case::begin(out, &cfg, 1_000_000 + rng.below(1000));
    c.out.set_desc("ordered".into());
    c.sess.ordered_ids = true;
    let nodes = rng.range(1, 3);
    let mut next_id = 0u64;
    let mut bd: Vec<u64> = (0..nodes).map(|_| rng.below(256)).collect();
    let mut old: Vec<(String, PMsg)> = vec![];
    let mut last_birth_ts: Vec<u64> = vec![0; nodes as usize];
    let steps = rng.range(1, 5);
    let cancel_mid = rng.chance(1, 8);
    for _ in 0..steps {
        let k = rng.below(nodes) as usize;
        let name = format!("n{}", k + 1);
        let n = rng.range(1, 40) as usize;
        let ndev = rng.below(3);
        // timestamp shapes as in `clean_case`; one session in four is stamped 1 ms behind the host clock (the
        // millisecond of the previous request, e.g. of the NDEATH that ended the previous session), provided its
        // NBIRTH stays strictly newer than the node's previous one
        let shape = TsShape::random(rng);
        let bts = if rng.chance(1, 4) && c.now - 1 > last_birth_ts[k] { c.now - 1 } else { c.now };
        last_birth_ts[k] = bts;
        c.out.count(shape.name());
        if bts < c.now {
            c.out.count("session-stamped-1ms-behind-host");
        }
        let (birth, msgs) = session_shaped(rng, bd[k], bts, n, ndev, &mut next_id, shape);
        let mut birth_lost = false;
        if rng.chance(9, 10) {
            c.op(&format!("ev {} {}", name, birth));
        } else {
            c.out.count("fault:nbirth-lost");
            birth_lost = true;
        }
        let d = rng.range(0, 8);
        let mut q = displaced(rng, &msgs, d);
        if birth_lost {
            // the marker `nl=1` (ignored by srad and by the model) tells the publish-order oracle
            // that this publisher session is not delimited by an NBIRTH at the host
            // (every message of the session carries it: the delivery list is mutated below and the first
            // message may be the one that is lost - thorough tier, seed 3, case 109905)
            for m in q.iter_mut() {
                m.body.push_str(" nl=1");
            }
        }
        // mutate the delivery list
        let mut i = 0;
        while i < q.len() {
            match rng.below(40) {
                0 => {
                    let m = q[i].clone();
                    let j = rng.range(i as u64, q.len() as u64) as usize;
                    q.insert(j, m);
                    c.out.count("fault:duplicate");
                }
                1 => {
                    q.remove(i);
                    c.out.count("fault:loss");
                    continue;
                }
                2 if !q[i].body.contains(" m=0") => {
                    q[i].body = q[i].body.replace("ans=ok", if rng.chance(1, 2) { "ans=inv" } else { "ans=unk" });
                    c.out.count("fault:store-reject");
                }
                _ => {}
            }
            i += 1;
        }
        for m in q {
            match rng.below(60) {
                0 => {
                    let b = if rng.chance(1, 2) { bd[k] } else { (bd[k] + rng.range(1, 255)) % 256 };
                    c.op(&format!("ev {} ndeath bd={}{}", name, b, will_ts(rng)));
                    c.out.count(if b == bd[k] { "fault:ndeath-match" } else { "fault:ndeath-mismatch" });
                }
                1 => {
                    c.op("offline");
                    if rng.chance(3, 4) {
                        c.op("online");
                    }
                    c.out.count("fault:host-offline");
                }
                2 => {
                    if let Some((on, om)) = (!old.is_empty()).then(|| rng.pick(&old).clone()) {
                        c.op(&format!("ev {} {}", on, om.body));
                        c.out.count("fault:late-old-session");
                    }
                }
                3 => {
                    c.op(&format!("ev n9 ndata seq={} ts={} id=0 ans=ok", rng.below(256), c.now));
                    c.out.count("fault:unknown-node");
                }
                4 => {
                    c.op(&format!("ev {} ddata dev=7 seq={} ts={} id=0 ans=ok", name, rng.below(256), c.now));
                    c.out.count("fault:unknown-device");
                }
                5 => {
                    c.op(&format!("ev {} {}", name, birth));
                    c.out.count("fault:nbirth-replayed");
                }
                6 => {
                    c.op(&format!("inv {}", name));
                    c.out.count("fault:invalid-payload");
                }
                7 | 8 => {
                    let ms = match to {
                        Some(t) => *rng.pick(&[t - 2, t + 1, 1, t / 2]),
                        None => 500,
                    };
                    c.op(&format!("adv {}", ms));
                    c.out.count("fault:time-advance");
                }
                9 if cancel_mid && !c.sess.cancelled => {
                    // the application is stopped in the middle of the history (gaps open, timers armed, host
                    // possibly offline): the rest of the history meets a host that is gone
                    c.op(&format!("cancel off={}", if rng.chance(1, 6) { 0 } else { 1 }));
                    c.out.count("cancel:mid-history");
                }
                _ => {}
            }
            c.op(&format!("ev {} {}", name, m.body));
            if rng.chance(1, 10) {
                old.push((name.clone(), m));
            }
        }
        if rng.chance(1, 2) {
            c.op(&format!("ev {} ndeath bd={}{}", name, bd[k], will_ts(rng)));
            bd[k] = (bd[k] + 1) % 256;
        }
        if let (Some(t), true) = (to, rng.chance(1, 3)) {
            c.op(&format!("adv {}", t + 1));
        }
    }
    if !c.sess.cancelled && rng.chance(1, 2) {
        let off = if rng.chance(1, 10) { 0 } else { 1 };
        c.op(&format!("cancel off={}", off));
        c.out.count(if off == 1 { "cancel:end-of-history:offline-delivered" } else { "cancel:end-of-history:offline-withheld" });
        if rng.chance(1, 2) {
            c.op("adv 101");
        }
    }
    c.out.nontrivial();
    c.out.count("faulty");
}

/// the first `SOUP_EXHAUSTIVE` symbols are enumerated exhaustively; all of them are used by the random soups
const SYMS: [&str; 19] = ["B", "B+", "Bold", "X", "Xm", "N0", "N1", "Ndup", "DB", "DD", "DX", "OFF", "ON", "ADV", "Nrej", "N0e", "DDe", "DBe", "CX"];
const SOUP_EXHAUSTIVE: usize = 16;

/// one node, one device, small alphabet; `pubseq` is the publisher's counter
fn soup_case(out: &mut Out, syms: &[usize], cfg: &str, stat: &str) {
    let mut c = Case::begin(out, cfg, 1_000_000);
    let mut bd = 7u64;
    let mut pubseq = 0u64;
    let mut id = 0u64;
    let mut last_birth_ts = 0u64;
    for &s in syms {
        id += 1;
        let now = c.now;
        let nx = (pubseq + 1) % 256;
        match SYMS[s] {
            "B" => {
                last_birth_ts = now;
                pubseq = 0;
                c.op(&format!("ev n1 nbirth ts={} bd={} id={} ans=ok", now, bd, id));
            }
            "B+" => {
                bd = (bd + 1) % 256;
                last_birth_ts = now;
                pubseq = 0;
                c.op(&format!("ev n1 nbirth ts={} bd={} id={} ans=ok", now, bd, id));
            }
            "Bold" => {
                c.op(&format!("ev n1 nbirth ts={} bd={} id={} ans=ok", last_birth_ts, bd, id));
            }
            "X" => {
                // the will of this session: stamped (if at all) before the session's NBIRTH
                let pts = ["", " pts=-", " pts=1", ""][(id % 4) as usize];
                c.op(&format!("ev n1 ndeath bd={}{}", bd, pts));
            }
            "Xm" => {
                c.op(&format!("ev n1 ndeath bd={}", (bd + 1) % 256));
            }
            "N0" => {
                pubseq = nx;
                c.op(&format!("ev n1 ndata seq={} ts={} id={} ans=ok", nx, now, id));
            }
            "N1" => {
                c.op(&format!("ev n1 ndata seq={} ts={} id={} ans=ok", (nx + 1) % 256, now, id));
            }
            "Ndup" => {
                c.op(&format!("ev n1 ndata seq={} ts={} id={} ans=ok", pubseq, now, id));
            }
            "DB" => {
                pubseq = nx;
                c.op(&format!("ev n1 dbirth dev=1 seq={} ts={} id={} ans=ok", nx, now, id));
            }
            "DD" => {
                pubseq = nx;
                c.op(&format!("ev n1 ddata dev=1 seq={} ts={} id={} ans=ok", nx, now, id));
            }
            "DX" => {
                pubseq = nx;
                c.op(&format!("ev n1 ddeath dev=1 seq={} ts={} id={}", nx, now, id));
            }
            "OFF" => {
                c.op("offline");
            }
            "ON" => {
                c.op("online");
            }
            "ADV" => {
                c.op("adv 101");
            }
            "Nrej" => {
                pubseq = nx;
                c.op(&format!("ev n1 ndata seq={} ts={} id={} ans=inv", nx, now, id));
            }
            // the next message in sequence, carrying no metrics
            "N0e" => {
                pubseq = nx;
                c.op(&format!("ev n1 ndata seq={} ts={} id={} ans=ok m=0", nx, now, id));
            }
            "DDe" => {
                pubseq = nx;
                c.op(&format!("ev n1 ddata dev=1 seq={} ts={} id={} ans=ok m=0", nx, now, id));
            }
            "DBe" => {
                pubseq = nx;
                c.op(&format!("ev n1 dbirth dev=1 seq={} ts={} id={} ans=ok m=0", nx, now, id));
            }
            "CX" => {
                c.op(&format!("cancel off={}", if id % 8 == 0 { 0 } else { 1 }));
            }
            _ => unreachable!(),
        }
    }
    if syms.len() >= 2 {
        c.out.nontrivial();
    }
    c.out.count(stat);
}

/// Scripted trigger scenarios (C07 first sentence): every listed trigger, with its reason
/// enabled and no cooldown, makes the host hold the node stale and publish exactly one NCMD.
fn trigger_scenarios(out: &mut Out) {
    trigger_scenarios_with(out, "ip=1 bd=1 un=1 ud=1 um=1 rf=1 rs=1 to=100 cd=0 rq=1 q=1024");
    // the same with a client whose request queue is full (try_ calls fail at once, blocking calls
    // wait and get through): the rebirth NCMD must still go out
    trigger_scenarios_with(out, "ip=1 bd=1 un=1 ud=1 um=1 rf=1 rs=1 to=100 cd=0 rq=1 q=1024 tf=1");
    // the same with a user Client that answers every NCMD publish with Err: the host still asks and holds the node stale
    trigger_scenarios_with(out, "ip=1 bd=1 un=1 ud=1 um=1 rf=1 rs=1 to=100 cd=0 rq=1 q=1024 pf=1");
    trigger_scenarios_no_reseq(out);
}

/// A USER MetricStore that REFUSES a well-formed, strictly newer NBIRTH (`ans=inv|unk`), in every configuration: reason
/// InvalidPayload on / off, cooldown 0 / running; node birthed (devices birthed, data admitted: expected seq != 1) or
/// held stale. What the properties say:
///  * the refusal requests no rebirth (reason off or cooldown running): C14 "leaves all state untouched" - the line has
///    no effect but the refused store call, a birthed node stays on its session and the following in-sequence messages
///    of that session are applied by the lines that deliver them (C05: none is withheld); a stale node stays stale, so
///    later data is not applied (C06) and asks for the rebirth (C07: data while the node is held stale)
///  * the refusal requests a rebirth (reason on, no cooldown): one NCMD, node held stale, later data not applied
fn refused_birth_scenarios(out: &mut Out, rng: &mut Rng) {
    let t0 = 1_000_000u64;
    for (ip, cd) in [(0u8, 0u64), (1, 0), (1, 500), (0, 500)] {
        for birthed in [true, false] {
            for ans in ["inv", "unk"] {
                let cfg = format!("ip={} bd=1 un=1 ud=1 um=1 rf=1 rs=1 to=100 cd={} rq=1 q=1024", ip, cd);
                let feat = format!("store-refuses-newer-nbirth:{}:ip={}:cd={}", if birthed { "node-birthed" } else { "node-stale" }, ip, cd);
                let mut c = Case::begin(out, &cfg, t0);
                c.out.set_desc(format!("refused-birth {}", feat));
                let mut id = 0u64;
                let mut nid = || {
                    id += 1;
                    id
                };
                if cd > 0 {
                    // an unknown node's data starts the cooldown (reason UnknownNode is on)
                    c.op(&format!("ev n1 ndata seq=7 ts={} id=0 ans=ok", c.now));
                }
                let ndev = rng.range(1, 2);
                let k = rng.range(1, 5); // data admitted before the refused birth: expected seq = ndev + k + 1
                let bd = rng.below(256);
                c.op(&format!("ev n1 nbirth ts={} bd={} id={} ans=ok", c.now, bd, nid()));
                let mut seq = 1u64;
                for d in 1..=ndev {
                    c.op(&format!("ev n1 dbirth dev={} seq={} ts={} id={} ans=ok", d, seq, c.now, nid()));
                    seq += 1;
                }
                for _ in 0..k {
                    c.op(&format!("ev n1 ndata seq={} ts={} id={} ans=ok", seq, c.now, nid()));
                    seq += 1;
                }
                if !birthed {
                    c.op(&format!("ev n1 ndeath bd={}", bd));
                }
                let before = c.sess.ncmds;
                let rid = nid();
                let line = format!("ev n1 nbirth ts={} bd={} id={} ans={}", c.now, (bd + 1) % 256, rid, ans);
                let a = c.op(&line);
                let asked = c.sess.ncmds - before;
                let expect_rebirth = ip == 1 && cd == 0 && birthed; // a stale node is already stale: the NCMD goes out, no store call
                let want_ncmd = (ip == 1 && cd == 0) as u64;
                if asked != want_ncmd {
                    c.out.fail(
                        if want_ncmd == 1 { "C07:trigger-requests-rebirth" } else { "C07:no-rebirth-for-disabled-reason" },
                        &feat,
                        format!("`{}` => {}: {} NCMD(s), expected {}", line, a, asked, want_ncmd),
                    );
                }
                if want_ncmd == 0 {
                    // C14: apart from the rebirth request (none here) the refused message leaves all state untouched
                    let only = format!("n1:nodeBirth({},0)", rid);
                    if a != only {
                        c.out.fail("C14:refused-message-leaves-state-untouched", &format!("{}:effects-of-the-refusal", feat), format!("`{}` => {}: expected only {}", line, a, only));
                    }
                }
                // the traffic that follows: the applied session goes on in sequence
                let follow_before = c.sess.ncmds;
                let mut applied_any = false;
                for j in 0..4u64 {
                    let (l, want) = if j % 2 == 0 {
                        let i = nid();
                        (format!("ev n1 ndata seq={} ts={} id={} ans=ok", seq % 256, c.now, i), format!("n1:nodeData({})", i))
                    } else {
                        let i = nid();
                        (format!("ev n1 ddata dev=1 seq={} ts={} id={} ans=ok", seq % 256, c.now, i), format!("n1:devData(1,{})", i))
                    };
                    seq += 1;
                    let a2 = c.op(&l);
                    let got = a2.split(';').any(|e| e == want);
                    applied_any |= got;
                    if birthed && want_ncmd == 0 && !got {
                        c.out.fail(
                            "C14:refused-message-leaves-state-untouched",
                            &format!("{}:next-in-sequence-{}", feat, if j % 2 == 0 { "ndata" } else { "ddata" }),
                            format!("after the refused `{}` the in-sequence `{}` => {}: expected {} (node still birthed on its session, expected seq not rewound)", line, l, a2, want),
                        );
                        c.out.fail("C05:prompt-apply", &format!("{}:next-in-sequence", feat), format!("after the refused `{}` the in-sequence `{}` => {}: expected {}", line, l, a2, want));
                    }
                }
                if !(birthed && want_ncmd == 0) {
                    // the node is held stale (it was, or the refusal made it so): nothing is applied (C06 clauses of the
                    // per-line oracle) and the first data message asks for the rebirth when the cooldown allows
                    let _ = expect_rebirth;
                    let asked2 = c.sess.ncmds - follow_before;
                    if cd == 0 && asked2 == 0 {
                        c.out.fail("C07:trigger-requests-rebirth", &format!("{}:data-while-held-stale", feat), format!("after the refused `{}` four data messages for the stale node: {} NCMD(s), applied any: {}", line, asked2, applied_any));
                    }
                }
                c.out.nontrivial();
                c.out.count("refused-birth-scenario");
            }
        }
    }
}

/// A USER Client that answers the rebirth NCMD publish with Err (`pf=1`), for every kind of trigger on a BIRTHED node,
/// followed by more traffic of the same session: the node's stores were told `stale` (C06:rebirth-request-marks-stale),
/// nothing is applied until a new NBIRTH (C06:data-needs-node-birth, C05:applied-between-birth-and-staleness)
fn rejecting_client_scenarios(out: &mut Out, rng: &mut Rng) {
    let t0 = 1_000_000u64;
    for trig in ["duplicate-seq", "gap-timeout", "store-rejects-data", "unknown-device", "ndeath-bdseq-mismatch", "invalid-payload"] {
        for cd in [0u64, 500] {
            let cfg = format!("ip=1 bd=1 un=1 ud=1 um=1 rf=1 rs=1 to=100 cd={} rq=1 q={} pf=1", cd, rng.pick(&[1u64, 2, 1024]));
            let mut c = Case::begin(out, &cfg, t0);
            c.out.set_desc(format!("rejecting-client {} cd={}", trig, cd));
            c.op(&format!("ev n1 nbirth ts={} bd=3 id=1 ans=ok", t0));
            c.op(&format!("ev n1 dbirth dev=1 seq=1 ts={} id=2 ans=ok", c.now));
            c.op(&format!("ev n1 ndata seq=2 ts={} id=3 ans=ok", c.now));
            // expected seq is 3 now
            let before = c.sess.ncmds;
            let mut next = 3u64;
            match trig {
                "duplicate-seq" => {
                    c.op(&format!("ev n1 ndata seq=5 ts={} id=6 ans=ok", c.now));
                    c.op(&format!("ev n1 ndata seq=5 ts={} id=6 ans=ok", c.now));
                }
                "gap-timeout" => {
                    c.op(&format!("ev n1 ndata seq=4 ts={} id=5 ans=ok", c.now));
                    c.op("adv 101");
                }
                "store-rejects-data" => {
                    c.op(&format!("ev n1 ndata seq=3 ts={} id=4 ans=inv", c.now));
                    next = 4;
                }
                "unknown-device" => {
                    c.op(&format!("ev n1 ddata dev=9 seq=3 ts={} id=4 ans=ok", c.now));
                    next = 4;
                }
                "ndeath-bdseq-mismatch" => {
                    c.op("ev n1 ndeath bd=9");
                }
                _ => {
                    c.op("inv n1");
                }
            }
            let asked = c.sess.ncmds - before;
            let stale = c.sess.node_life.get("n1") == Some(&false);
            if asked != 1 || !stale {
                c.out.fail("C07:trigger-requests-rebirth", &format!("client-refuses-rebirth-ncmd:{}", trig), format!("{} NCMD publish(es) attempted, node's stores told stale: {}", asked, stale));
            }
            if !stale {
                c.out.fail("C06:rebirth-request-marks-stale", &format!("client-refuses-rebirth-ncmd:{}", trig), format!("trigger {}: the node's store was not told `stale`", trig));
            }
            // the old session goes on (its publisher never saw the command): nothing of it may be applied any more
            for j in 0..5u64 {
                let id = 10 + j;
                if j % 2 == 0 {
                    c.op(&format!("ev n1 ndata seq={} ts={} id={} ans=ok", next + j, c.now, id));
                } else {
                    c.op(&format!("ev n1 ddata dev=1 seq={} ts={} id={} ans=ok", next + j, c.now, id));
                }
            }
            c.out.nontrivial();
            c.out.count("rejecting-client-scenario");
        }
    }
}

/// the timestamp an NDEATH payload carries: the arrival time (default), none (srad-eon's will), or the
/// time the will was registered, i.e. before the session's NBIRTH (other Sparkplug implementations)
fn will_ts(rng: &mut Rng) -> &'static str {
    *rng.pick(&["", "", " pts=-", " pts=1", " pts=999999", " pts=18446744073709551615"])
}

/// the triggers that do not depend on sequence numbers, with RESEQUENCING SWITCHED OFF (builder option
/// `resequence_messages(false)`): the host must still hold the node stale and ask for a rebirth
fn trigger_scenarios_no_reseq(out: &mut Out) {
    let cfg = "ip=1 bd=1 un=1 ud=1 um=1 rf=1 rs=1 to=100 cd=0 rq=0 q=1024";
    let t0 = 1_000_000u64;
    let birth = format!("ev n1 nbirth ts={} bd=3 id=1 ans=ok", t0);
    let db = format!("ev n1 dbirth dev=1 seq=1 ts={} id=2 ans=ok", t0 + 1);
    let death = "ev n1 ndeath bd=3".to_string();
    let scen: Vec<(&str, Vec<String>, String)> = vec![
        ("noreseq:unknown-node-data", vec![], format!("ev n1 ndata seq=1 ts={} id=5 ans=ok", t0)),
        ("noreseq:unknown-device-data", vec![birth.clone()], format!("ev n1 ddata dev=4 seq=1 ts={} id=5 ans=ok", t0 + 5)),
        ("noreseq:node-data-while-stale", vec![birth.clone(), death.clone()], format!("ev n1 ndata seq=1 ts={} id=5 ans=ok", t0 + 50)),
        ("noreseq:device-birth-while-node-stale", vec![birth.clone(), death.clone()], format!("ev n1 dbirth dev=1 seq=1 ts={} id=5 ans=ok", t0 + 50)),
        ("noreseq:device-data-while-node-stale", vec![birth.clone(), db.clone(), death.clone()], format!("ev n1 ddata dev=1 seq=2 ts={} id=5 ans=ok", t0 + 50)),
        ("noreseq:device-death-while-node-stale", vec![birth.clone(), db.clone(), death.clone()], format!("ev n1 ddeath dev=1 seq=2 ts={} id=5", t0 + 50)),
        ("noreseq:node-data-after-host-offline", vec![birth.clone(), "offline".into(), "online".into()], format!("ev n1 ndata seq=1 ts={} id=5 ans=ok", t0 + 50)),
        ("noreseq:device-data-while-device-stale", vec![birth.clone(), db.clone(), format!("ev n1 ddeath dev=1 seq=2 ts={} id=3", t0 + 2)], format!("ev n1 ddata dev=1 seq=3 ts={} id=5 ans=ok", t0 + 50)),
        ("noreseq:store-rejects-node-data", vec![birth.clone()], format!("ev n1 ndata seq=1 ts={} id=5 ans=inv", t0 + 5)),
        ("noreseq:ndeath-bdseq-mismatch", vec![birth.clone()], "ev n1 ndeath bd=9".into()),
    ];
    for (name, setup, trigger) in scen {
        let mut c = Case::begin(out, cfg, t0);
        c.out.set_desc(format!("trigger {}", name));
        for s in &setup {
            c.op(s);
        }
        let before = c.sess.ncmds;
        let a = c.op(&trigger);
        let got = c.sess.ncmds - before;
        let stale_after = c.sess.node_life.get("n1") != Some(&true);
        if got != 1 || !stale_after {
            c.out.fail(
                "C07:trigger-requests-rebirth",
                name,
                format!("trigger `{}` produced {} NCMD(s), node held stale afterwards: {} (effects {})", trigger, got, stale_after, a),
            );
        }
        c.out.nontrivial();
        c.out.count("trigger-scenario");
    }
}

fn trigger_scenarios_with(out: &mut Out, cfg: &str) {
    let t0 = 1_000_000u64;
    let birth = format!("ev n1 nbirth ts={} bd=3 id=1 ans=ok", t0);
    let db = format!("ev n1 dbirth dev=1 seq=1 ts={} id=2 ans=ok", t0 + 1);
    let scen: Vec<(&str, Vec<String>, String)> = vec![
        ("unknown-node-data", vec![], format!("ev n1 ndata seq=1 ts={} id=5 ans=ok", t0)),
        ("unknown-node-device-data", vec![], format!("ev n1 ddata dev=1 seq=1 ts={} id=5 ans=ok", t0)),
        ("unknown-device-data", vec![birth.clone()], format!("ev n1 ddata dev=4 seq=1 ts={} id=5 ans=ok", t0 + 5)),
        ("data-while-stale", vec![birth.clone(), "ev n1 ndeath bd=3".into()], format!("ev n1 ndata seq=1 ts={} id=5 ans=ok", t0 + 50)),
        ("data-after-will-stamped-before-birth", vec![birth.clone(), "ev n1 ndeath bd=3 pts=1".into()], format!("ev n1 ndata seq=1 ts={} id=5 ans=ok", t0 + 50)),
        ("data-after-will-without-timestamp", vec![birth.clone(), "ev n1 ndeath bd=3 pts=-".into()], format!("ev n1 ndata seq=1 ts={} id=5 ans=ok", t0 + 50)),
        // a replayed (not newer) NBIRTH while a gap is open changes nothing: the gap still times out
        ("gap-timeout-after-replayed-birth", vec![birth.clone(), format!("ev n1 ndata seq=2 ts={} id=4 ans=ok", t0 + 3), birth.clone()], "adv 101".into()),
        ("gap-timeout-after-older-birth", vec![birth.clone(), format!("ev n1 ndata seq=2 ts={} id=4 ans=ok", t0 + 3), format!("ev n1 nbirth ts={} bd=2 id=9 ans=ok", t0 - 5)], "adv 101".into()),
        ("device-data-while-device-stale", vec![birth.clone(), db.clone(), format!("ev n1 ddeath dev=1 seq=2 ts={} id=3", t0 + 2)], format!("ev n1 ddata dev=1 seq=3 ts={} id=5 ans=ok", t0 + 50)),
        ("duplicate-seq", vec![birth.clone(), format!("ev n1 ndata seq=3 ts={} id=4 ans=ok", t0 + 3)], format!("ev n1 ndata seq=3 ts={} id=5 ans=ok", t0 + 4)),
        ("gap-timeout", vec![birth.clone(), format!("ev n1 ndata seq=2 ts={} id=4 ans=ok", t0 + 3)], "adv 101".into()),
        ("store-rejects-node-data", vec![birth.clone()], format!("ev n1 ndata seq=1 ts={} id=5 ans=inv", t0 + 5)),
        ("store-rejects-device-data", vec![birth.clone(), db.clone()], format!("ev n1 ddata dev=1 seq=2 ts={} id=5 ans=unk", t0 + 5)),
        ("store-rejects-device-birth", vec![birth.clone()], format!("ev n1 dbirth dev=1 seq=1 ts={} id=5 ans=inv", t0 + 5)),
        ("store-rejects-node-birth", vec![], format!("ev n1 nbirth ts={} bd=3 id=1 ans=inv", t0)),
        ("ndeath-bdseq-mismatch", vec![birth.clone()], "ev n1 ndeath bd=9".into()),
        ("invalid-payload", vec![birth.clone()], "inv n1".into()),
    ];
    for (name, setup, trigger) in scen {
        let mut c = Case::begin(out, cfg, t0);
        c.out.set_desc(format!("trigger {}", name));
        for s in &setup {
            c.op(s);
        }
        let before = c.sess.ncmds;
        let a = c.op(&trigger);
        let got = c.sess.ncmds - before;
        let stale_after = c.sess.node_life.get("n1") != Some(&true);
        if got != 1 || !stale_after {
            c.out.fail(
                "C07:trigger-requests-rebirth",
                name,
                format!("trigger `{}` produced {} NCMD(s), node held stale afterwards: {} (effects {})", trigger, got, stale_after, a),
            );
        }
        // negative control: gap inside the window produces nothing
        c.out.nontrivial();
        c.out.count("trigger-scenario");
    }
    // a fault whose reason is switched off requests nothing and must not consume the cooldown: a later
    // fault with an enabled reason still gets its rebirth request
    {
        let cfg2 = "ip=0 bd=1 un=1 ud=0 um=1 rf=1 rs=1 to=100 cd=500 rq=1 q=1024";
        let mut c = Case::begin(out, cfg2, t0);
        c.out.set_desc("trigger disabled-reason-keeps-cooldown-free".into());
        c.op(&birth);
        let before = c.sess.ncmds;
        c.op(&format!("ev n1 ddata dev=4 seq=1 ts={} id=5 ans=ok", t0 + 5)); // unknown device, reason off
        c.op("inv n1"); // invalid payload, reason off
        if c.sess.ncmds != before {
            c.out.fail("C07:no-rebirth-for-disabled-reason", "unknown-device/invalid-payload", format!("{} NCMD(s) for disabled reasons", c.sess.ncmds - before));
        }
        c.op(&format!("ev n1 ndata seq=3 ts={} id=6 ans=ok", t0 + 6));
        let a = c.op(&format!("ev n1 ndata seq=3 ts={} id=7 ans=ok", t0 + 7)); // duplicate: reason on
        let got = c.sess.ncmds - before;
        if got != 1 {
            c.out.fail("C07:trigger-requests-rebirth", "enabled-reason-after-disabled-reason-within-cooldown", format!("duplicate sequence number after faults with disabled reasons: {} NCMD(s) (effects {})", got, a));
        }
        c.out.nontrivial();
        c.out.count("trigger-scenario");
    }
    // a gap of two messages whose head is filled late: the rest of the same gap must still time
    // out one timeout after the gap opened (not one timeout after the partial fill)
    {
        let mut c = Case::begin(out, cfg, t0);
        c.out.set_desc("trigger partial-fill-still-times-out".into());
        c.op(&birth);
        c.op(&format!("ev n1 ndata seq=3 ts={} id=4 ans=ok", t0 + 3)); // gap 1,2 opens here
        c.op("adv 60");
        c.op(&format!("ev n1 ndata seq=1 ts={} id=2 ans=ok", t0 + 1)); // fills the head only
        let before = c.sess.ncmds;
        c.op("adv 45"); // 100 ms after the gap opened have now passed
        let got = c.sess.ncmds - before;
        if got != 1 {
            c.out.fail(
                "C07:trigger-requests-rebirth",
                "gap-timeout-after-partial-fill",
                format!("seq 2 missing for more than the reorder timeout (100 ms) after the gap opened, {} NCMD(s) sent", got),
            );
        }
        c.out.nontrivial();
        c.out.count("trigger-scenario");
    }
    // a gap of two messages whose head is filled late: the rest of the same gap must still time
    // out one timeout after the gap opened (not one timeout after the partial fill)
    {
        let mut c = Case::begin(out, cfg, t0);
        c.out.set_desc("trigger partial-fill-still-times-out".into());
        c.op(&birth);
        c.op(&format!("ev n1 ndata seq=3 ts={} id=4 ans=ok", t0 + 3)); // gap 1,2 opens here
        c.op("adv 60");
        c.op(&format!("ev n1 ndata seq=1 ts={} id=2 ans=ok", t0 + 1)); // fills the head only
        let before = c.sess.ncmds;
        c.op("adv 45"); // 100 ms after the gap opened have now passed
        let got = c.sess.ncmds - before;
        if got != 1 {
            c.out.fail(
                "C07:trigger-requests-rebirth",
                "gap-timeout-after-partial-fill",
                format!("seq 2 missing for more than the reorder timeout (100 ms) after the gap opened, {} NCMD(s) sent", got),
            );
        }
        c.out.nontrivial();
        c.out.count("trigger-scenario");
    }
    // no-spurious: a gap that closes just before the timeout
    let mut c = Case::begin(out, cfg, t0);
    c.out.set_desc("trigger gap-closes-before-timeout".into());
    c.sess.clean = true;
    c.op(&birth);
    c.op(&format!("ev n1 ndata seq=2 ts={} id=4 ans=ok", t0 + 3));
    c.op("adv 98");
    c.op(&format!("ev n1 ndata seq=1 ts={} id=3 ans=ok", t0 + 2));
    c.op("adv 200");
    c.out.nontrivial();
    c.out.count("trigger-scenario");
}

/// K1 probes: the node's clock ahead of / behind the host's. With the node ahead, an NDEATH or
/// a host-issued rebirth must still mark the stores stale (C06); the current code compares the
/// host's arrival time with the node's birth timestamp and ignores the death.
fn skew_scenarios(out: &mut Out, rng: &mut Rng) {
    let cfg = cfg_default("100", 0, 1);
    for skew in [10_000u64, 1, 3_600_000] {
        for variant in 0..3 {
            let t0 = 1_000_000 + rng.below(100);
            let mut c = Case::begin(out, &cfg, t0);
            c.out.set_desc("ordered".into());
            c.sess.ordered_ids = true;
            let bts = t0 + skew;
            c.op(&format!("ev n1 nbirth ts={} bd=3 id=1 ans=ok", bts));
            c.op(&format!("ev n1 dbirth dev=1 seq=1 ts={} id=2 ans=ok", bts + 1));
            match variant {
                0 => {
                    c.op("ev n1 ndeath bd=3");
                }
                1 => {
                    c.op("offline");
                    c.op("online");
                }
                _ => {
                    // a duplicate forces a rebirth request
                    c.op(&format!("ev n1 ndata seq=5 ts={} id=6 ans=ok", bts + 5));
                    c.op(&format!("ev n1 ndata seq=5 ts={} id=6 ans=ok", bts + 5));
                }
            }
            c.op(&format!("ev n1 ndata seq=2 ts={} id=3 ans=ok", bts + 2));
            c.out.nontrivial();
            c.out.count("skew:node-clock-ahead");
        }
    }
    // node clock behind the host's: data after a host-issued rebirth / death is dropped as old
    for lag in [10_000u64, 500] {
        let t0 = 2_000_000;
        let mut c = Case::begin(out, &cfg, t0);
        let bts = t0 - lag;
        c.op(&format!("ev n1 nbirth ts={} bd=3 id=1 ans=ok", bts));
        c.op(&format!("ev n1 ndata seq=1 ts={} id=2 ans=ok", bts + 1));
        c.op("ev n1 ndeath bd=3");
        c.op(&format!("ev n1 nbirth ts={} bd=4 id=3 ans=ok", bts + 5));
        c.op(&format!("ev n1 ndata seq=1 ts={} id=4 ans=ok", bts + 6));
        c.out.nontrivial();
        c.out.count("skew:node-clock-behind");
    }
}

/// A late duplicate of an already applied message followed by more than 250 further messages
/// (no reorder timeout configured, or traffic faster than it): the duplicate is filed as a
/// far-ahead message and must never be applied a second time (C05 "at most once each").
fn late_duplicate_scenario(out: &mut Out, to: &str) {
    let cfg = cfg_default(to, 0, 1);
    let t0 = 1_000_000;
    let mut c = Case::begin(out, &cfg, t0);
    c.out.set_desc("ordered".into());
    c.sess.ordered_ids = true;
    c.op(&format!("ev n1 nbirth ts={} bd=3 id=1 ans=ok", t0));
    c.op(&format!("ev n1 ndata seq=1 ts={} id=2 ans=ok", t0 + 1));
    c.op(&format!("ev n1 ndata seq=2 ts={} id=3 ans=ok", t0 + 2));
    // the duplicate of seq 1
    c.op(&format!("ev n1 ndata seq=1 ts={} id=2 ans=ok", t0 + 1));
    for k in 3..=300u64 {
        c.op(&format!("ev n1 ndata seq={} ts={} id={} ans=ok", k % 256, t0 + k, k + 1));
    }
    c.out.nontrivial();
    c.out.count("late-duplicate");
}

/// a long fault-free session delivered in order: every verb lands on every position of the 8-bit
/// sequence space, in particular a DBIRTH / DDEATH / DDATA / NDATA carrying seq 0 after the wrap
fn wrap_verbs_scenario(out: &mut Out) {
    for shift in 0..4u64 {
        let cfg = cfg_default("-", 0, 1);
        let t0 = 1_000_000;
        let mut c = Case::begin(out, &cfg, t0);
        c.out.set_desc("ordered inorder wrap-verbs".into());
        c.sess.ordered_ids = true;
        c.sess.inorder = true;
        c.op(&format!("ev n1 nbirth ts={} bd=3 id=1 ans=ok", t0));
        c.op(&format!("ev n1 dbirth dev=1 seq=1 ts={} id=2 ans=ok", t0 + 1));
        // seq k carries verb (k + shift) mod 4: ndata, ddata dev 1, dbirth dev 2 (re-announced), ddata dev 2
        let mut dev2 = false;
        for k in 2..=520u64 {
            let (seq, ts, id) = (k % 256, t0 + k, k + 1);
            match (k + shift) % 4 {
                0 => c.op(&format!("ev n1 ndata seq={} ts={} id={} ans=ok", seq, ts, id)),
                1 => c.op(&format!("ev n1 ddata dev=1 seq={} ts={} id={} ans=ok", seq, ts, id)),
                2 => {
                    dev2 = true;
                    c.op(&format!("ev n1 dbirth dev=2 seq={} ts={} id={} ans=ok", seq, ts, id))
                }
                _ if dev2 => c.op(&format!("ev n1 ddata dev=2 seq={} ts={} id={} ans=ok", seq, ts, id)),
                _ => c.op(&format!("ev n1 ndata seq={} ts={} id={} ans=ok", seq, ts, id)),
            };
        }
        c.out.nontrivial();
        c.out.count("wrap-verbs");
    }
}

/// No-spurious-rebirth / prompt-apply over a LONG reordering inside one window of 256: after `prefix` messages delivered
/// in order, message prefix+k+1 (k in 128..=254) overtakes the k messages before it, which then arrive in order -
/// every message of the node arrives, fewer than 256 numbers are ever outstanding, the gap closes before the reorder
/// timeout (3 s / none; the whole history takes < 0.6 s of host time). Fault-free (`clean`): no NCMD at all (C07), the
/// k+1 messages are applied in publisher order (C05), all of them by the delivery that closes the gap.
fn long_overtake_scenarios(out: &mut Out) {
    for (j, (prefix, k)) in [(0u64, 128u64), (0, 129), (0, 254), (200, 128), (200, 191), (120, 254), (300, 200)].into_iter().enumerate() {
        for to in ["3000", "-"] {
            let cfg = cfg_default(to, if j % 2 == 0 { 0 } else { 5000 }, 1);
            let t0 = 1_000_000;
            let mut c = Case::begin(out, &cfg, t0);
            c.out.set_desc(format!("clean long-overtake prefix={} k={}", prefix, k));
            c.sess.ordered_ids = true;
            c.sess.clean = true;
            c.op(&format!("ev n1 nbirth ts={} bd=3 id=1 ans=ok", t0));
            c.op(&format!("ev n1 dbirth dev=1 seq=1 ts={} id=2 ans=ok", t0 + 1));
            let body = |i: u64| -> String {
                let (seq, ts, id) = (i % 256, t0 + i, i + 1);
                match (i + j as u64) % 3 {
                    0 => format!("ev n1 ddata dev=1 seq={} ts={} id={} ans=ok", seq, ts, id),
                    _ => format!("ev n1 ndata seq={} ts={} id={} ans=ok", seq, ts, id),
                }
            };
            for i in 2..=(prefix + 1) {
                c.op(&body(i));
            }
            let first = prefix + 2;
            let early = first + k;
            let mut applied = 0usize;
            let mut count = |a: &str| {
                if a == "-" {
                    return 0;
                }
                a.split(';')
                    .filter(|e| {
                        let e = e.split_once(':').map(|x| x.1).unwrap_or("");
                        e.starts_with("nodeData(") || e.starts_with("devData(")
                    })
                    .count()
            };
            let a = c.op(&body(early));
            applied += count(&a);
            for i in first..early {
                let a = c.op(&body(i));
                applied += count(&a);
                let want = if i + 1 == early { (k + 1) as usize } else { (i - first + 1) as usize };
                if applied != want {
                    c.out.fail(
                        "C05:prompt-apply",
                        "long-overtake",
                        format!("message #{} overtook the {} messages #{}..#{}; after the delivery of #{} {} of them are applied, {} have all their predecessors", early, k, first, early - 1, i, applied, want),
                    );
                    applied = want;
                }
            }
            c.op("adv 3100");
            c.out.nontrivial();
            c.out.count("long-overtake");
        }
    }
}

// ------------------------------------------------------------------------------------------
// C20, host sentence: cancelling the generic Application
// ------------------------------------------------------------------------------------------

fn fin_name(f: FinalOffline) -> &'static str {
    match f {
        FinalOffline::Withheld => "withheld",
        FinalOffline::AfterStop => "after-stop",
        FinalOffline::WithCancel => "with-cancel",
    }
}
fn fin_of(s: &str) -> FinalOffline {
    match s {
        "withheld" => FinalOffline::Withheld,
        "after-stop" => FinalOffline::AfterStop,
        "with-cancel" => FinalOffline::WithCancel,
        x => panic!("bad final-offline mode {}", x),
    }
}

/// one node of a back-pressure case: how its actor got parked in the client (if at all) and how many messages wait
/// in its bounded queue behind the parked actor
#[derive(Clone, Debug)]
struct BpNode {
    /// "unknown": data from a node the host holds no birth for (rebirth NCMD parked); "oos": the NDEATH of a birthed
    /// node carries another bdSeq than its birth (rebirth NCMD parked); "idle": birthed, nothing parked, queue empty
    how: &'static str,
    queued: u64,
}

/// Cancel while node actors sit in a BLOCKING client call (the rebirth NCMD, parked by the client = back-pressure) and
/// messages wait behind them in their bounded queues. `nodes[i].queued` may be the queue size exactly (full), less, or
/// one more (then the application task itself is held in `send().await` when the cancel comes). No request lines (the
/// quiescent model has no parked actor); the oracles are the C20 clauses of `Sess::cancel`, `judge_run_returns`, and:
/// * `with-cancel` and every queue with room: the Offline fits whichever way the `select!` falls => run() returns
/// * after the client has released every parked call run() returns in any case ("once outstanding client calls complete")
fn cancel_backpressure_case(out: &mut Out, q: u64, nodes: &[BpNode], fin: FinalOffline, release: bool, desc: String) {
    let t0 = 1_000_000u64;
    let cfg = format!("ip=1 bd=1 un=1 ud=1 um=1 rf=1 rs=1 to=- cd=0 rq=1 q={}", q);
    let mut c = Case::begin(out, &cfg, t0);
    c.out.set_desc(desc.clone());
    let hub = c.sess.hub();
    let mut now = t0;
    let mut id = 0u64;
    let mut tick = |sess: &mut Sess, body: String| {
        let e = sess.feed(&body, now);
        now += 1;
        e
    };
    // births first (no client call involved), then the client starts to park every blocking call
    for (i, n) in nodes.iter().enumerate() {
        if n.how != "unknown" {
            id += 1;
            tick(&mut c.sess, format!("ev n{} nbirth ts={} bd=1 id={} ans=ok", i + 1, t0 + i as u64, id));
            id += 1;
            tick(&mut c.sess, format!("ev n{} ndata seq=1 ts={} id={} ans=ok", i + 1, t0 + 10, id));
        }
    }
    hub.default_blocking(Some(Decision::Park));
    let mut want_parked = 0;
    for (i, n) in nodes.iter().enumerate() {
        match n.how {
            "unknown" => {
                id += 1;
                tick(&mut c.sess, format!("ev n{} ndata seq=1 ts={} id={} ans=ok", i + 1, t0 + 10, id));
                want_parked += 1;
            }
            "oos" => {
                tick(&mut c.sess, format!("ev n{} ndeath bd=9", i + 1));
                want_parked += 1;
            }
            _ => {}
        }
    }
    let parked_ok = hub.parked_ids().len() == want_parked;
    // the messages that wait behind the parked actors: handed to the event loop in one go, round robin
    let mut left: Vec<u64> = nodes.iter().map(|n| if n.how == "idle" { 0 } else { n.queued }).collect();
    let mut k = 0u64;
    while left.iter().any(|x| *x > 0) {
        for (i, l) in left.iter_mut().enumerate() {
            if *l > 0 {
                *l -= 1;
                k += 1;
                id += 1;
                let op = format!("host ev n{} ndata seq={} ts={} id={} ans=ok{} now={}", i + 1, (1 + k) % 256, t0 + 20, id, if k % 5 == 0 { " m=0" } else { "" }, now);
                let w: Vec<&str> = op.split(' ').collect();
                let ev = c.sess.build_event(&w, now).unwrap();
                c.sess.push(ev);
            }
        }
    }
    c.sess.rt.as_ref().unwrap().block_on(ev_tick());
    now += 1;
    c.sess.effects();
    let room_everywhere = nodes.iter().all(|n| n.how == "idle" || n.queued < q);
    let op = format!("{} (cancel at {})", desc, now);
    let rep = c.sess.cancel(&op, now, fin, HOST_STOP_BOUND_MS + 5, false, c.out);
    c.sess.judge_run_returns(&op, &rep, fin, c.out);
    c.out.count(&format!("cancel-bp:app-task-{}", if rep.dispatcher_waiting { "idle" } else { "held-in-send" }));
    c.out.count(&format!("cancel-bp:final-offline-{}", fin_name(fin)));
    c.out.count(&format!("cancel-bp:q={}", q));
    if !parked_ok {
        c.out.count("cancel-bp:actors-not-parked-as-planned");
    }
    if fin == FinalOffline::WithCancel && rep.dispatcher_waiting && room_everywhere && !matches!(rep.returned_after, Some(w) if w <= HOST_STOP_BOUND_MS + 1) {
        c.out.fail(
            "C20:host-run-returns",
            "offline-with-cancel:queues-have-room:client-calls-parked",
            format!("{}: Application::run() had not returned {} ms after AppClient::cancel() (every node queue had room for the Offline; client calls still parked {:?})", op, HOST_STOP_BOUND_MS + 1, hub.parked_ids()),
        );
    }
    c.out.count(&format!(
        "cancel-bp:{}:app-task-{}:offline-{}:{}",
        if rep.returned_after.is_some() { "returned" } else { "WAITS-FOR-THE-CLIENT" },
        if rep.dispatcher_waiting { "idle" } else { "held-in-send" },
        fin_name(fin),
        if room_everywhere { "queues-have-room" } else { "a-queue-full" }
    ));
    if release {
        // the client gets room again: every parked call completes, later ones are accepted at once
        hub.default_blocking(None);
        for pid in hub.parked_ids() {
            hub.resolve(pid, true);
        }
        let ms = c.sess.wait_for_return(HOST_STOP_BOUND_MS + 5);
        if !c.sess.run_returned() {
            c.out.fail(
                "C20:host-run-returns",
                "after-client-released-every-call",
                format!("{}: every parked client call was completed, Application::run() had still not returned {} ms later (parked now: {:?})", op, ms, hub.parked_ids()),
            );
        }
        c.out.count("cancel-bp:released");
    }
    c.out.nontrivial();
    c.out.count("cancel-backpressure");
}

fn bp_desc(q: u64, nodes: &[BpNode], fin: FinalOffline, release: bool) -> String {
    let ns: Vec<String> = nodes.iter().map(|n| format!("{}:{}", n.how, n.queued)).collect();
    format!("cancel-backpressure q={} nodes={} off={} rel={}", q, ns.join(","), fin_name(fin), release as u8)
}

fn bp_from_desc(desc: &str, out: &mut Out) {
    let w: Vec<&str> = desc.split(' ').collect();
    let q = num(&w, "q");
    let nodes: Vec<BpNode> = kv(&w, "nodes")
        .unwrap()
        .split(',')
        .map(|t| {
            let (h, n) = t.split_once(':').unwrap();
            let how = match h {
                "unknown" => "unknown",
                "oos" => "oos",
                _ => "idle",
            };
            BpNode { how, queued: n.parse().unwrap() }
        })
        .collect();
    cancel_backpressure_case(out, q, &nodes, fin_of(kv(&w, "off").unwrap()), num(&w, "rel") == 1, desc.to_string());
}

/// C20, host sentence. (1) request lines compared with the model: cancel of a quiet host, of an offline host, with a
/// gap open and the reorder timer armed (it fires while the host waits for the Offline), events after the stop;
/// (2) the back-pressure matrix: queue sizes 1 / 2 / 1024 x queue exactly full / one short / empty / one too many x final
/// Offline withheld / delivered after the stop was taken / handed over together with the cancel x parked calls released
/// later / never; (3) random mixes of 1-3 nodes.
fn cancel_scenarios(out: &mut Out, rng: &mut Rng) {
    let t0 = 1_000_000u64;
    // the last three run against a client whose request queue is full (`tf=1`: every try_ call is refused at once,
    // blocking calls get through): cancel must not fall back to a blocking call for its certificate
    for (name, off, full) in [("quiet", 1u64, false), ("quiet", 0, false), ("host-offline", 0, false), ("host-offline", 1, false), ("gap-open", 0, false), ("gap-open", 1, false), ("unborn", 1, false),
                              ("quiet", 1, true), ("quiet", 0, true), ("gap-open", 0, true)] {
        let cfg = if full { format!("{} tf=1", cfg_default("100", 0, 1)) } else { cfg_default("100", 0, 1) };
        let mut c = Case::begin(out, &cfg, t0);
        c.out.set_desc(format!("cancel basic {}{}", name, if full { " client-queue-full" } else { "" }));
        if name != "unborn" {
            c.op(&format!("ev n1 nbirth ts={} bd=3 id=1 ans=ok", t0));
            c.op(&format!("ev n1 dbirth dev=1 seq=1 ts={} id=2 ans=ok", t0 + 1));
        }
        match name {
            "host-offline" => {
                c.op("offline");
            }
            "gap-open" => {
                c.op(&format!("ev n1 ndata seq=3 ts={} id=4 ans=ok", t0 + 3));
                c.op("adv 40");
            }
            _ => {}
        }
        c.op(&format!("cancel off={}", off));
        // the host is gone: nothing is applied, nothing is requested any more
        c.op(&format!("ev n1 ndata seq=2 ts={} id=3 ans=ok", t0 + 2));
        c.op(&format!("ev n2 ndata seq=1 ts={} id=9 ans=ok", t0 + 2));
        c.op("offline");
        c.op("adv 101");
        c.op(&format!("cancel off={}", off));
        c.out.nontrivial();
        c.out.count("cancel-basic");
    }
    for q in [1u64, 2, 1024] {
        let mut fills = vec![q, q - 1, q + 1];
        if q > 1 {
            fills.push(0);
        }
        for queued in fills {
            for fin in [FinalOffline::Withheld, FinalOffline::AfterStop, FinalOffline::WithCancel] {
                for release in [false, true] {
                    for how in ["unknown", "oos"] {
                        if how == "oos" && (q == 1024 || fin == FinalOffline::AfterStop) {
                            continue;
                        }
                        let nodes = vec![BpNode { how, queued }, BpNode { how: "idle", queued: 0 }];
                        let d = bp_desc(q, &nodes, fin, release);
                        cancel_backpressure_case(out, q, &nodes, fin, release, d);
                    }
                }
            }
        }
    }
    for _ in 0..40 {
        let q = *rng.pick(&[1u64, 2, 3, 1024]);
        let nn = rng.range(1, 3);
        let mut over = false;
        let nodes: Vec<BpNode> = (0..nn)
            .map(|_| {
                let how = *rng.pick(&["unknown", "oos", "idle", "unknown"]);
                let mut queued = if q == 1024 { *rng.pick(&[0u64, 1, 1023, 1024, 1024]) } else { rng.range(0, q) };
                if how != "idle" && !over && rng.chance(1, 8) {
                    queued = q + 1;
                    over = true;
                }
                BpNode { how, queued }
            })
            .collect();
        let fin = *rng.pick(&[FinalOffline::Withheld, FinalOffline::AfterStop, FinalOffline::WithCancel]);
        let release = rng.chance(1, 2);
        let d = bp_desc(q, &nodes, fin, release);
        cancel_backpressure_case(out, q, &nodes, fin, release, d);
    }
}

/// `wrap_verbs_scenario` with every third message carrying NO metrics (three phases, so every position of the 8-bit
/// sequence space incl. 255, 0 and 1 after the wrap sees a metric-less NDATA / DDATA / DBIRTH) and DDEATHs mixed in
fn wrap_verbs_no_metrics_scenario(out: &mut Out) {
    for phase in 0..3u64 {
        let cfg = cfg_default(if phase == 1 { "100" } else { "-" }, 0, 1);
        let t0 = 1_000_000;
        let mut c = Case::begin(out, &cfg, t0);
        c.out.set_desc("clean inorder wrap-verbs no-metrics".into());
        c.sess.ordered_ids = true;
        c.sess.inorder = true;
        c.sess.clean = true;
        c.op(&format!("ev n1 nbirth ts={} bd=3 id=1 ans=ok", t0));
        c.op(&format!("ev n1 dbirth dev=1 seq=1 ts={} id=2 ans=ok", t0 + 1));
        let mut dev2 = false;
        for k in 2..=530u64 {
            let (seq, ts, id) = (k % 256, t0 + k, k + 1);
            let m = if (k + phase) % 3 == 0 { " m=0" } else { "" };
            match (k + phase) % 4 {
                _ if dev2 && k % 23 == 7 => {
                    dev2 = false;
                    c.op(&format!("ev n1 ddeath dev=2 seq={} ts={} id={}", seq, ts, id))
                }
                0 => c.op(&format!("ev n1 ndata seq={} ts={} id={} ans=ok{}", seq, ts, id, m)),
                1 => c.op(&format!("ev n1 ddata dev=1 seq={} ts={} id={} ans=ok{}", seq, ts, id, m)),
                2 => {
                    dev2 = true;
                    c.op(&format!("ev n1 dbirth dev=2 seq={} ts={} id={} ans=ok{}", seq, ts, id, m))
                }
                _ if dev2 => c.op(&format!("ev n1 ddata dev=2 seq={} ts={} id={} ans=ok{}", seq, ts, id, m)),
                _ => c.op(&format!("ev n1 ndata seq={} ts={} id={} ans=ok{}", seq, ts, id, m)),
            };
        }
        c.op("adv 101");
        c.out.nontrivial();
        c.out.count("wrap-verbs:no-metrics");
    }
}

/// Payloads WITHOUT METRICS (legal: srad-eon refuses to publish one, other Sparkplug publishers send them as
/// heartbeats; a DDEATH never carries any): the message still takes its sequence number, so it is applied (the store is
/// called with an empty list) and everything behind it is applied as it arrives - nothing is withheld, no gap opens, no
/// rebirth is requested when the reorder timeout passes. Delivered in order, `clean` (C07: no NCMD at all).
fn no_metrics_scenario(out: &mut Out) {
    let t0 = 1_000_000u64;
    for (name, to, q) in [("first-data", "100", 1024u64), ("first-data", "-", 1), ("device", "100", 2), ("all", "100", 1024)] {
        let cfg = format!("ip=0 bd=1 un=1 ud=1 um=1 rf=1 rs=1 to={} cd=0 rq=1 q={}", to, q);
        let mut c = Case::begin(out, &cfg, t0);
        c.out.set_desc(format!("clean inorder no-metrics {}", name));
        c.sess.ordered_ids = true;
        c.sess.inorder = true;
        c.sess.clean = true;
        c.op(&format!("ev n1 nbirth ts={} bd=3 id=1 ans=ok", t0));
        let bare = |k: u64| match name {
            "first-data" => k == 1,
            "device" => k == 2 || k == 4,
            _ => true,
        };
        let m = |k: u64| if bare(k) { " m=0" } else { "" };
        // seq 1 NDATA, 2 DBIRTH dev 1, 3 NDATA, 4 DDATA dev 1, 5 DDEATH dev 1, 6 NDATA, 7 DBIRTH dev 1, 8 DDATA dev 1
        c.op(&format!("ev n1 ndata seq=1 ts={} id=2 ans=ok{}", t0 + 1, m(1)));
        c.op(&format!("ev n1 dbirth dev=1 seq=2 ts={} id=3 ans=ok{}", t0 + 2, m(2)));
        c.op(&format!("ev n1 ndata seq=3 ts={} id=4 ans=ok{}", t0 + 3, m(3)));
        c.op(&format!("ev n1 ddata dev=1 seq=4 ts={} id=5 ans=ok{}", t0 + 4, m(4)));
        c.op(&format!("ev n1 ddeath dev=1 seq=5 ts={} id=6", t0 + 5));
        c.op(&format!("ev n1 ndata seq=6 ts={} id=7 ans=ok{}", t0 + 6, m(6)));
        c.op(&format!("ev n1 dbirth dev=1 seq=7 ts={} id=8 ans=ok{}", t0 + 7, m(7)));
        c.op(&format!("ev n1 ddata dev=1 seq=8 ts={} id=9 ans=ok{}", t0 + 8, m(8)));
        // the reorder window passes: nothing was held back, so nothing times out
        c.op("adv 101");
        c.op(&format!("ev n1 ndata seq=9 ts={} id=10 ans=ok", t0 + 120));
        c.out.nontrivial();
        c.out.count("no-metrics-scenario");
    }
    // out of order around a metric-less message: 3, 1(bare), 2 -> all three applied when 2 arrives
    {
        let cfg = cfg_default("100", 0, 1);
        let mut c = Case::begin(out, &cfg, t0);
        c.out.set_desc("clean no-metrics reordered".into());
        c.sess.clean = true;
        c.op(&format!("ev n1 nbirth ts={} bd=3 id=1 ans=ok", t0));
        c.op(&format!("ev n1 ndata seq=3 ts={} id=4 ans=ok", t0 + 3));
        let a1 = c.op(&format!("ev n1 ndata seq=1 ts={} id=2 ans=ok m=0", t0 + 1));
        let a2 = c.op(&format!("ev n1 ndata seq=2 ts={} id=3 ans=ok m=0", t0 + 2));
        if a1 != "n1:nodeData(-1)" || a2 != "n1:nodeData(-1);n1:nodeData(4)" {
            c.out.fail(
                "C05:prompt-apply",
                "reordered:ndata:no-metrics",
                format!("NBIRTH, seq 3, seq 1 (no metrics) => {}, seq 2 (no metrics) => {}: each is applied as soon as its predecessors have arrived, seq 3 right behind seq 2", a1, a2),
            );
        }
        c.op("adv 101");
        c.out.nontrivial();
        c.out.count("no-metrics-scenario");
    }
}

/// EQUAL TIMESTAMPS at every comparison the host makes with a message timestamp. A node's session ends - NDEATH
/// (matching / non-matching bdSeq), host Offline, a rebirth the host issues (unknown device), an NDEATH arriving in
/// the very millisecond of the birth timestamp - at host clock reading S; its NEXT session is stamped S + delta,
/// delta in {0, +1, -1}: NBIRTH and the first three messages carry exactly that millisecond, the following ones
/// +1 and +5. C05, last sentence (delta >= 0, delivered in publish order, no loss, no duplicate): every message is
/// applied by the line that delivers it - a message stamped AT the stale instant is not older than the staleness.
/// delta = -1 (the publisher's clock is behind by more than the reconnect took): the NBIRTH is still newer than the
/// previous one, but the messages stamped before the staleness may be discarded as old - nothing is demanded of
/// them here (the model comparison and C06:old-message-discarded describe what happens).
fn stale_instant_scenario(out: &mut Out) {
    let t0 = 1_000_000u64;
    for cfg in ["ip=1 bd=1 un=1 ud=1 um=1 rf=1 rs=1 to=100 cd=0 rq=1 q=1024", "ip=0 bd=1 un=1 ud=1 um=1 rf=1 rs=1 to=- cd=0 rq=1 q=1"] {
        for how in ["ndeath", "ndeath-mismatch", "offline", "rebirth-issued", "ndeath-at-birth-instant"] {
            for delta in [0i64, 1, -1] {
                if how == "ndeath-at-birth-instant" && delta < 1 {
                    continue; // S + delta is not newer than the previous birth (= S): that NBIRTH is a replay (C14), not a session
                }
                let mut c = Case::begin(out, cfg, t0);
                let name = match delta {
                    0 => "at",
                    1 => "one-above",
                    _ => "one-below",
                };
                c.out.set_desc(format!("ordered{} stale-instant {} {}", if delta >= 0 { " inorder" } else { "" }, how, name));
                c.sess.ordered_ids = true;
                c.sess.inorder = delta >= 0;
                // first session; `ndeath-at-birth-instant`: the node's clock is 2 ms ahead, its NDEATH is taken when
                // the host's clock reads exactly the birth timestamp
                let b1 = if how == "ndeath-at-birth-instant" { t0 + 2 } else { t0 };
                c.op(&format!("ev n1 nbirth ts={} bd=3 id=1 ans=ok", b1));
                c.op(&format!("ev n1 ndata seq=1 ts={} id=2 ans=ok", b1));
                let s = c.now; // the host clock reading of the request that makes the node stale
                match how {
                    "ndeath" | "ndeath-at-birth-instant" => {
                        c.op("ev n1 ndeath bd=3");
                    }
                    "ndeath-mismatch" => {
                        c.op("ev n1 ndeath bd=9");
                    }
                    "offline" => {
                        c.op("offline");
                        c.op("online");
                    }
                    _ => {
                        c.op(&format!("ev n1 ddata dev=7 seq=2 ts={} id=0 ans=ok", s));
                    }
                }
                let t = (s as i64 + delta) as u64;
                c.op(&format!("ev n1 nbirth ts={} bd=4 id=10 ans=ok", t));
                c.op(&format!("ev n1 ndata seq=1 ts={} id=11 ans=ok", t));
                c.op(&format!("ev n1 dbirth dev=1 seq=2 ts={} id=12 ans=ok", t));
                c.op(&format!("ev n1 ddata dev=1 seq=3 ts={} id=13 ans=ok", t));
                c.op(&format!("ev n1 ndata seq=4 ts={} id=14 ans=ok", t + 1));
                c.op(&format!("ev n1 ndata seq=5 ts={} id=15 ans=ok", t + 5));
                // a second reconnect in the same way, the new session flat at the instant
                let s2 = c.now;
                c.op("ev n1 ndeath bd=4");
                let t2 = (s2 as i64 + delta) as u64;
                c.op(&format!("ev n1 nbirth ts={} bd=5 id=20 ans=ok", t2));
                c.op(&format!("ev n1 ndata seq=1 ts={} id=21 ans=ok", t2));
                c.op(&format!("ev n1 ndata seq=2 ts={} id=22 ans=ok m=0", t2));
                c.op("adv 101");
                c.out.nontrivial();
                c.out.count("stale-instant-scenario");
                c.out.count(&format!("stale-instant:{}:{}", how, name));
            }
        }
    }
}

/// births and data stamped 0, 1, 2 ms: the first NBIRTH of a node is accepted iff its timestamp is
/// newer than "never" (0), whatever the absolute value
fn small_timestamp_scenario(out: &mut Out) {
    for t in 0..3u64 {
        let cfg = cfg_default("-", 0, 1);
        let mut c = Case::begin(out, &cfg, t);
        c.out.set_desc("ordered small-timestamps".into());
        c.sess.ordered_ids = true;
        c.op(&format!("ev n1 nbirth ts={} bd=3 id=1 ans=ok", t));
        c.op(&format!("ev n1 ndata seq=1 ts={} id=2 ans=ok", t));
        c.op(&format!("ev n1 dbirth dev=1 seq=2 ts={} id=3 ans=ok", t + 1));
        c.op(&format!("ev n1 ddata dev=1 seq=3 ts={} id=4 ans=ok", t + 1));
        c.op(&format!("ev n1 nbirth ts={} bd=3 id=5 ans=ok", t + 1));
        c.op(&format!("ev n1 ndata seq=1 ts={} id=6 ans=ok", t + 1));
        c.out.nontrivial();
        c.out.count("small-timestamps");
    }
}

/// C14, last sentence, for a node whose clock runs ahead of the host's: the identity of a birth is its
/// own timestamp, whatever the host's clock reads when it is delivered - the same NBIRTH delivered again
/// later, or an older one, is ignored and the expected sequence number stays where it was
fn fast_node_clock_replay_scenario(out: &mut Out) {
    for ahead in [1u64, 50, 10_000, 1 << 40] {
        let t0 = 1_000_000u64;
        let ts = t0 + ahead;
        let cfg = cfg_default("-", 0, 1);
        let mut c = Case::begin(out, &cfg, t0);
        c.out.set_desc("replay fast-node-clock".into());
        let birth = format!("ev n1 nbirth ts={} bd=3 id=1 ans=ok", ts);
        c.op(&birth);
        c.op(&format!("ev n1 ndata seq=1 ts={} id=2 ans=ok", ts));
        c.op("adv 20");
        c.op(&birth);
        c.op(&format!("ev n1 ndata seq=2 ts={} id=3 ans=ok", ts + 1));
        c.op("adv 5");
        c.op(&format!("ev n1 nbirth ts={} bd=2 id=4 ans=ok", ts - 1));
        c.op(&format!("ev n1 ndata seq=3 ts={} id=5 ans=ok", ts + 2));
        c.op(&format!("adv {}", ahead.min(20_000)));
        c.op(&birth);
        c.op(&format!("ev n1 ndata seq=4 ts={} id=6 ans=ok", ts + 3));
        c.out.nontrivial();
        c.out.count("fast-node-clock-replay");
    }
}


/// The UNMOCKED clock. Every other case drives `srad_types::utils::timestamp()` through the verif-hooks mock,
/// which returns before the real implementation is reached: a change to the real clock function, or one that
/// only matters when the clock is the real one, would be invisible. Here the mock is switched off:
/// (1) `timestamp()` is the wall clock in milliseconds, also after a burst of calls (a co-located publisher
/// stamping a batch of metrics); (2) a session, its NDEATH and the next session, all stamped by the real
/// clock: the data of the new session is applied (C05: none withheld or silently dropped; C06/C07: the host's
/// own staleness stamp must not lie in the future of the publisher's clock). No model lines (the model's
/// clock is the `now=` of a request); direct oracles only.
fn real_clock_scenario(out: &mut Out) {
    use srad_types::utils::{timestamp, verif_hooks};
    use std::time::{SystemTime, UNIX_EPOCH};
    let wall = || SystemTime::now().duration_since(UNIX_EPOCH).unwrap().as_millis() as u64;
    let cfg = cfg_default("-", 0, 1);
    let mut c = Case::begin(out, &cfg, 1_000_000);
    c.out.set_desc("real-clock".into());
    verif_hooks::set_mock_timestamp(None);
    verif_hooks::set_mock_wall(None);
    let rt = c.sess.rt.take().expect("own runtime");
    let feed = |sess: &mut Sess, body: String| -> Vec<(String, String)> {
        let op = format!("host {} now=0", body);
        let w: Vec<&str> = op.split(' ').collect();
        let ev = sess.build_event(&w, wall()).expect("event");
        sess.push(ev);
        rt.block_on(ev_tick());
        sess.effects()
    };
    let burst = || {
        let before = wall();
        let mut last = 0u64;
        for _ in 0..50_000 {
            last = timestamp();
        }
        (before, last, wall())
    };
    let mut log: Vec<String> = vec![];
    let t1 = wall();
    log.push(format!("{:?}", feed(&mut c.sess, format!("ev n1 nbirth ts={} bd=3 id=1 ans=ok", t1))));
    log.push(format!("{:?}", feed(&mut c.sess, format!("ev n1 ndata seq=1 ts={} id=2 ans=ok", wall()))));
    let (before, last, after) = burst();
    if last + 1 < before || last > after + 1 {
        for p in ["C05", "C06", "C07", "C14"] {
            c.out.fail(&format!("{}:real-clock-timestamp", p), "timestamp-is-not-the-wall-clock", format!("after 50000 calls timestamp() = {} while the wall clock went from {} to {}", last, before, after));
        }
    }
    log.push(format!("{:?}", feed(&mut c.sess, "ev n1 ndeath bd=3 pts=-".to_string())));
    std::thread::sleep(Duration::from_millis(3));
    let t2 = wall().max(t1 + 1);
    log.push(format!("{:?}", feed(&mut c.sess, format!("ev n1 nbirth ts={} bd=4 id=3 ans=ok", t2))));
    let mut applied = 0;
    for (k, id) in [(1u64, 4u64), (2, 5), (3, 6)] {
        let e = feed(&mut c.sess, format!("ev n1 ndata seq={} ts={} id={} ans=ok", k, wall().max(t2), id));
        if e.iter().any(|(n, x)| n == "n1" && *x == format!("nodeData({})", id)) {
            applied += 1;
        }
        log.push(format!("{:?}", e));
    }
    if applied != 3 {
        let d = format!("NBIRTH, NDATA, burst of timestamp() calls, NDEATH, NBIRTH, 3 x NDATA under the real clock: {} of 3 data messages of the new session applied; effects per step {:?}", applied, log);
        c.out.fail("C05:prompt-apply", "real-clock:new-session-after-stale", d.clone());
        c.out.fail("C06:real-clock-timestamp", "real-clock:new-session-after-stale", d.clone());
        c.out.fail("C07:real-clock-timestamp", "real-clock:new-session-after-stale", d);
    }
    c.sess.rt = Some(rt);
    set_clocks(c.now);
    c.out.nontrivial();
    c.out.count("real-clock");
}

/// The host's rebirth cooldown under the UNMOCKED wall clock (`eval_rebirth` reads `SystemTime`; the mock
/// shadows the reading): cooldown 1 s - a trigger gets its NCMD, one right behind it does not, one after
/// 1.1 s of real time does. Direct oracle only.
fn real_clock_cooldown_scenario(out: &mut Out) {
    use srad_types::utils::verif_hooks;
    use std::time::{SystemTime, UNIX_EPOCH};
    let wall = || SystemTime::now().duration_since(UNIX_EPOCH).unwrap().as_millis() as u64;
    let cfg = cfg_default("-", 1000, 1);
    let mut c = Case::begin(out, &cfg, 1_000_000);
    c.out.set_desc("real-clock-cooldown".into());
    verif_hooks::set_mock_timestamp(None);
    verif_hooks::set_mock_wall(None);
    let rt = c.sess.rt.take().expect("own runtime");
    let trigger = |sess: &mut Sess| -> usize {
        // data from a node the host holds no birth for
        let op = format!("host ev n1 ndata seq=1 ts={} id=5 ans=ok now=0", wall());
        let w: Vec<&str> = op.split(' ').collect();
        let ev = sess.build_event(&w, wall()).expect("event");
        sess.push(ev);
        rt.block_on(ev_tick());
        sess.effects().iter().filter(|(n, e)| n == "n1" && e == "ncmd").count()
    };
    let t0 = std::time::Instant::now();
    let a = trigger(&mut c.sess);
    let mut b = trigger(&mut c.sess);
    if t0.elapsed() > Duration::from_millis(800) {
        b = 0; // the machine stalled for most of the cooldown: proves nothing
    }
    std::thread::sleep(Duration::from_millis(1100));
    let t1 = std::time::Instant::now();
    let d = trigger(&mut c.sess);
    let mut e = trigger(&mut c.sess);
    if t1.elapsed() > Duration::from_millis(800) {
        e = 0;
    }
    if (a, b, d, e) != (1, 0, 1, 0) {
        c.out.fail(
            "C07:trigger-requests-rebirth",
            "real-clock-cooldown",
            format!("rebirth NCMDs per trigger under the real clock with a 1 s cooldown: first {}, at once {}, after 1.1 s {}, at once {} (expected 1,0,1,0)", a, b, d, e),
        );
    }
    c.sess.rt = Some(rt);
    set_clocks(c.now);
    c.out.nontrivial();
    c.out.count("real-clock-cooldown");
}

/// C20, last sentence, host side: `AppClient::try_publish_metrics` uses only the client's non-blocking
/// calls - with a client that parks every blocking call it still returns at once, for node and device
/// command topics (no model line: a direct check of the real call)
pub fn app_try_publish_scenario(out: &mut Out) {
    let cfg = cfg_default("100", 0, 1);
    let mut c = Case::begin(out, &cfg, 1_000_000);
    c.out.set_desc("app-try-publish".into());
    let client = APP_CLIENT.with(|c| c.borrow().clone()).expect("app client");
    let hub = c.sess.hub.clone();
    hub.default_blocking(Some(Decision::Park));
    let from = hub.calls().len();
    let rt = c.sess.rt.as_ref().expect("own runtime");
    for (what, topic) in [
        ("node", srad_app::PublishTopic::new_node_cmd("g", "n1")),
        ("device", srad_app::PublishTopic::new_device_cmd("g", "n1", "d1")),
    ] {
        let m = srad_app::PublishMetric::new(MetricId::Name("x".into()), 1i32);
        let cl = client.clone();
        let done = rt.block_on(async move { tokio::time::timeout(Duration::from_millis(5), cl.try_publish_metrics(topic, vec![m])).await.is_ok() });
        if !done {
            c.out.fail("C20:try-never-waits", &format!("app:{}", what), "AppClient::try_publish_metrics did not return while the client parks every blocking call".into());
        }
    }
    let calls = hub.calls();
    for cl in &calls[from..] {
        if matches!(cl.kind, Kind::NCmd | Kind::DCmd) && !cl.is_try {
            c.out.fail("C20:try-uses-nonblocking-client-call", &format!("app:{}", cl.kind.name()), format!("AppClient::try_publish_metrics handed {} over through a blocking client call", cl.kind.name()));
        }
    }
    if calls[from..].iter().filter(|cl| matches!(cl.kind, Kind::NCmd | Kind::DCmd)).count() != 2 {
        c.out.fail("C20:try-uses-nonblocking-client-call", "app:count", format!("expected one NCMD and one DCMD hand-over, got {:?}", calls[from..].iter().map(|x| x.kind.name()).collect::<Vec<_>>()));
    }
    hub.default_blocking(None);
    c.out.nontrivial();
    c.out.count("app-try-publish");
}

/// an invalid payload leaves the host's state untouched, also for a node it has never seen: with the
/// invalid_payload switch off no node is created, and the node's next well-formed message is still
/// "data from an unknown node"
fn invalid_unknown_node_scenario(out: &mut Out) {
    for (cfg, expect_ncmd) in [
        ("ip=0 bd=1 un=1 ud=1 um=1 rf=1 rs=0 to=100 cd=0 rq=1 q=1024", true),
        ("ip=0 bd=1 un=0 ud=1 um=1 rf=1 rs=1 to=100 cd=0 rq=1 q=1024", false),
    ] {
        let t0 = 1_000_000;
        let mut c = Case::begin(out, cfg, t0);
        c.out.set_desc("invalid-payload-unknown-node".into());
        let a = c.op("inv n1");
        if a != "-" {
            c.out.fail("C14:invalid-leaves-state-untouched", "unknown-node-created", format!("inv n1 on a fresh host => {}", a));
        }
        let before = c.sess.ncmds;
        let a = c.op(&format!("ev n1 ndata seq=1 ts={} id=5 ans=ok", t0 + 1));
        let got = c.sess.ncmds - before;
        if (got == 1) != expect_ncmd {
            c.out.fail("C14:invalid-leaves-state-untouched", "unknown-node-reason-changed", format!("first well-formed message of the node after its invalid payload => {} ({} NCMD, expected {})", a, got, expect_ncmd as u8));
        }
        c.out.nontrivial();
        c.out.count("invalid-unknown-node");
    }
}

pub const RULE: &str = "host histories through the real Application (paused tokio time, mock clock, recording stores): (a) fault-free multi-node multi-device streams with several sessions/rebirths each, sequence wrap included, every message delivered once within a bounded displacement - up to 30 places, and in long sessions up to 128..254 places (every message late by up to that much, or one message overtaking 128..220 earlier ones), always fewer than 256 numbers outstanding; scripted `long-overtake`: one message overtakes the 128/129/191/200/254 before it, at the start of a session and across the sequence wrap, reorder timeout 3 s / none - (oracles: no NCMD, promptness, order); (b) the same with duplicates, losses, NDEATHs with matching/non-matching bdSeq, host offline/online, late old-session deliveries, unknown nodes/devices, store rejections, replayed NBIRTHs, invalid payloads, virtual time advanced to just before/after the reorder timeout, random rebirth switches, cooldown 0 / finite / longer than the run, timeout present/absent, resequencing on/off, node-queue sizes 1/2/1024; (c) every event sequence of length <= L over a 15-symbol single-node alphabet, for two configurations; (d) scripted trigger scenarios, node-clock-ahead/behind probes, a late duplicate followed by 300 messages; (e) payloads WITHOUT METRICS (`m=0`: NDATA / DBIRTH / DDATA carrying seq and timestamp only; DDEATH never carries any) in every generator - one message in eight of every generated session, two symbols of the exhaustive soups, a scripted scenario and every third message of a 530-message in-order session across the sequence wrap (oracle C05:prompt-apply: applied by the line that delivers it, nothing behind it withheld); (f) `AppClient::cancel()` of the generic Application (C20, host sentence): at the end or at a random point of faulty histories and random soups (final Offline delivered after the stop request was taken / withheld; the answer carries the ms until run() had returned; later requests meet a host that is gone), and - without request lines - a back-pressure matrix: node actors parked in their blocking rebirth NCMD publish by the client double, node queue sizes 1/2/1024 holding exactly the queue size / one less / none / one more message (the application task itself held in a send), final Offline withheld / delivered after the stop / handed over together with the cancel, parked calls released later or never, plus 40 random mixes of 1-3 nodes (oracles C20:host-cancel-never-waits, C20:host-cancel-publishes-offline-state, C20:host-cancel-disconnects, C20:host-run-returns). Sessions are stamped step-wise, flat (every message at the birth millisecond) or flat-head, and one reconnect in two starts in the very millisecond in which the host took the NDEATH (scripted stale-instant scenarios: five ways of going stale x next session stamped at / one above / one below the stale instant). Non-trivial = at least two deliveries; distinct = distinct request-line sequences (hashed).";

pub fn run(args: &Args, out: &mut Out) -> &'static str {
    let mut rng = Rng::new(args.seed);
    let th = args.thorough();
    trigger_scenarios(out);
    refused_birth_scenarios(out, &mut rng);
    rejecting_client_scenarios(out, &mut rng);
    skew_scenarios(out, &mut rng);
    late_duplicate_scenario(out, "-");
    late_duplicate_scenario(out, "100");
    wrap_verbs_scenario(out);
    long_overtake_scenarios(out);
    wrap_verbs_no_metrics_scenario(out);
    no_metrics_scenario(out);
    cancel_scenarios(out, &mut rng);
    invalid_unknown_node_scenario(out);
    small_timestamp_scenario(out);
    stale_instant_scenario(out);
    fast_node_clock_replay_scenario(out);
    real_clock_scenario(out);
    real_clock_cooldown_scenario(out);
    app_try_publish_scenario(out);
    // (c) exhaustive soups
    let l = if th { 4 } else { 3 };
    for cfg in [cfg_default("100", 0, 1), "ip=1 bd=1 un=1 ud=1 um=1 rf=1 rs=1 to=- cd=1000000000 rq=1 q=1024".to_string()] {
        for len in 0..=l {
            let mut idx = vec![0usize; len];
            loop {
                soup_case(out, &idx, &cfg, "soup:exhaustive");
                let mut k = 0;
                loop {
                    if k == len {
                        break;
                    }
                    idx[k] += 1;
                    if idx[k] < SOUP_EXHAUSTIVE {
                        break;
                    }
                    idx[k] = 0;
                    k += 1;
                }
                if k == len {
                    break;
                }
            }
        }
    }
    out.exhaustive.push(format!("all event sequences of length 0..={} over a {}-symbol single-node alphabet x 2 configurations", l, SOUP_EXHAUSTIVE));
    // (a)
    for _ in 0..(if th { 300 } else { 40 }) {
        clean_case(out, &mut rng, false);
    }
    for _ in 0..(if th { 40 } else { 4 }) {
        clean_case(out, &mut rng, true);
    }
    // (b)
    for _ in 0..(if th { 3000 } else { 300 }) {
        faulty_case(out, &mut rng);
    }
    // random longer soups
    for _ in 0..(if th { 3000 } else { 300 }) {
        let len = rng.range(5, 30) as usize;
        let syms: Vec<usize> = (0..len).map(|_| rng.below(SYMS.len() as u64) as usize).collect();
        let (cfg, _) = cfg_random(&mut rng);
        let cfg = cfg.replace("to=250", "to=100").replace("to=3000", "to=100");
        soup_case(out, &syms, &cfg, "soup:random");
    }
    RULE
}

pub fn replay(desc: &str, lines: &[String], out: &mut Out) {
    if desc == "app-try-publish" {
        return app_try_publish_scenario(out);
    }
    if desc.starts_with("cancel-backpressure ") {
        return bp_from_desc(desc, out);
    }
    let mut sess: Option<Sess> = None;
    for l in lines {
        if l.starts_with("host new ") {
            let mut s = Sess::new(l);
            // "clean": the history is fault-free and every gap closes before the timeout
            s.clean = desc.starts_with("clean");
            s.ordered_ids = desc.starts_with("clean") || desc.starts_with("ordered");
            s.inorder = desc.starts_with("ordered inorder") || desc.starts_with("clean inorder");
            sess = Some(s);
            out.begin_case(l, "ok");
            out.set_desc(desc.to_string());
        } else if let Some(s) = sess.as_mut() {
            let a = s.exec(l, out);
            out.line(l, &a);
        }
    }
}
