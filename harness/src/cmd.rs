//! Component `cmd` (C15): command handling of the edge node (srad-eon node.rs / device.rs /
//! metric.rs / metric_manager/simple.rs) driven through `EoNBuilder`, the mock client / event
//! loop and recording (or `SimpleMetricManager`) metric managers. Ops (one per line):
//!   cmd new <cooldown_ms> <wall_ms> <ndev> <simple:0|1> <aliastable|_>
//!   cmd reg <n|dK> <namehex> <alias:0|1> <cb:0|1> <ty>       (simple mode only)
//!   cmd wall <ms>
//!   cmd online <sub:a|r> <decs>        decs: string over a|r|p (one per NBIRTH hand-over) or _
//!   cmd offline
//!   cmd resolve <a|r> <decs>
//!   cmd enable dK | cmd disable dK | cmd unreg dK
//!   cmd ncmd <decs> <kind> <ts|~> <metric>*
//!   cmd dcmd dK <kind> <ts|~> <metric>*
//! metric = <namehex|~>,<alias|~>,<ts|~>,<isnull ~|0|1>,<variant|~>,<field|~>
//! answer = effects joined by " | " (node effects in order, then per device sorted by name,
//! then the sequence numbers of the device hand-overs in hand-over order) or "-".
use crate::c10::{build_metric, show_metric};
use crate::common::*;
use crate::mock::{self, Decision, EventFeeder, Hub, Kind, Obs};
use async_trait::async_trait;
use prost::Message as _;
use srad_client::{DeviceMessage, Event, Message, MessageKind, NodeMessage};
use srad_eon::{
    BirthInitializer, DeviceHandle, DeviceMetricManager, EoNBuilder, MessageMetrics, MetricManager,
    NodeHandle, NodeMetricManager, SimpleMetricBuilder, SimpleMetricManager,
};
use srad_types::payload::{metric, Metric, Payload};
use srad_types::{MetricId, MetricValue};
use std::sync::atomic::{AtomicUsize, Ordering};
use std::sync::{Arc, Mutex};
use std::time::Duration;

pub static PANICS: AtomicUsize = AtomicUsize::new(0);

pub fn install_hook() {
    std::panic::set_hook(Box::new(|_| {
        PANICS.fetch_add(1, Ordering::SeqCst);
    }));
}

pub const GROUP: &str = "g";
pub const NODE: &str = "n";
pub const UNIVERSE: [&str; 5] = ["mb", "mi", "ms", "mq", "mu"];
pub const TYPES: [&str; 5] = ["bool", "i32", "string", "u64", "u8"];

// ---------- tokens ----------
fn opt_num(s: &str) -> Option<u64> {
    if s == "~" {
        None
    } else {
        Some(s.parse().unwrap())
    }
}
fn num_tok(v: Option<u64>) -> String {
    v.map(|x| x.to_string()).unwrap_or("~".into())
}

pub fn parse_metric(tok: &str) -> Metric {
    let f: Vec<&str> = tok.split(',').collect();
    assert!(f.len() == 6, "bad metric token {}", tok);
    let mut m = Metric::new();
    if f[0] != "~" {
        m.name = Some(String::from_utf8(unhex(f[0])).expect("names are valid UTF-8"));
    }
    m.alias = opt_num(f[1]);
    m.timestamp = opt_num(f[2]);
    m.is_null = match f[3] {
        "~" => None,
        "1" => Some(true),
        _ => Some(false),
    };
    if f[4] != "~" {
        m.value = Some(build_metric(f[4], f[5]).expect("bad value"));
    }
    m
}

pub fn value_tok(v: &Option<metric::Value>) -> String {
    match v {
        None => "~,~".into(),
        Some(v) => show_metric(v).replace(' ', ","),
    }
}

pub fn metric_tok(m: &Metric) -> String {
    format!(
        "{},{},{},{},{}",
        m.name.as_ref().map(|n| hex(n.as_bytes())).unwrap_or("~".into()),
        num_tok(m.alias),
        num_tok(m.timestamp),
        match m.is_null {
            None => "~",
            Some(true) => "1",
            Some(false) => "0",
        },
        value_tok(&m.value)
    )
}

fn parse_payload(w: &[&str]) -> Payload {
    Payload {
        timestamp: opt_num(w[0]),
        metrics: w[1..].iter().map(|t| parse_metric(t)).collect(),
        seq: None,
        uuid: None,
        body: None,
    }
}

fn parse_kind(s: &str) -> MessageKind {
    match s {
        "cmd" => MessageKind::Cmd,
        "data" => MessageKind::Data,
        "birth" => MessageKind::Birth,
        "death" => MessageKind::Death,
        _ => MessageKind::Other("x".into()),
    }
}

fn parse_decs(s: &str) -> Vec<Decision> {
    if s == "_" {
        return vec![];
    }
    s.chars()
        .map(|c| match c {
            'a' => Decision::Accept,
            'r' => Decision::Reject,
            _ => Decision::Park,
        })
        .collect()
}

fn dev_index(s: &str) -> usize {
    s.strip_prefix('d').unwrap().parse().unwrap()
}

// ---------- recording ----------
#[derive(Clone, Debug)]
pub struct Item {
    pub id: MetricId,
    pub ts: Option<u64>,
    pub value: Option<metric::Value>,
    pub props: bool,
}

#[derive(Clone, Debug)]
pub enum Rec {
    /// on_ncmd (None) / on_dcmd (Some(device index)) invoked
    Cmd { target: Option<usize>, ts: u64, items: Vec<Item> },
    /// SimpleMetricManager handler invoked: target, metric name, value token
    Cb { target: Option<usize>, name: String, val: String },
}

#[derive(Clone)]
struct Log {
    recs: Arc<Mutex<Vec<Rec>>>,
    hub: Hub,
}
impl Log {
    fn push(&self, r: Rec) {
        let mut g = self.recs.lock().unwrap();
        let idx = g.len();
        g.push(r);
        drop(g);
        self.hub.note(format!("rec {}", idx));
    }
}

fn collect_items(metrics: MessageMetrics) -> Vec<Item> {
    metrics
        .into_iter()
        .map(|m| Item { id: m.id, ts: m.timestamp, value: m.value.map(|v| v.0), props: m.properties.is_some() })
        .collect()
}

struct RecMgr {
    target: Option<usize>,
    log: Log,
}
impl MetricManager for RecMgr {
    fn initialise_birth(&self, _bi: &mut BirthInitializer) {}
}
#[async_trait]
impl NodeMetricManager for RecMgr {
    async fn on_ncmd(&self, _n: NodeHandle, metrics: MessageMetrics) {
        let ts = metrics.timestamp;
        self.log.push(Rec::Cmd { target: self.target, ts, items: collect_items(metrics) });
    }
}
#[async_trait]
impl DeviceMetricManager for RecMgr {
    async fn on_dcmd(&self, _d: DeviceHandle, metrics: MessageMetrics) {
        let ts = metrics.timestamp;
        self.log.push(Rec::Cmd { target: self.target, ts, items: collect_items(metrics) });
    }
}

fn item_tok(i: &Item) -> String {
    format!(
        "{},{},{}{}",
        match &i.id {
            MetricId::Alias(a) => format!("a{}", a),
            MetricId::Name(n) => format!("n{}", hex(n.as_bytes())),
        },
        num_tok(i.ts),
        value_tok(&i.value),
        if i.props { ",props" } else { "" }
    )
}
fn items_tok(v: &[Item]) -> String {
    format!("[{}]", v.iter().map(item_tok).collect::<Vec<_>>().join("+"))
}

// ---------- SimpleMetricManager registration ----------
#[derive(Clone, Debug)]
pub struct SReg {
    pub name: String,
    pub alias: bool,
    pub cb: bool,
    pub ty: String,
}

fn reg_typed<T, H>(mgr: &SimpleMetricManager<H>, r: &SReg, init: T, show: fn(&T) -> String, log: Log, target: Option<usize>) -> bool
where
    T: srad_types::traits::MetricValue + Clone + Send + 'static,
    H: srad_eon::MetricPublisher + Clone + Send + Sync + 'static,
{
    let mut b = SimpleMetricBuilder::new(r.name.clone(), init).use_alias(r.alias);
    if r.cb {
        let name = r.name.clone();
        b = b.with_cmd_handler(move |_m, _x, v: Option<T>| {
            log.push(Rec::Cb { target, name: name.clone(), val: v.as_ref().map(show).unwrap_or("~".into()) });
            async {}
        });
    }
    mgr.register_metric(b).is_some()
}

fn reg_metric<H>(mgr: &SimpleMetricManager<H>, r: &SReg, log: Log, target: Option<usize>) -> bool
where
    H: srad_eon::MetricPublisher + Clone + Send + Sync + 'static,
{
    match r.ty.as_str() {
        "bool" => reg_typed::<bool, H>(mgr, r, false, |v| format!("b:{}", *v as u8), log, target),
        "i32" => reg_typed::<i32, H>(mgr, r, 0, |v| format!("n:{}", *v as u32), log, target),
        "string" => reg_typed::<String, H>(mgr, r, String::new(), |v| format!("s:{}", hex(v.as_bytes())), log, target),
        "u64" => reg_typed::<u64, H>(mgr, r, 0, |v| format!("n:{}", v), log, target),
        "u8" => reg_typed::<u8, H>(mgr, r, 0, |v| format!("n:{}", v), log, target),
        _ => panic!("bad type"),
    }
}

/// what `T::try_from(MetricValue)` of the real crate yields, as a value token (None = Err)
pub fn convert_tok(ty: &str, v: &metric::Value) -> Option<String> {
    let mv = MetricValue::from(v.clone());
    match ty {
        "bool" => bool::try_from(mv).ok().map(|v| format!("b:{}", v as u8)),
        "i32" => i32::try_from(mv).ok().map(|v| format!("n:{}", v as u32)),
        "string" => String::try_from(mv).ok().map(|v| format!("s:{}", hex(v.as_bytes()))),
        "u64" => u64::try_from(mv).ok().map(|v| format!("n:{}", v)),
        "u8" => u8::try_from(mv).ok().map(|v| format!("n:{}", v)),
        _ => None,
    }
}

// ---------- observed events of one op ----------
#[derive(Clone, Debug, PartialEq)]
pub enum Status {
    Accepted,
    Rejected,
    Parked,
}

#[derive(Clone, Debug)]
pub enum Ev {
    Sub,
    NBirth { seq: Option<u64>, bdseq: Option<u64>, status: Status, payload: Payload },
    Will { bdseq: Option<u64> },
    Rec(Rec),
    DBirth { dev: String, seq: Option<u64>, payload: Payload },
    DDeath { dev: String, seq: Option<u64> },
    Other(String),
    Panic,
}

fn bdseq_of(p: &Payload) -> Option<u64> {
    p.metrics.iter().find(|m| m.name.as_deref() == Some("bdSeq")).and_then(|m| match &m.value {
        Some(metric::Value::LongValue(v)) => Some(*v),
        _ => None,
    })
}

fn topic_device(topic: &str) -> String {
    topic.rsplit('/').next().unwrap_or("").to_string()
}

// ---------- session ----------
struct DevS {
    name: String,
    handle: DeviceHandle,
    simple: Option<SimpleMetricManager<DeviceHandle>>,
}

pub struct Sess {
    rt: tokio::runtime::Runtime,
    hub: Hub,
    feeder: EventFeeder,
    log: Log,
    node: NodeHandle,
    node_simple: Option<SimpleMetricManager<NodeHandle>>,
    devs: Vec<DevS>,
    simple: bool,
    pub sh: Shadow,
}

async fn settle() {
    tokio::time::sleep(Duration::from_nanos(1)).await;
}

impl Sess {
    fn new(cooldown: u64, wall: u64, ndev: usize, simple: bool) -> Sess {
        let rt = mock::runtime();
        mock::set_clocks(wall);
        let (hub, client, el, feeder) = mock::mock_pair();
        let log = Log { recs: Arc::new(Mutex::new(vec![])), hub: hub.clone() };
        let mut node_simple = None;
        let (node, devs) = rt.block_on(async {
            let mut b = EoNBuilder::new(el, client)
                .with_group_id(GROUP)
                .with_node_id(NODE)
                .with_rebirth_cmd_cooldown(Duration::from_millis(cooldown));
            if simple {
                let m = SimpleMetricManager::<NodeHandle>::new();
                node_simple = Some(m.clone());
                b = b.with_metric_manager(m);
            } else {
                b = b.with_metric_manager(RecMgr { target: None, log: log.clone() });
            }
            let (eon, node) = b.build().unwrap();
            let mut devs = vec![];
            for k in 0..ndev {
                let name = format!("d{}", k);
                if simple {
                    let m = SimpleMetricManager::<DeviceHandle>::new();
                    let h = node.register_device(name.clone(), m.clone()).unwrap();
                    devs.push(DevS { name, handle: h, simple: Some(m) });
                } else {
                    let h = node
                        .register_device(name.clone(), RecMgr { target: Some(k), log: log.clone() })
                        .unwrap();
                    devs.push(DevS { name, handle: h, simple: None });
                }
            }
            tokio::spawn(eon.run());
            settle().await;
            (node, devs)
        });
        let sh = Shadow::new(cooldown, wall, ndev, simple);
        Sess { rt, hub, feeder, log, node, node_simple, devs, simple, sh }
    }

    /// run `f` (which pushes the stimulus), wait for quiescence, return what was observed
    fn observe(&mut self, decs: &[Decision], sub_reject: bool, f: impl FnOnce(&mut Sess)) -> Vec<Ev> {
        let from = self.hub.trace_len();
        let p0 = PANICS.load(Ordering::SeqCst);
        if sub_reject {
            self.hub.rule(Some(Kind::Subscribe), Decision::Reject, 1);
        }
        for d in decs {
            self.hub.rule(Some(Kind::NBirth), *d, 1);
        }
        f(self);
        self.rt.block_on(settle());
        self.hub.clear_rules();
        let trace = self.hub.trace_from(from);
        let parked = self.hub.parked_ids();
        let recs = self.log.recs.lock().unwrap().clone();
        let mut evs = vec![];
        for (i, o) in trace.iter().enumerate() {
            match o {
                Obs::Call(id) => {
                    let c = self.hub.call(*id);
                    let status = if parked.contains(id) {
                        Status::Parked
                    } else if trace[i..].iter().any(|x| matches!(x, Obs::Resolved(j, true) if j == id)) {
                        Status::Accepted
                    } else {
                        Status::Rejected
                    };
                    match c.kind {
                        Kind::Subscribe => evs.push(Ev::Sub),
                        Kind::NBirth => {
                            let p = c.payload.clone().unwrap();
                            evs.push(Ev::NBirth { seq: p.seq, bdseq: bdseq_of(&p), status, payload: p })
                        }
                        Kind::DBirth if c.is_try && status == Status::Rejected => {
                            // handed over by a call that cannot wait and refused by the full request
                            // queue: this DBIRTH was never published
                            evs.push(Ev::Other("DBIRTH-refused-try".to_string()))
                        }
                        Kind::DBirth => {
                            let p = c.payload.clone().unwrap();
                            evs.push(Ev::DBirth { dev: topic_device(&c.topic), seq: p.seq, payload: p })
                        }
                        Kind::DDeath => evs.push(Ev::DDeath {
                            dev: topic_device(&c.topic),
                            seq: c.payload.as_ref().and_then(|p| p.seq),
                        }),
                        k => evs.push(Ev::Other(k.name().to_string())),
                    }
                }
                Obs::SetWill(w) => {
                    let p = Payload::decode(w.payload.as_slice()).ok();
                    evs.push(Ev::Will { bdseq: p.as_ref().and_then(bdseq_of) })
                }
                Obs::Note(s) => {
                    if let Some(idx) = s.strip_prefix("rec ") {
                        evs.push(Ev::Rec(recs[idx.parse::<usize>().unwrap()].clone()))
                    }
                }
                _ => {}
            }
        }
        if PANICS.load(Ordering::SeqCst) > p0 {
            evs.push(Ev::Panic);
        }
        evs
    }
}

/// canonical answer line from the observed events
pub fn canon(evs: &[Ev]) -> String {
    let mut node: Vec<String> = vec![];
    let mut dev: Vec<(usize, String)> = vec![];
    let mut seqs: Vec<String> = vec![];
    let didx = |d: &str| d.strip_prefix('d').and_then(|x| x.parse::<usize>().ok()).unwrap_or(9999);
    for e in evs {
        match e {
            Ev::Sub => node.push("SUB".into()),
            Ev::NBirth { seq, bdseq, .. } => node.push(format!("NBIRTH s{} b{}", num_tok(*seq), num_tok(*bdseq))),
            Ev::Will { bdseq } => node.push(format!("WILL b{}", num_tok(*bdseq))),
            Ev::Rec(Rec::Cmd { target: None, ts, items }) => node.push(format!("NCMD {} {}", ts, items_tok(items))),
            Ev::Rec(Rec::Cb { target: None, name, val }) => node.push(format!("CB n {} {}", hex(name.as_bytes()), val)),
            Ev::Rec(Rec::Cmd { target: Some(k), ts, items }) => dev.push((*k, format!("DCMD d{} {} {}", k, ts, items_tok(items)))),
            Ev::Rec(Rec::Cb { target: Some(k), name, val }) => dev.push((*k, format!("CB d{} {} {}", k, hex(name.as_bytes()), val))),
            Ev::DBirth { dev: d, seq, .. } => {
                dev.push((didx(d), format!("DBIRTH {}", d)));
                seqs.push(num_tok(*seq));
            }
            Ev::DDeath { dev: d, seq } => {
                dev.push((didx(d), format!("DDEATH {}", d)));
                seqs.push(num_tok(*seq));
            }
            Ev::Other(k) => node.push(format!("OTHER {}", k)),
            Ev::Panic => node.push("PANIC".into()),
        }
    }
    dev.sort_by_key(|x| x.0);
    let mut parts = node;
    parts.extend(dev.into_iter().map(|x| x.1));
    if !seqs.is_empty() {
        parts.push(format!("seqs={}", seqs.join(",")));
    }
    if parts.is_empty() {
        "-".into()
    } else {
        parts.join(" | ")
    }
}

thread_local! {
    static SESS: std::cell::RefCell<Option<Sess>> = const { std::cell::RefCell::new(None) };
}

/// execute one request line on the real code; returns the canonical answer
pub fn exec(op: &str, out: &mut Out) -> String {
    let _crumb = crate::common::crumb::guard(op);
    let w: Vec<&str> = op.split(' ').filter(|s| !s.is_empty()).collect();
    if w.len() < 2 || w[0] != "cmd" {
        return "bad-op".into();
    }
    if w[1] == "new" {
        if w.len() != 7 {
            return "bad-op".into();
        }
        let s = Sess::new(w[2].parse().unwrap(), w[3].parse().unwrap(), w[4].parse().unwrap(), w[5] == "1");
        SESS.with(|c| *c.borrow_mut() = Some(s));
        return "ok".into();
    }
    SESS.with(|c| {
        let mut g = c.borrow_mut();
        let s = match g.as_mut() {
            Some(s) => s,
            None => return "bad-op".to_string(),
        };
        exec_on(s, &w, op, out)
    })
}

pub fn drop_session() {
    SESS.with(|c| *c.borrow_mut() = None);
}

fn exec_on(s: &mut Sess, w: &[&str], op: &str, out: &mut Out) -> String {
    let parked = !s.hub.parked_ids().is_empty();
    match w[1] {
        "fullqueue" => {
            // from now on the client's request queue is full: try_ calls fail at once, blocking
            // calls wait for room and get through
            s.hub.default_try(Some(Decision::Reject));
            "ok".into()
        }
        "wall" => {
            let ms: u64 = w[2].parse().unwrap();
            mock::set_clocks(ms);
            s.sh.wall = ms;
            "ok".into()
        }
        "reg" => {
            if !s.simple {
                return "bad-op".into();
            }
            let r = SReg {
                name: String::from_utf8(unhex(w[3])).unwrap(),
                alias: w[4] == "1",
                cb: w[5] == "1",
                ty: w[6].to_string(),
            };
            let ok = if w[2] == "n" {
                let ok = reg_metric(s.node_simple.as_ref().unwrap(), &r, s.log.clone(), None);
                if ok {
                    s.sh.node_reg.push(r);
                }
                ok
            } else {
                let k = dev_index(w[2]);
                if k >= s.devs.len() || !s.sh.devs[k].registered {
                    return "bad-op".into();
                }
                let ok = reg_metric(s.devs[k].simple.as_ref().unwrap(), &r, s.log.clone(), Some(k));
                if ok {
                    s.sh.devs[k].reg.push(r);
                }
                ok
            };
            if ok { "ok" } else { "dup" }.into()
        }
        "online" => {
            if parked {
                return "bad-op".into();
            }
            let decs = parse_decs(w[3]);
            let evs = s.observe(&decs, w[2] == "r", |s| {
                s.feeder.push(Event::Online);
            });
            s.sh.after_lifecycle(&evs, out);
            canon(&evs)
        }
        "offline" => {
            if parked {
                return "bad-op".into();
            }
            let evs = s.observe(&[], false, |s| {
                s.feeder.push(Event::Offline);
            });
            s.sh.after_lifecycle(&evs, out);
            canon(&evs)
        }
        "resolve" => {
            let ok = w[2] == "a";
            let decs = parse_decs(w[3]);
            let ids = s.hub.parked_ids();
            let evs = s.observe(&decs, false, |s| {
                for id in ids {
                    s.hub.resolve(id, ok);
                }
            });
            s.sh.oracle_resolve(ok, &evs, op, out);
            canon(&evs)
        }
        "enable" | "disable" | "unreg" => {
            let k = dev_index(w[2]);
            let what = w[1].to_string();
            let evs = s.observe(&[], false, |s| {
                if k < s.devs.len() {
                    match what.as_str() {
                        "enable" => s.devs[k].handle.enable(),
                        "disable" => s.devs[k].handle.disable(),
                        _ => {
                            let name = s.devs[k].name.clone();
                            let node = s.node.clone();
                            s.rt.block_on(async move { node.unregister_device_named(&name).await });
                        }
                    }
                }
            });
            s.sh.after_device_op(&what, k, &evs, op, out);
            canon(&evs)
        }
        "ncmd" => {
            let decs = parse_decs(w[2]);
            let kind = w[3].to_string();
            let payload = parse_payload(&w[4..]);
            let pl = payload.clone();
            let evs = s.observe(&decs, false, |s| {
                s.feeder.push(Event::Node(NodeMessage {
                    group_id: GROUP.into(),
                    node_id: NODE.into(),
                    message: Message { payload: pl, kind: parse_kind(&kind) },
                }));
            });
            s.sh.oracle_ncmd(&kind, &payload, &evs, op, out);
            canon(&evs)
        }
        "dcmd" => {
            let k = dev_index(w[2]);
            let kind = w[3].to_string();
            let payload = parse_payload(&w[4..]);
            let pl = payload.clone();
            let evs = s.observe(&[], false, |s| {
                s.feeder.push(Event::Device(DeviceMessage {
                    group_id: GROUP.into(),
                    node_id: NODE.into(),
                    device_id: format!("d{}", k),
                    message: Message { payload: pl, kind: parse_kind(&kind) },
                }));
            });
            s.sh.oracle_dcmd(k, &kind, &payload, &evs, op, out);
            canon(&evs)
        }
        _ => "bad-op".into(),
    }
}

// ---------- oracle: the property stated over what the implementation did ----------
// The shadow state is what an outside observer knows: the stimuli applied so far and the
// hand-overs / callbacks seen. "birthed" = the latest NBIRTH hand-over was accepted and no
// offline was processed since. Two readings of "the rebirth cooldown" are tracked: it starts at
// the last request that led to an NBIRTH (`last_honoured`) or at the last request that passed
// the cooldown test at all (`last_gate`, what the code stores). A birth is demanded only when
// the request is outside the cooldown under both readings and forbidden only when it is
// inside under both, so the oracle does not depend on that choice.

pub struct DevSh {
    pub registered: bool,
    pub enabled: bool,
    pub reg: Vec<SReg>,
    /// (declared id, metric) for metrics with a handler, as of the device's latest DBIRTH
    pub born: Vec<(MetricId, SReg)>,
}

pub struct Shadow {
    pub cooldown: u64,
    pub wall: u64,
    pub simple: bool,
    pub dead: bool,
    pub parked: Option<Option<u64>>, // Some(request time of the parked rebirth, if it is one)
    pub birthed: bool,
    pub bdseq: Option<u64>,
    pub last_gate: u64,
    pub last_honoured: Option<u64>,
    pub queue: Vec<(String, Payload)>,
    pub devs: Vec<DevSh>,
    pub node_reg: Vec<SReg>,
    pub node_born: Vec<(MetricId, SReg)>,
}

pub fn is_rebirth_metric(m: &Metric) -> bool {
    m.alias.is_none() && m.name.as_deref() == Some(srad_types::constants::NODE_CONTROL_REBIRTH)
}

/// the property's reading of "the Node Control/Rebirth metric (by name) is boolean true":
/// the last metric carrying that name and no alias decides
pub fn spec_requested(ms: &[Metric]) -> bool {
    matches!(
        ms.iter().filter(|m| is_rebirth_metric(m)).last().map(|m| &m.value),
        Some(Some(metric::Value::BooleanValue(true)))
    )
}

/// why a payload is not a valid rebirth request (feature for the oracle signature)
fn invalid_reason(ms: &[Metric]) -> &'static str {
    match ms.iter().filter(|m| is_rebirth_metric(m)).last() {
        Some(m) => match &m.value {
            Some(metric::Value::BooleanValue(false)) => "false",
            Some(metric::Value::BooleanValue(true)) => "valid",
            Some(_) => "non-boolean",
            None => "no-value",
        },
        None => {
            if ms.iter().any(|m| m.alias.is_some() && m.name.as_deref() == Some(srad_types::constants::NODE_CONTROL_REBIRTH)) {
                "aliased"
            } else {
                "absent"
            }
        }
    }
}

fn spec_id(m: &Metric) -> Option<MetricId> {
    match (&m.alias, &m.name) {
        (Some(a), _) => Some(MetricId::Alias(*a)),
        (None, Some(n)) => Some(MetricId::Name(n.clone())),
        _ => None,
    }
}
fn well_formed(m: &Metric) -> bool {
    spec_id(m).is_some() && (m.value.is_some() || m.is_null == Some(true))
}
fn val_bytes(v: &Option<metric::Value>) -> Vec<u8> {
    let mut m = Metric::new();
    m.value = v.clone();
    m.encode_to_vec()
}
fn item_is(i: &Item, m: &Metric) -> bool {
    Some(&i.id) == spec_id(m).as_ref() && i.ts == m.timestamp && val_bytes(&i.value) == val_bytes(&m.value)
}
fn metric_feature(m: &Metric) -> &'static str {
    if m.value.is_none() {
        "explicit-null"
    } else if m.alias.is_some() {
        "aliased-value"
    } else {
        "named-value"
    }
}

/// Is `items` (length k) the payload's metrics in order, where metric i may be left out unless
/// `required(i)`? Returns, per metric, the item it is matched with.
fn align(n: usize, k: usize, matches: &dyn Fn(usize, usize) -> bool, required: &dyn Fn(usize) -> bool) -> Option<Vec<Option<usize>>> {
    // ok[i][j]: metrics i.. can account for exactly items j..
    let mut ok = vec![vec![false; k + 1]; n + 1];
    ok[n][k] = true;
    for i in (0..n).rev() {
        for j in (0..=k).rev() {
            let take = j < k && matches(i, j) && ok[i + 1][j + 1];
            let skip = !required(i) && ok[i + 1][j];
            ok[i][j] = take || skip;
        }
    }
    if !ok[0][0] {
        return None;
    }
    let mut asg = vec![None; n];
    let mut j = 0;
    for i in 0..n {
        if j < k && matches(i, j) && ok[i + 1][j + 1] && (required(i) || !ok[i + 1][j]) {
            asg[i] = Some(j);
            j += 1;
        } else if !required(i) && ok[i + 1][j] {
        } else {
            asg[i] = Some(j);
            j += 1;
        }
    }
    Some(asg)
}

fn born_from(payload: &Payload, regs: &[SReg]) -> Vec<(MetricId, SReg)> {
    let mut v = vec![];
    for r in regs.iter().filter(|r| r.cb) {
        if let Some(m) = payload.metrics.iter().find(|m| m.name.as_deref() == Some(r.name.as_str())) {
            let id = match m.alias {
                Some(a) => MetricId::Alias(a),
                None => MetricId::Name(r.name.clone()),
            };
            v.push((id, r.clone()));
        }
    }
    v
}

impl Shadow {
    pub fn new(cooldown: u64, wall: u64, ndev: usize, simple: bool) -> Shadow {
        Shadow {
            cooldown,
            wall,
            simple,
            dead: false,
            parked: None,
            birthed: false,
            bdseq: None,
            last_gate: 0,
            last_honoured: None,
            queue: vec![],
            devs: (0..ndev).map(|_| DevSh { registered: true, enabled: false, reg: vec![], born: vec![] }).collect(),
            node_reg: vec![],
            node_born: vec![],
        }
    }

    /// bookkeeping common to every op: births seen
    fn note_births(&mut self, evs: &[Ev]) {
        for e in evs {
            match e {
                Ev::NBirth { bdseq, status, payload, .. } => {
                    self.bdseq = *bdseq;
                    self.birthed = *status == Status::Accepted;
                    self.node_born = born_from(payload, &self.node_reg);
                }
                Ev::DBirth { dev, payload, .. } => {
                    if let Some(k) = dev.strip_prefix('d').and_then(|x| x.parse::<usize>().ok()) {
                        if k < self.devs.len() {
                            self.devs[k].born = born_from(payload, &self.devs[k].reg);
                        }
                    }
                }
                Ev::Will { .. } => self.birthed = false,
                Ev::Panic => self.dead = true,
                _ => {}
            }
        }
    }

    pub fn after_lifecycle(&mut self, evs: &[Ev], out: &mut Out) {
        // online / offline: no command is involved, so no manager may be called
        if evs.iter().any(|e| matches!(e, Ev::Rec(_))) {
            out.fail("C15:no-spurious-delivery", "lifecycle", format!("manager called without a command: {}", canon(evs)));
        }
        self.note_births(evs);
        if let Some(Ev::NBirth { status: Status::Parked, .. }) = evs.iter().filter(|e| matches!(e, Ev::NBirth { .. })).last() {
            self.parked = Some(None);
        }
    }

    pub fn after_device_op(&mut self, what: &str, k: usize, evs: &[Ev], op: &str, out: &mut Out) {
        if evs.iter().any(|e| matches!(e, Ev::Rec(_) | Ev::NBirth { .. })) {
            out.fail("C15:no-spurious-delivery", "device-op", format!("{}: {}", op, canon(evs)));
        }
        self.note_births(evs);
        if k < self.devs.len() {
            match what {
                "enable" => {
                    if self.devs[k].registered {
                        self.devs[k].enabled = true
                    }
                }
                "disable" => self.devs[k].enabled = false,
                _ => {
                    self.devs[k].registered = false;
                    self.devs[k].enabled = false;
                }
            }
        }
    }

    /// delivery clause for one command that reached a manager: `recs` are the callbacks seen
    fn check_delivery(&self, target: Option<usize>, payload: &Payload, rec: Option<&Rec>, cbs: &[&Rec], op: &str, out: &mut Out) {
        let tname = target.map(|k| format!("d{}", k)).unwrap_or("node".into());
        if !self.simple {
            let (ts, items) = match rec {
                Some(Rec::Cmd { ts, items, .. }) => (*ts, items),
                _ => {
                    out.fail("C15:delivered-to-addressed", &tname, format!("{}: the addressed manager was not called", op));
                    return;
                }
            };
            if Some(ts) != payload.timestamp {
                out.fail("C15:delivered-to-addressed", "payload-timestamp", format!("{}: manager saw timestamp {}", op, ts));
            }
            let ms = &payload.metrics;
            let required = |i: usize| well_formed(&ms[i]) && !is_rebirth_metric(&ms[i]);
            let matches = |i: usize, j: usize| item_is(&items[j], &ms[i]);
            if let Some(asg) = align(ms.len(), items.len(), &matches, &required) {
                for (i, a) in asg.iter().enumerate() {
                    if a.is_some() && !well_formed(&ms[i]) {
                        out.count("obs:malformed-metric-delivered");
                    }
                }
                return;
            }
            // no alignment exists: name the first offender (greedy scan)
            let mut reported = false;
            let mut pos = 0usize;
            for m in ms {
                if pos < items.len() && item_is(&items[pos], m) {
                    pos += 1;
                } else if well_formed(m) && !is_rebirth_metric(m) {
                    reported = true;
                    out.fail(
                        "C15:metric-delivered",
                        metric_feature(m),
                        format!("{}: metric {} did not reach the manager of {} with its id and value; manager got {}", op, metric_tok(m), tname, items_tok(items)),
                    );
                }
            }
            if pos < items.len() {
                reported = true;
                out.fail("C15:nothing-invented", &tname, format!("{}: manager received {} which is not in the payload (in order)", op, item_tok(&items[pos])));
            }
            if !reported {
                out.fail("C15:metric-delivered", "order", format!("{}: manager got {} - not the well-formed metrics of the payload in order", op, items_tok(items)));
            }
        } else {
            // SimpleMetricManager: the handler of the metric whose latest birth declared the id
            let born = match target {
                None => &self.node_born,
                Some(k) => &self.devs[k].born,
            };
            let ms = &payload.metrics;
            // per metric: the handler call it must cause if it is delivered (name, value token)
            let wants: Vec<Option<(String, String)>> = ms
                .iter()
                .map(|m| {
                    let id = spec_id(m)?;
                    let reg = &born.iter().find(|(i, _)| *i == id)?.1;
                    let val = match &m.value {
                        Some(v) => convert_tok(&reg.ty, v)?, // value of another type: no call
                        None => "~".to_string(),
                    };
                    Some((reg.name.clone(), val))
                })
                .collect();
            let required = |i: usize| wants[i].is_some() && well_formed(&ms[i]);
            let matches = |i: usize, j: usize| match (&wants[i], cbs[j]) {
                (Some((n, v)), Rec::Cb { name, val, .. }) => n == name && v == val,
                _ => false,
            };
            if let Some(asg) = align(ms.len(), cbs.len(), &matches, &required) {
                for (i, a) in asg.iter().enumerate() {
                    if a.is_some() && !well_formed(&ms[i]) {
                        out.count("obs:malformed-metric-delivered");
                    }
                }
                return;
            }
            let mut reported = false;
            let mut pos = 0usize;
            for (i, m) in ms.iter().enumerate() {
                let (name, want) = match &wants[i] {
                    Some(x) => x,
                    None => continue,
                };
                if pos < cbs.len() && matches(i, pos) {
                    pos += 1;
                } else if well_formed(m) {
                    reported = true;
                    out.fail(
                        "C15:metric-delivered",
                        &format!("simple-{}", metric_feature(m)),
                        format!("{}: handler of {} on {} not called with {} for metric {}", op, name, tname, want, metric_tok(m)),
                    );
                }
            }
            if pos < cbs.len() {
                reported = true;
                out.fail("C15:nothing-invented", &format!("simple-{}", tname), format!("{}: unexpected handler call {:?}", op, cbs[pos]));
            }
            if !reported {
                out.fail("C15:metric-delivered", "simple-order", format!("{}: handler calls {:?} are not those of the payload in order", op, cbs));
            }
        }
    }

    /// one NCMD processed by a live, unblocked node task; `seg` = the node-side events it caused
    /// (its on_ncmd record / handler calls and the NBIRTH hand-overs that follow)
    fn check_ncmd(&mut self, kind: &str, payload: &Payload, seg: &[Ev], op: &str, out: &mut Out) {
        let deliverable = kind == "cmd" && payload.timestamp.is_some();
        let rec = seg.iter().find_map(|e| match e {
            Ev::Rec(r @ Rec::Cmd { .. }) => Some(r),
            _ => None,
        });
        let cbs: Vec<&Rec> = seg
            .iter()
            .filter_map(|e| match e {
                Ev::Rec(r @ Rec::Cb { .. }) => Some(r),
                _ => None,
            })
            .collect();
        // routing: only the node's manager, and only for a CMD with a payload timestamp
        for e in seg {
            if let Ev::Rec(Rec::Cmd { target: Some(k), .. }) | Ev::Rec(Rec::Cb { target: Some(k), .. }) = e {
                out.fail("C15:to-no-other", "ncmd-to-device", format!("{}: device d{} manager called", op, k));
            }
        }
        if deliverable {
            self.check_delivery(None, payload, rec, &cbs, op, out);
        } else if rec.is_some() || !cbs.is_empty() {
            // the property is silent on what a manager is told about a non-CMD message or a
            // payload without timestamp; the correspondence pins the behaviour (none)
            out.count(if kind != "cmd" { "obs:manager-called-for-non-cmd" } else { "obs:manager-called-without-payload-timestamp" });
        }
        // decision
        let nbirths: Vec<&Ev> = seg.iter().filter(|e| matches!(e, Ev::NBirth { .. })).collect();
        let panicked = seg.iter().any(|e| matches!(e, Ev::Panic));
        let requested = spec_requested(&payload.metrics);
        let request = deliverable && requested;
        let clock_ok = self.wall >= self.last_gate;
        let outside_gate = clock_ok && self.wall - self.last_gate >= self.cooldown;
        let inside_honoured = match self.last_honoured {
            Some(l) => self.wall < l || self.wall - l < self.cooldown,
            None => false,
        };
        let must = request && self.birthed && outside_gate;
        let must_not = !request || !self.birthed || inside_honoured;
        if panicked {
            out.count("obs:node-task-panicked");
        }
        // input distribution
        out.count(&format!(
            "ncmd:{}",
            if !deliverable {
                if kind != "cmd" { "not-a-cmd" } else { "no-payload-timestamp" }
            } else if !requested {
                match invalid_reason(&payload.metrics) {
                    "absent" => "no-request",
                    "false" => "request-false",
                    "non-boolean" => "request-non-boolean",
                    "no-value" => "request-without-value",
                    _ => "request-aliased",
                }
            } else if !self.birthed {
                "valid-request-unbirthed"
            } else if must {
                "valid-request-birthed-outside-cooldown"
            } else {
                "valid-request-birthed-within-cooldown"
            }
        ));
        out.count_n("metrics:total", payload.metrics.len() as u64);
        out.count_n("metrics:explicit-null", payload.metrics.iter().filter(|m| m.value.is_none() && m.is_null == Some(true)).count() as u64);
        out.count_n("metrics:malformed", payload.metrics.iter().filter(|m| !well_formed(m)).count() as u64);
        out.count_n("metrics:rebirth-named", payload.metrics.iter().filter(|m| is_rebirth_metric(m)).count() as u64);
        if payload.metrics.iter().filter(|m| is_rebirth_metric(m)).count() > 1 {
            out.count("ncmd:several-rebirth-metrics");
        }
        if must && nbirths.len() != 1 && !panicked {
            out.fail("C15:rebirth-honoured", "birthed-outside-cooldown", format!("{}: {} NBIRTH hand-overs; {}", op, nbirths.len(), canon(seg)));
        }
        if must_not && !nbirths.is_empty() {
            let feature = if !deliverable {
                if kind != "cmd" { "not-a-cmd" } else { "no-payload-timestamp" }
            } else if !requested {
                invalid_reason(&payload.metrics)
            } else if !self.birthed {
                "unbirthed"
            } else {
                "within-cooldown"
            };
            out.fail("C15:no-birth", feature, format!("{}: {}", op, canon(seg)));
        }
        if !must && !must_not {
            out.count(if nbirths.is_empty() { "obs:cooldown-started-by-unhonoured-request:refused" } else { "obs:cooldown-started-by-unhonoured-request:honoured" });
        }
        if let Some(Ev::NBirth { seq, bdseq, .. }) = nbirths.first() {
            if *seq != Some(0) {
                out.fail("C15:nbirth-seq-0", "rebirth", format!("{}: NBIRTH seq {:?}", op, seq));
            }
            if *bdseq != self.bdseq || bdseq.is_none() {
                out.fail("C15:bdseq-unchanged", "rebirth", format!("{}: NBIRTH bdSeq {:?}, birth before had {:?}", op, bdseq, self.bdseq));
            }
        }
        // bookkeeping
        if request && clock_ok && outside_gate && !panicked {
            if !nbirths.is_empty() {
                self.last_honoured = Some(self.wall);
            }
            match nbirths.last() {
                Some(Ev::NBirth { status: Status::Parked, .. }) => self.parked = Some(Some(self.wall)),
                _ => self.last_gate = self.wall,
            }
        }
        self.note_births(seg);
    }

    /// the DBIRTH half of "complete birth sequence", checked at the end of a step whose last
    /// NBIRTH is an accepted rebirth: one DBIRTH per enabled device, each once, numbered 1..k
    fn check_dbirths(&self, evs: &[Ev], op: &str, out: &mut Out) {
        let want: Vec<String> = self.devs.iter().enumerate().filter(|(_, d)| d.registered && d.enabled).map(|(k, _)| format!("d{}", k)).collect();
        let mut got: Vec<String> = vec![];
        let mut seqs: Vec<Option<u64>> = vec![];
        let mut after_nbirth = false;
        for e in evs {
            match e {
                Ev::NBirth { .. } => after_nbirth = true,
                Ev::DBirth { dev, seq, .. } => {
                    if !after_nbirth {
                        out.fail("C15:dbirth-after-nbirth", dev, format!("{}: {}", op, canon(evs)));
                    }
                    got.push(dev.clone());
                    seqs.push(*seq);
                }
                Ev::DDeath { dev, .. } => out.fail("C15:complete-birth-sequence", "ddeath", format!("{}: DDEATH {} during a rebirth", op, dev)),
                _ => {}
            }
        }
        let mut g = got.clone();
        g.sort();
        if g != want {
            out.fail("C15:complete-birth-sequence", "dbirth-per-enabled-device", format!("{}: DBIRTH for {:?}, enabled devices {:?}", op, got, want));
        }
        for (i, s) in seqs.iter().enumerate() {
            if *s != Some(((i + 1) % 256) as u64) {
                out.fail("C15:complete-birth-sequence", "dbirth-seq", format!("{}: DBIRTH seqs {:?}", op, seqs));
                break;
            }
        }
    }

    pub fn oracle_ncmd(&mut self, kind: &str, payload: &Payload, evs: &[Ev], op: &str, out: &mut Out) {
        if self.dead {
            out.count("oracle:node-dead-skipped");
            return;
        }
        if self.parked.is_some() {
            // the node task is blocked in the NBIRTH hand-over: the command waits
            self.queue.push((kind.to_string(), payload.clone()));
            if !evs.is_empty() {
                out.count("obs:activity-while-parked");
            }
            return;
        }
        self.check_ncmd(kind, payload, evs, op, out);
        let nb: Vec<&Ev> = evs.iter().filter(|e| matches!(e, Ev::NBirth { .. })).collect();
        if nb.len() == 1 {
            if let Ev::NBirth { status, .. } = nb[0] {
                match status {
                    Status::Accepted => self.check_dbirths(evs, op, out),
                    _ => {
                        if evs.iter().any(|e| matches!(e, Ev::DBirth { .. })) {
                            out.fail("C15:dbirth-after-nbirth", "nbirth-not-accepted", format!("{}: {}", op, canon(evs)));
                        }
                    }
                }
            }
        } else if nb.is_empty() && evs.iter().any(|e| matches!(e, Ev::DBirth { .. } | Ev::DDeath { .. })) {
            out.fail("C15:no-birth", "device-hand-over-without-nbirth", format!("{}: {}", op, canon(evs)));
        }
    }

    pub fn oracle_resolve(&mut self, ok: bool, evs: &[Ev], op: &str, out: &mut Out) {
        let pk = match self.parked.take() {
            Some(p) => p,
            None => {
                if !evs.is_empty() {
                    out.count("obs:activity-on-empty-resolve");
                }
                return;
            }
        };
        self.birthed = ok;
        if let Some(t) = pk {
            self.last_gate = t;
        }
        // split the node-side events into one segment per delivered command
        let node_evs: Vec<Ev> = evs
            .iter()
            .filter(|e| matches!(e, Ev::NBirth { .. } | Ev::Panic | Ev::Rec(Rec::Cmd { target: None, .. }) | Ev::Rec(Rec::Cb { target: None, .. })))
            .cloned()
            .collect();
        let queue = std::mem::take(&mut self.queue);
        let mut pos = 0usize;
        let mut accepted_births = if ok { 1 } else { 0 };
        let mut nbirths_in_step = 0;
        let mut qi = 0usize;
        while qi < queue.len() {
            if self.dead {
                break;
            }
            if self.parked.is_some() {
                break;
            }
            let (kind, payload) = &queue[qi];
            qi += 1;
            let deliverable = kind == "cmd" && payload.timestamp.is_some();
            if !deliverable {
                self.check_ncmd(kind, payload, &[], op, out);
                continue;
            }
            // its segment: in simple mode there is no on_ncmd record, so the handler calls and
            // NBIRTHs cannot be attributed when several commands are queued: only single-command
            // queues are checked strictly there
            let seg: Vec<Ev> = if !self.simple {
                let mut end = pos;
                if end < node_evs.len() && matches!(node_evs[end], Ev::Rec(Rec::Cmd { .. })) {
                    end += 1;
                    while end < node_evs.len() && !matches!(node_evs[end], Ev::Rec(Rec::Cmd { .. })) {
                        end += 1;
                    }
                }
                let s = node_evs[pos..end].to_vec();
                pos = end;
                s
            } else if queue.iter().filter(|(k, p)| k == "cmd" && p.timestamp.is_some()).count() == 1 {
                let s = node_evs[pos..].to_vec();
                pos = node_evs.len();
                s
            } else {
                out.count("oracle:simple-multi-queue-skipped");
                self.note_births(evs);
                if let Some(Ev::NBirth { status: Status::Parked, .. }) = evs.iter().filter(|e| matches!(e, Ev::NBirth { .. })).last() {
                    self.parked = Some(None);
                }
                return;
            };
            for e in &seg {
                if let Ev::NBirth { status, .. } = e {
                    nbirths_in_step += 1;
                    if *status == Status::Accepted {
                        accepted_births += 1;
                    }
                }
            }
            self.check_ncmd(kind, payload, &seg, op, out);
        }
        // whatever is still queued stays queued (the task parked again or died)
        self.queue = queue[qi..].to_vec();
        if pos < node_evs.len() && !self.simple {
            out.fail("C15:no-spurious-delivery", "resolve", format!("{}: node-side events not caused by a queued command: {}", op, canon(&node_evs[pos..])));
        }
        let _ = accepted_births;
        if nbirths_in_step == 0 {
            if ok {
                // the resolved birth alone: its DBIRTHs are C04's business
                out.count("oracle:resolved-birth-only");
            }
        } else {
            // node births are numbered and a device acts on a birth notification only while the
            // node birth it belongs to is the current one: whatever births the step contained,
            // the last rebirth decides - accepted: exactly one DBIRTH per enabled device,
            // numbered 1..k; rejected / parked: none
            out.count("oracle:resolve-step-with-rebirth");
            match evs.iter().filter(|e| matches!(e, Ev::NBirth { .. })).last() {
                Some(Ev::NBirth { status: Status::Accepted, .. }) => self.check_dbirths(evs, op, out),
                _ => {
                    if evs.iter().any(|e| matches!(e, Ev::DBirth { .. })) {
                        out.fail("C15:dbirth-after-nbirth", "nbirth-not-accepted", format!("{}: {}", op, canon(evs)));
                    }
                }
            }
        }
        for e in evs {
            if let Ev::DBirth { dev, payload, .. } = e {
                if let Some(k) = dev.strip_prefix('d').and_then(|x| x.parse::<usize>().ok()) {
                    if k < self.devs.len() {
                        self.devs[k].born = born_from(payload, &self.devs[k].reg);
                    }
                }
            }
        }
    }

    pub fn oracle_dcmd(&mut self, k: usize, kind: &str, payload: &Payload, evs: &[Ev], op: &str, out: &mut Out) {
        let known = k < self.devs.len() && self.devs[k].registered;
        let deliverable = known && kind == "cmd" && payload.timestamp.is_some();
        out.count(&format!(
            "dcmd:{}",
            if !known { "unknown-device" } else if kind != "cmd" { "not-a-cmd" } else if payload.timestamp.is_none() { "no-payload-timestamp" } else { "deliverable" }
        ));
        out.count_n("metrics:total", payload.metrics.len() as u64);
        out.count_n("metrics:explicit-null", payload.metrics.iter().filter(|m| m.value.is_none() && m.is_null == Some(true)).count() as u64);
        for e in evs {
            match e {
                Ev::Rec(Rec::Cmd { target, .. }) | Ev::Rec(Rec::Cb { target, .. }) => {
                    if *target != Some(k) {
                        out.fail(
                            "C15:to-no-other",
                            if target.is_none() { "dcmd-to-node" } else { "dcmd-to-other-device" },
                            format!("{}: manager of {:?} called", op, target),
                        );
                    }
                }
                Ev::NBirth { .. } | Ev::DBirth { .. } | Ev::DDeath { .. } => {
                    out.fail("C15:no-birth", "dcmd", format!("{}: {}", op, canon(evs)));
                }
                _ => {}
            }
        }
        let rec = evs.iter().find_map(|e| match e {
            Ev::Rec(r @ Rec::Cmd { target, .. }) if *target == Some(k) => Some(r),
            _ => None,
        });
        let cbs: Vec<&Rec> = evs
            .iter()
            .filter_map(|e| match e {
                Ev::Rec(r @ Rec::Cb { target, .. }) if *target == Some(k) => Some(r),
                _ => None,
            })
            .collect();
        if deliverable {
            self.check_delivery(Some(k), payload, rec, &cbs, op, out);
        } else if rec.is_some() || !cbs.is_empty() {
            if !known {
                out.fail("C15:no-spurious-delivery", "unknown-device", format!("{}: {}", op, canon(evs)));
            } else {
                out.count(if kind != "cmd" { "obs:manager-called-for-non-cmd" } else { "obs:manager-called-without-payload-timestamp" });
            }
        }
    }
}

// ---------- generators, run, replay, T-table ----------

pub const RULE: &str = "cmd: (A) every single-metric cell (name absent/Rebirth/other x alias x 15 value samples x is_null none/true/false) as NCMD and as DCMD on a birthed node; (B) every ordered pair and triple of 7 rebirth-candidate metrics; (C) every lifecycle prefix (offline, subscribe rejected, NBIRTH rejected, NBIRTH parked then accepted/rejected, birthed, offline after birth, reconnected, rebirth already honoured, request while unbirthed then reconnect) x device configuration (0-2 devices, every enabled subset) x cooldown (0, longer than the run, 5000 ms with wall offsets cooldown-1 / cooldown) x 10 payload classes; (D) random histories of 6-30 ops over all op kinds with random metric mixes, unknown devices, non-CMD kinds; (E) the same with SimpleMetricManager managers, registrations between births and metrics addressed by the declared aliases/names; (F) wall clock stepping backwards; (G) 257 reconnects (bdSeq wrap) then a rebirth. Non-trivial = the case contains an NCMD/DCMD with at least one metric; distinct = distinct op sequences (hashed).";

fn rb_hex() -> String {
    hex(srad_types::constants::NODE_CONTROL_REBIRTH.as_bytes())
}

pub const VALUE_SAMPLES: [&str; 15] = [
    "~,~", "bool,1", "bool,0", "int,1", "int,0", "long,1", "float,1065353216", "double,4607182418800017408",
    "str,74727565", "str,-", "bytes,01", "dataset,-", "template,n-", "template,tr", "ext,-",
];

fn cell_metrics() -> Vec<String> {
    let mut v = vec![];
    for name in ["~".to_string(), rb_hex(), "78".to_string()] {
        for alias in ["~", "7"] {
            for val in VALUE_SAMPLES {
                for isnull in ["~", "1", "0"] {
                    v.push(format!("{},{},~,{},{}", name, alias, isnull, val));
                }
            }
        }
    }
    v
}

fn rebirth_candidates() -> Vec<String> {
    let rb = rb_hex();
    vec![
        format!("{},~,~,~,bool,1", rb),
        format!("{},~,~,~,bool,0", rb),
        format!("{},~,~,~,int,1", rb),
        format!("{},3,~,~,bool,1", rb),
        format!("{},~,~,1,~,~", rb),
        "78,~,~,~,bool,1".to_string(),
        "~,~,~,~,bool,1".to_string(),
    ]
}

fn run_case(out: &mut Out, ops: &[String], stat: &str) {
    let mut nontrivial = false;
    for (i, o) in ops.iter().enumerate() {
        let a = exec(o, out);
        if i == 0 {
            out.begin_case(o, &a);
        } else {
            out.line(o, &a);
        }
        let w: Vec<&str> = o.split(' ').collect();
        out.count(&format!("op:{}", w.get(1).unwrap_or(&"?")));
        if (w[1] == "ncmd" && w.len() > 5) || (w[1] == "dcmd" && w.len() > 5) {
            nontrivial = true;
        }
    }
    if nontrivial {
        out.nontrivial();
    }
    out.count(stat);
    drop_session();
}

/// aliases the real crate gives the universe names on the node and on d0..d2 (zero-keyed
/// SipHash: deterministic), obtained from the birth certificates of a scratch node
pub fn alias_table(out: &mut Out) -> Vec<(String, String, u64)> {
    let mut s = Sess::new(0, 1_000_000, 3, true);
    for name in UNIVERSE {
        let r = SReg { name: name.to_string(), alias: true, cb: false, ty: "bool".into() };
        reg_metric(s.node_simple.as_ref().unwrap(), &r, s.log.clone(), None);
        for k in 0..3 {
            reg_metric(s.devs[k].simple.as_ref().unwrap(), &r, s.log.clone(), Some(k));
        }
    }
    let _ = out;
    let mut evs = s.observe(&[], false, |s| {
        s.feeder.push(Event::Online);
    });
    evs.extend(s.observe(&[], false, |s| {
        for d in &s.devs {
            d.handle.enable();
        }
    }));
    let mut t = vec![];
    for e in &evs {
        let (target, p) = match e {
            Ev::NBirth { payload, .. } => ("n".to_string(), payload),
            Ev::DBirth { dev, payload, .. } => (dev.clone(), payload),
            _ => continue,
        };
        for m in &p.metrics {
            if let (Some(n), Some(a)) = (&m.name, m.alias) {
                if UNIVERSE.contains(&n.as_str()) {
                    t.push((target.clone(), n.clone(), a));
                }
            }
        }
    }
    t
}

fn table_tok(t: &[(String, String, u64)]) -> String {
    if t.is_empty() {
        return "_".into();
    }
    t.iter().map(|(tg, n, a)| format!("{}:{}:{}", tg, hex(n.as_bytes()), a)).collect::<Vec<_>>().join(";")
}

fn gen_value(rng: &mut Rng) -> String {
    match rng.below(10) {
        0 => "~,~".into(),
        1 => format!("bool,{}", rng.below(2)),
        2 => format!("int,{}", *rng.pick(&[0u64, 1, 255, 256, 4294967295])),
        3 => format!("long,{}", *rng.pick(&[0u64, 1, 18446744073709551615])),
        4 => format!("str,{}", *rng.pick(&["-", "61", "74727565", "c3a9"])),
        5 => format!("bytes,{}", *rng.pick(&["-", "00ff"])),
        6 => (*rng.pick(&["dataset,-", "template,n-", "template,tr", "ext,-"])).to_string(),
        7 => format!("float,{}", *rng.pick(&[0u64, 1065353216, 2143289344])),
        8 => format!("double,{}", *rng.pick(&[0u64, 9221120237041090560])),
        _ => (*rng.pick(&VALUE_SAMPLES)).to_string(),
    }
}

fn gen_metric(rng: &mut Rng, table: &[(String, String, u64)], target: &str, simple: bool) -> String {
    let rb = rb_hex();
    if simple && rng.chance(3, 5) {
        // address a universe metric of this target by its declared alias or by its name
        let n = *rng.pick(&UNIVERSE);
        let by_alias = rng.chance(1, 2);
        let alias = table.iter().find(|x| x.0 == target && x.1 == n).map(|x| x.2.to_string()).unwrap_or("1".into());
        let (isnull, val) = if rng.chance(1, 4) {
            ("1", "~,~".to_string())
        } else {
            (*rng.pick(&["~", "~", "0", "1"]), match rng.below(8) {
                0 | 1 => format!("bool,{}", rng.below(2)),
                2 | 3 => format!("int,{}", *rng.pick(&[0u64, 7, 255, 300, 4294967295])),
                4 => format!("long,{}", *rng.pick(&[0u64, 9, 18446744073709551615])),
                5 => format!("str,{}", *rng.pick(&["-", "61", "c3a9"])),
                _ => gen_value(rng),
            })
        };
        return format!(
            "{},{},{},{},{}",
            if by_alias && rng.chance(2, 3) { "~".to_string() } else { hex(n.as_bytes()) },
            if by_alias { alias } else { "~".to_string() },
            if rng.chance(1, 3) { rng.below(5).to_string() } else { "~".to_string() },
            isnull,
            val
        );
    }
    let name = match rng.below(20) {
        0..=5 => rb,
        6..=7 => "~".to_string(),
        8..=9 => "78".to_string(),
        10 => "-".to_string(),
        11 => hex(b"node control/rebirth"),
        12 => hex(b"bdSeq"),
        _ => hex(rng.pick(&UNIVERSE).as_bytes()),
    };
    let alias = if rng.chance(1, 3) {
        let mine: Vec<u64> = table.iter().filter(|x| x.0 == target).map(|x| x.2).collect();
        if !mine.is_empty() && rng.chance(3, 4) {
            rng.pick(&mine).to_string()
        } else {
            rng.pick(&[0u64, 1, 7, 18446744073709551615]).to_string()
        }
    } else {
        "~".to_string()
    };
    let ts = if rng.chance(1, 2) { rng.below(5).to_string() } else { "~".to_string() };
    let mut isnull = *rng.pick(&["~", "~", "1", "0"]);
    let mut val = gen_value(rng);
    if rng.chance(1, 4) {
        // an explicit null
        isnull = "1";
        val = "~,~".into();
    }
    format!("{},{},{},{},{}", name, alias, ts, isnull, val)
}

fn gen_payload(rng: &mut Rng, table: &[(String, String, u64)], target: &str, simple: bool) -> String {
    let ts = if rng.chance(1, 8) { "~".to_string() } else { (1000 + rng.below(10)).to_string() };
    let n = match rng.below(10) {
        0 => 0,
        1..=4 => 1,
        5..=7 => 2,
        8 => 3,
        _ => 4 + rng.below(4),
    };
    let mut s = ts;
    for _ in 0..n {
        s.push(' ');
        s.push_str(&gen_metric(rng, table, target, simple));
    }
    s
}

fn gen_kind(rng: &mut Rng) -> &'static str {
    match rng.below(12) {
        0 => "data",
        1 => "birth",
        2 => "death",
        3 => "other",
        _ => "cmd",
    }
}

fn gen_decs(rng: &mut Rng) -> &'static str {
    match rng.below(12) {
        0 => "r",
        1 => "p",
        2 => "a",
        3 => "ap",
        _ => "_",
    }
}

fn session_parked() -> bool {
    SESS.with(|c| c.borrow().as_ref().map(|s| !s.hub.parked_ids().is_empty()).unwrap_or(false))
}

/// one random history; ops are executed as they are generated (the generator looks at whether
/// an NBIRTH is parked to keep online/offline out of that window)
fn random_history(out: &mut Out, rng: &mut Rng, simple: bool, table: &[(String, String, u64)], stat: &str) {
    let ndev = rng.below(4) as usize;
    let ndev = ndev.min(3);
    let cooldown = *rng.pick(&[0u64, 0, 1_000_000_000, 5000]);
    let mut wall = 2_000_000u64;
    let newop = format!("cmd new {} {} {} {} {}", cooldown, wall, ndev, simple as u8, if simple { table_tok(table) } else { "_".into() });
    let a = exec(&newop, out);
    out.begin_case(&newop, &a);
    if rng.chance(1, 4) {
        let a = exec("cmd fullqueue", out);
        out.line("cmd fullqueue", &a);
    }
    let mut nontrivial = false;
    let nops = 6 + rng.below(25);
    let mut birthed_once = false;
    if simple {
        let mut pre = vec![];
        for _ in 0..(2 + rng.below(5)) {
            let t = if ndev > 0 && rng.chance(1, 2) { format!("d{}", rng.below(ndev as u64)) } else { "n".to_string() };
            pre.push(format!("cmd reg {} {} {} {} {}", t, hex(rng.pick(&UNIVERSE).as_bytes()), rng.below(2), if rng.chance(5, 6) { 1 } else { 0 }, rng.pick(&TYPES)));
        }
        if rng.chance(4, 5) {
            for k in 0..ndev {
                if rng.chance(3, 4) {
                    pre.push(format!("cmd enable d{}", k));
                }
            }
            pre.push("cmd online a _".to_string());
            birthed_once = true;
        }
        for op in pre {
            let a = exec(&op, out);
            out.line(&op, &a);
            out.count("op:prelude");
        }
    }
    for i in 0..nops {
        let parked = session_parked();
        let r = rng.below(100);
        let op = if parked {
            match r {
                0..=34 => format!("cmd resolve {} {}", if rng.chance(2, 3) { "a" } else { "r" }, gen_decs(rng)),
                35..=69 => format!("cmd ncmd {} {} {}", gen_decs(rng), gen_kind(rng), gen_payload(rng, table, "n", simple)),
                70..=84 => {
                    let k = rng.below(ndev as u64 + 1);
                    format!("cmd dcmd d{} {} {}", k, gen_kind(rng), gen_payload(rng, table, &format!("d{}", k), simple))
                }
                85..=92 => format!("cmd {} d{}", rng.pick(&["enable", "disable"]), rng.below(ndev as u64 + 1)),
                _ => {
                    wall += *rng.pick(&[0u64, 1, 4999, 5000, 100000]);
                    format!("cmd wall {}", wall)
                }
            }
        } else if i < 3 && !birthed_once && rng.chance(2, 3) {
            birthed_once = true;
            format!("cmd online {} {}", if rng.chance(1, 10) { "r" } else { "a" }, gen_decs(rng))
        } else {
            match r {
                0..=7 => format!("cmd online {} {}", if rng.chance(1, 8) { "r" } else { "a" }, gen_decs(rng)),
                8..=13 => "cmd offline".to_string(),
                14..=23 => format!("cmd {} d{}", rng.pick(&["enable", "enable", "disable"]), rng.below(ndev as u64 + 1)),
                24..=25 => format!("cmd unreg d{}", rng.below(ndev as u64 + 1)),
                26..=35 => {
                    wall += *rng.pick(&[0u64, 1, 4999, 5000, 5001, 100000]);
                    format!("cmd wall {}", wall)
                }
                36..=41 if simple => {
                    let t = if ndev > 0 && rng.chance(1, 2) { format!("d{}", rng.below(ndev as u64)) } else { "n".to_string() };
                    format!(
                        "cmd reg {} {} {} {} {}",
                        t,
                        hex(rng.pick(&UNIVERSE).as_bytes()),
                        rng.below(2),
                        if rng.chance(4, 5) { 1 } else { 0 },
                        rng.pick(&TYPES)
                    )
                }
                36..=75 => format!("cmd ncmd {} {} {}", gen_decs(rng), gen_kind(rng), gen_payload(rng, table, "n", simple)),
                _ => {
                    let k = rng.below(ndev as u64 + 1);
                    format!("cmd dcmd d{} {} {}", k, gen_kind(rng), gen_payload(rng, table, &format!("d{}", k), simple))
                }
            }
        };
        let a = exec(&op, out);
        out.line(&op, &a);
        let w: Vec<&str> = op.split(' ').collect();
        out.count(&format!("op:{}", w[1]));
        if (w[1] == "ncmd" || w[1] == "dcmd") && w.len() > 5 {
            nontrivial = true;
        }
    }
    if nontrivial {
        out.nontrivial();
    }
    out.count(stat);
    drop_session();
}

fn payload_classes() -> Vec<(&'static str, String)> {
    let rb = rb_hex();
    vec![
        ("valid", format!("cmd 1000 {},~,~,~,bool,1", rb)),
        ("no-ts", format!("cmd ~ {},~,~,~,bool,1", rb)),
        ("false", format!("cmd 1000 {},~,~,~,bool,0", rb)),
        ("non-boolean", format!("cmd 1000 {},~,~,~,int,1", rb)),
        ("aliased", format!("cmd 1000 {},5,~,~,bool,1", rb)),
        ("true-then-false", format!("cmd 1000 {},~,~,~,bool,1 {},~,~,~,bool,0", rb, rb)),
        ("false-then-true", format!("cmd 1000 {},~,~,~,bool,0 {},~,~,~,bool,1", rb, rb)),
        ("valid-with-others", format!("cmd 1000 78,~,4,~,int,5 {},~,~,~,bool,1 79,9,~,1,~,~ ~,~,~,~,int,1 7a,~,~,0,~,~", rb)),
        ("data-kind", format!("data 1000 {},~,~,~,bool,1", rb)),
        ("null-flag-on-true", format!("cmd 1000 {},~,~,1,bool,1", rb)),
    ]
}

fn lifecycle_prefixes() -> Vec<(&'static str, Vec<&'static str>)> {
    vec![
        ("offline", vec![]),
        ("sub-rejected", vec!["cmd online r _"]),
        ("nbirth-rejected", vec!["cmd online a r"]),
        ("nbirth-parked", vec!["cmd online a p"]),
        ("birthed", vec!["cmd online a _"]),
        ("offline-after-birth", vec!["cmd online a _", "cmd offline"]),
        ("reconnected", vec!["cmd online a _", "cmd offline", "cmd online a _"]),
        ("rebirth-honoured", vec!["cmd online a _", "cmd ncmd _ cmd 1000 @RB"]),
        ("unbirthed-request-then-reconnect", vec!["cmd online a r", "cmd ncmd _ cmd 1000 @RB", "cmd offline", "cmd online a _"]),
        ("rebirth-nbirth-rejected", vec!["cmd online a _", "cmd ncmd r cmd 1000 @RB"]),
    ]
}

pub fn run(args: &Args, out: &mut Out) -> &'static str {
    install_hook();
    let mut rng = Rng::new(args.seed);
    let th = args.thorough();
    let table = alias_table(out);
    let rbm = format!("{},~,~,~,bool,1", rb_hex());

    // (A) every single-metric cell, as NCMD and as DCMD, on a birthed node with cooldown 0
    {
        let mut ops = vec!["cmd new 0 2000000 2 0 _".to_string(), "cmd enable d0".into(), "cmd online a _".into()];
        for m in cell_metrics() {
            ops.push(format!("cmd ncmd _ cmd 1000 {}", m));
            ops.push(format!("cmd dcmd d1 cmd 1000 {}", m));
        }
        run_case(out, &ops, "A:cells");
        out.exhaustive.push("single-metric cells: name {absent, Node Control/Rebirth, other} x alias {absent, present} x 15 value samples (every metric value variant, absent) x is_null {absent, true, false}, each as NCMD and as DCMD".into());
    }
    // (B) every ordered pair / triple of rebirth candidates
    {
        let c = rebirth_candidates();
        let mut ops = vec!["cmd new 0 2000000 1 0 _".to_string(), "cmd enable d0".into(), "cmd online a _".into()];
        for a in &c {
            for b in &c {
                ops.push(format!("cmd ncmd _ cmd 1000 {} {}", a, b));
                for d in &c {
                    ops.push(format!("cmd ncmd _ cmd 1000 {} {} {}", a, b, d));
                }
            }
        }
        run_case(out, &ops, "B:rebirth-metric-tuples");
        out.exhaustive.push("every ordered pair and triple of 7 rebirth-candidate metrics (true, false, int, aliased true, null, other name true, no name true)".into());
    }
    // (C) lifecycle prefix x devices x cooldown x payload class
    {
        let classes = payload_classes();
        for (pname, prefix) in lifecycle_prefixes() {
            for ndev in 0..=2usize {
                for enabled_mask in 0..(1u32 << ndev) {
                    for enable_first in [true, false] {
                        if ndev == 0 && !enable_first {
                            continue;
                        }
                        for (cd, follow) in [(0u64, vec![0u64]), (1_000_000_000, vec![100_000]), (5000, vec![4999, 5000])] {
                            for (cname, payload) in &classes {
                                if !th && ndev == 2 && !enable_first && cd == 1_000_000_000 {
                                    continue;
                                }
                                for (fo, fq) in follow.iter().flat_map(|f| [(f, false), (f, true)]) {
                                    if fq && !(cd == 0 && enable_first) {
                                        continue;
                                    }
                                    let mut ops = vec![format!("cmd new {} 2000000 {} 0 _", cd, ndev)];
                                    if fq {
                                        ops.push("cmd fullqueue".into());
                                    }
                                    let enables: Vec<String> = (0..ndev).filter(|k| enabled_mask >> k & 1 == 1).map(|k| format!("cmd enable d{}", k)).collect();
                                    if enable_first {
                                        ops.extend(enables.clone());
                                    }
                                    ops.extend(prefix.iter().map(|p| p.replace("@RB", &rbm)));
                                    if !enable_first {
                                        ops.extend(enables.clone());
                                    }
                                    ops.push(format!("cmd ncmd _ {}", payload));
                                    if pname == "nbirth-parked" {
                                        ops.push(format!("cmd resolve {} _", if fo % 2 == 0 { "a" } else { "r" }));
                                    }
                                    ops.push(format!("cmd wall {}", 2_000_000 + fo));
                                    ops.push(format!("cmd ncmd _ cmd 1001 {}", rbm));
                                    if ndev > 0 {
                                        ops.push(format!("cmd dcmd d0 {}", payload));
                                    }
                                    run_case(out, &ops, &format!("C:{}:{}", pname, cname));
                                }
                            }
                        }
                    }
                }
            }
        }
        out.exhaustive.push("10 lifecycle prefixes x device configurations (0-2 devices, every enabled subset, enabled before/after the prefix) x cooldown {0, 10^9 ms, 5000 ms at offsets 4999/5000} x 10 payload classes, each followed by a second valid rebirth request and a DCMD".into());
    }
    // (D) random histories, recording managers
    for _ in 0..(if th { 20000 } else { 1000 }) {
        let mut r = rng.fork();
        random_history(out, &mut r, false, &table, "D:random-rec");
    }
    // (E) random histories, SimpleMetricManager
    for _ in 0..(if th { 20000 } else { 1000 }) {
        let mut r = rng.fork();
        random_history(out, &mut r, true, &table, "E:random-simple");
    }
    // (E2) simple: scripted registration between births
    {
        let tt = table_tok(&table);
        let al = |t: &str, n: &str| table.iter().find(|x| x.0 == t && x.1 == n).map(|x| x.2).unwrap_or(0);
        let ops = vec![
            format!("cmd new 0 2000000 1 1 {}", tt),
            "cmd reg n 6d62 1 1 bool".into(),
            "cmd reg n 6d69 0 1 i32".into(),
            format!("cmd ncmd _ cmd 1000 ~,{},~,~,bool,1 6d69,~,~,~,int,7", al("n", "mb")),
            "cmd online a _".into(),
            format!("cmd ncmd _ cmd 1000 ~,{},~,~,bool,1 6d69,~,~,~,int,7 6d69,~,~,1,~,~ ~,{},~,~,int,3", al("n", "mb"), al("n", "mb")),
            "cmd reg n 6d73 1 1 string".into(),
            format!("cmd ncmd _ cmd 1000 ~,{},~,~,str,61", al("n", "ms")),
            format!("cmd ncmd _ cmd 1000 {} ~,{},~,~,str,61", rbm, al("n", "ms")),
            format!("cmd ncmd _ cmd 1000 ~,{},~,~,str,61 ~,{},3,1,~,~ 6d73,~,~,~,str,62", al("n", "ms"), al("n", "ms")),
            "cmd reg d0 6d75 1 1 u8".into(),
            "cmd enable d0".into(),
            format!("cmd dcmd d0 cmd 1000 ~,{},~,~,int,300 ~,{},~,1,~,~ ~,{},~,~,int,1", al("d0", "mu"), al("d0", "mu"), al("n", "mu")),
            format!("cmd ncmd _ cmd 1000 ~,{},~,~,int,300", al("d0", "mu")),
        ];
        run_case(out, &ops, "E2:simple-scripted");
    }
    // (F) wall clock stepping backwards between two accepted requests
    for cd in [0u64, 5000] {
        let ops = vec![
            format!("cmd new {} 2000000 1 0 _", cd),
            "cmd enable d0".into(),
            "cmd online a _".into(),
            format!("cmd ncmd _ cmd 1000 {}", rbm),
            "cmd wall 1999999".into(),
            format!("cmd ncmd _ cmd 1000 78,~,~,~,int,1 {}", rbm),
            format!("cmd ncmd _ cmd 1000 {}", rbm),
            "cmd dcmd d0 cmd 1000 78,~,~,~,int,1".into(),
            "cmd offline".into(),
            "cmd online a _".into(),
            "cmd disable d0".into(),
        ];
        run_case(out, &ops, "F:clock-backwards");
    }
    // (G) bdSeq wrap
    {
        let mut ops = vec!["cmd new 0 2000000 1 0 _".to_string(), "cmd enable d0".into()];
        for _ in 0..257 {
            ops.push("cmd online a _".into());
            ops.push("cmd offline".into());
        }
        ops.push("cmd online a _".into());
        ops.push(format!("cmd ncmd _ cmd 1000 {}", rbm));
        run_case(out, &ops, "G:bdseq-wrap");
    }
    RULE
}

pub fn replay(_desc: &str, lines: &[String], out: &mut Out) {
    install_hook();
    let mut first = true;
    for l in lines {
        let a = exec(l, out);
        if first {
            out.begin_case(l, &a);
            first = false;
        } else {
            out.line(l, &a);
        }
    }
    drop_session();
}

// ---------- T-table ----------
fn lean_bytes(b: &[u8]) -> String {
    format!("[{}]", b.iter().map(|x| format!("0x{:02x}", x)).collect::<Vec<_>>().join(", "))
}
fn lean_opt_nat(v: Option<u64>) -> String {
    v.map(|x| format!("some {}", x)).unwrap_or("none".into())
}
fn lean_value(tok: &str) -> String {
    let (variant, field) = tok.split_once(',').unwrap();
    match variant {
        "~" => "none".into(),
        "int" | "long" | "float" | "double" => format!("some (PV.{} {})", variant, field),
        "bool" => format!("some (PV.bool {})", if field == "1" { "true" } else { "false" }),
        "str" => format!("some (PV.str {})", lean_bytes(&unhex(field))),
        "bytes" => format!("some (PV.bytes {})", lean_bytes(&unhex(field))),
        "dataset" => "some PV.dataset".into(),
        "ext" => "some PV.ext".into(),
        "template" => {
            let b = field.as_bytes();
            format!(
                "some (PV.template {} {})",
                match b[0] {
                    b'n' => "none",
                    b't' => "(some true)",
                    _ => "(some false)",
                },
                if b[1] == b'r' { "true" } else { "false" }
            )
        }
        _ => panic!(),
    }
}

/// T-table `CmdTable`: for every single-metric cell, what `MessageMetrics` (public API of the
/// compiled crate) yields for it and whether a birthed node with cooldown 0 answers the
/// one-metric NCMD with an NBIRTH (running node, mock client).
pub fn table_cmd() -> String {
    install_hook();
    let mut s = String::from("-- GENERATED by `srad-verif table CmdTable` from the compiled srad-eon; do not edit.\n-- rows: (metric, what MessageMetrics yields for it / does a birthed node with cooldown 0 rebirth on it)\nimport SradModel.Model.Cmd\nnamespace Srad.Generated\nopen Srad.Codec Srad.Cmd\n\ndef cmdTable : List (Metric × Cell) := [\n");
    let mut sess = Sess::new(0, 2_000_000, 0, false);
    sess.observe(&[], false, |s| {
        s.feeder.push(Event::Online);
    });
    let mut rows = vec![];
    let mut cells = vec![];
    for ts in ["~", "9"] {
        for m in cell_metrics() {
            let f: Vec<&str> = m.split(',').collect();
            cells.push(format!("{},{},{},{},{},{}", f[0], f[1], ts, f[3], f[4], f[5]));
        }
    }
    for tok in cells {
        let m = parse_metric(&tok);
        let p = Payload { timestamp: Some(1), metrics: vec![m.clone()], seq: None, uuid: None, body: None };
        let items: Vec<Item> = match MessageMetrics::try_from(p.clone()) {
            Ok(mm) => collect_items(mm),
            Err(_) => vec![],
        };
        let shape = match items.as_slice() {
            [] => "Shape.skipped".to_string(),
            [i] => {
                let by_alias = match (&i.id, &m.alias, &m.name) {
                    (MetricId::Alias(a), Some(b), _) if a == b => Some(true),
                    (MetricId::Name(n), None, Some(n2)) if n == n2 => Some(false),
                    _ => None,
                };
                match by_alias {
                    None => "Shape.wrong".to_string(),
                    Some(b) => {
                        if i.ts != m.timestamp || i.props {
                            "Shape.wrong".to_string()
                        } else if i.value.is_none() {
                            format!("Shape.null {}", b)
                        } else if val_bytes(&i.value) == val_bytes(&m.value) {
                            format!("Shape.value {}", b)
                        } else {
                            "Shape.wrong".to_string()
                        }
                    }
                }
            }
            _ => "Shape.wrong".to_string(),
        };
        let evs = sess.observe(&[], false, |s| {
            s.feeder.push(Event::Node(NodeMessage {
                group_id: GROUP.into(),
                node_id: NODE.into(),
                message: Message { payload: p.clone(), kind: MessageKind::Cmd },
            }));
        });
        let rebirth = evs.iter().any(|e| matches!(e, Ev::NBirth { .. }));
        let name = match &m.name {
            None => "none".to_string(),
            Some(n) if n == srad_types::constants::NODE_CONTROL_REBIRTH => "some rebirthName".to_string(),
            Some(n) => format!("some {}", lean_bytes(n.as_bytes())),
        };
        let f: Vec<&str> = tok.split(',').collect();
        rows.push(format!(
            "  ({{ name := {}, alias := {}, ts := {}, isNull := {}, value := {} }}, {{ shape := {}, rebirth := {} }})",
            name,
            lean_opt_nat(m.alias),
            lean_opt_nat(m.timestamp),
            match m.is_null {
                None => "none",
                Some(true) => "some true",
                Some(false) => "some false",
            },
            lean_value(&format!("{},{}", f[4], f[5])),
            shape,
            rebirth
        ));
    }
    s.push_str(&rows.join(",\n"));
    s.push_str("\n]\n\nend Srad.Generated\n");
    s
}
