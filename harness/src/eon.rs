//! Component `eon` (C01, C02, C03, C04, C20 edge-node half): the real `srad_eon::EoN` (built by
//! `EoNBuilder`, driven through `EoN::run`, `NodeHandle`, `DeviceHandle`) on a paused
//! current-thread runtime with the mock client / mock event loop and recording metric managers.
//! TRACE VALIDATION: every request line carries one stimulus AND what the implementation was
//! observed to do for it until quiescence; the model answers `ok` iff it admits the line, so the
//! implementation-side answer is the literal `ok`.
//!
//!   eon new cd=<cooldown ms> => <obs>       node "n1" in group "g", `EoN::run` spawned, settled
//!   eon stim <stimulus> => <obs>            one stimulus, run to quiescence
//! Stimuli:
//!   online | offline
//!   evs <online|offline> <online|offline> ...   a BURST of connection events: all of them are ready in the
//!                        event loop before any task of srad runs (a connection reported and lost again at once,
//!                        flapping links); for the model: the events appended to the event loop's inbox in order
//!   ncmd rb=<0|1|x> ts=<0|1> [alias=1]
//!   dcmd <d> ts=<0|1>
//!   reg <d> | unreg <d> | enable <d> | disable <d> | drebirth <d>
//!   nrebirth
//!   pub node <try|blk|trysort|blksort> n=<k>
//!   pub dev <d> <try|blk|trysort|blksort> n=<k>
//!   cancel
//!   resolve <callid> <ok|err>
//!   rule <KIND|*> <acc|rej|park> <count>
//!   rule mset <k>        (closed loop only) births register the extra metric `x<k>` from now on, 0 = none
//!   rule props <k>       (closed loop only) metrics carry a property set from now on: k = where + 4 * profile,
//!                        where: 1 = the birth metric `m` of every birth, 2 = every metric of every data publish,
//!                        3 = both; profile 0..=3 = `c12::rich_ups` (0 flat: every property datatype with a value
//!                        and null; 1 nested sets / set lists; 2 twelve levels deep; 3 everything). 0 = none.
//!                        Without effect for the model (a policy line), no observation.
//!   adv <ms>
//!   cbpark <node|d> | cbrelease <node|d>
//! Observations, `;`-joined in trace order (`-` when none):
//!   C<id>:<KIND>[:d=<d>][:seq=<n>][:bd=<n>]:<try|blk>:<acc|rej|park>   client hand-over
//!   R<id>:<ok|err>      late resolution of a parked call
//!   W:bd=<n>            set_last_will          P   poll called        E:<Online|Offline|Node|Device>
//!   U<j>:ok | U<j>:err:<NoMetrics|Offline|UnBirthed|Other> | U<j>:cancelled | U<j>:panic
//!   U:err:<Duplicate|NoDevice|InvalidName>      harness-level / registration errors (no <j>)
//!   CB:ncmd | CB:dcmd:<d>   B:node | B:dev:<d>   X (run returned)   PANIC (a task panicked)
//!
//! Details the model has to know:
//! * Clock: the mock clock (payload timestamps and the cooldown wall clock) reads 1_000_000 ms while
//!   `eon new` runs; every line (incl. `new`) ends with the quiescence barrier, which costs 1 ms;
//!   `adv <ms>` adds <ms> before its barrier (tasks woken by a timer during `adv` still read the old
//!   value). So line i (new = 0) runs at 1_000_000 + i + (sum of earlier adv).
//! * `cbpark x` arms the gate until `cbrelease x`; `CB:` is emitted on every entry of the callback,
//!   armed or not; a callback entered while armed is held until the release.
//! * `pub dev <d>` / `unreg` / `enable` / `disable` / `drebirth` of a device the harness holds no
//!   handle for: `U:err:NoDevice`, nothing is called, no <j> is consumed. `reg` always calls the real
//!   `register_device` (so `Duplicate` is the implementation's answer). After `unreg` the handle is
//!   dropped by the harness (no publishes through stale handles).
//! * `resolve` of a call that is not parked, `rule`, `cbpark` and (mostly) `cbrelease` have no observations.
//! * `dcmd <d>` is pushed whether or not the device exists.
//! * Two things are NOT reproducible from run to run of the same seed, both inside srad/tokio/std:
//!   the order in which `DeviceMap::birth_devices` (a `HashMap` with `RandomState`) notifies >= 2
//!   devices (the order of their DBIRTHs after an NBIRTH), and the unbiased `select!` in `EoN::run`
//!   when the stop signal and a pollable event loop are ready together (a `P`, or `P;E:...`, more or
//!   less before the loop stops). The oracles do not depend on either; a model must admit both.
use crate::common::*;
use crate::mock::*;
use async_trait::async_trait;
use prost::Message as _;
use srad_client::{DeviceMessage, Event, Message, MessageKind, NodeMessage};
use srad_eon::{
    BirthInitializer, BirthMetricDetails, DeviceHandle, DeviceMetricManager, EoNBuilder, MessageMetrics,
    MetricManager, MetricPublisher, MetricToken, NodeHandle, NodeMetricManager, PublishError, PublishMetric,
    StateError,
};
use srad_types::payload::{metric, Metric, Payload};
use std::collections::{BTreeMap, BTreeSet};
use std::panic::AssertUnwindSafe;
use std::sync::atomic::{AtomicBool, AtomicU32, AtomicUsize, Ordering};
use std::sync::{Arc, Mutex, OnceLock};
use std::time::Duration;
use tokio::sync::Notify;

static PANICS: AtomicUsize = AtomicUsize::new(0);
static TOKEN: OnceLock<MetricToken<i64>> = OnceLock::new();
static TOKEN_ID: OnceLock<MetricToken<i64>> = OnceLock::new();

pub fn install_hook() {
    std::panic::set_hook(Box::new(|_| {
        PANICS.fetch_add(1, Ordering::SeqCst);
    }));
}

thread_local! {
    /// id mode (component `loop`): `Some(next)` makes every birth carry a metric `id = <fresh>` and
    /// every publish send `id = <fresh>` as its first metric; `None` (component `eon`) = off
    static IDS: std::cell::Cell<Option<i64>> = const { std::cell::Cell::new(None) };
}

/// switch id mode on (the next fresh id is `first`) or off
pub fn id_mode(first: Option<i64>) {
    IDS.with(|c| c.set(first));
}

thread_local! {
    /// `rule props <k>` (component `loop`): which metrics carry which property set (0 = none)
    static PROPS: std::cell::Cell<u32> = const { std::cell::Cell::new(0) };
}
pub const PROPS_MAX: u32 = 3 + 4 * (crate::c12::RICH_PROFILES - 1);

pub fn set_props(k: u32) {
    assert!(k <= PROPS_MAX, "props {} out of range", k);
    PROPS.with(|c| c.set(k));
}
/// the property set metrics of a birth (`where_` = 1) / of a data publish (2) carry at the moment
fn props_for(where_: u32) -> Option<srad_types::PropertySet> {
    let k = PROPS.with(|c| c.get());
    if k & where_ != 0 {
        Some(crate::c12::rich_props(k / 4))
    } else {
        None
    }
}

fn fresh_id() -> Option<i64> {
    IDS.with(|c| {
        let v = c.get();
        if let Some(x) = v {
            c.set(Some(x + 1));
        }
        v
    })
}

/// A `MetricToken` can only be obtained from a `BirthInitializer`, i.e. during a birth. The
/// harness needs `PublishMetric`s before the node under test was ever birthed, so it births a
/// throw-away node once and keeps the (name-addressed) token.
fn boot_token(name: &'static str) -> MetricToken<i64> {
    struct TokMgr(Arc<Mutex<Option<MetricToken<i64>>>>, &'static str);
    impl MetricManager for TokMgr {
        fn initialise_birth(&self, bi: &mut BirthInitializer) {
            let t = bi
                .register_metric(BirthMetricDetails::new_with_initial_value(self.1, 1i64).use_alias(false))
                .unwrap();
            *self.0.lock().unwrap() = Some(t);
        }
    }
    impl NodeMetricManager for TokMgr {}
    let slot = Arc::new(Mutex::new(None));
    let rt = runtime();
    let s2 = slot.clone();
    rt.block_on(async move {
        let (_hub, client, el, feeder) = mock_pair();
        let (eon, _h) = EoNBuilder::new(el, client)
            .with_group_id("g")
            .with_node_id("boot")
            .with_metric_manager(TokMgr(s2, name))
            .build()
            .unwrap();
        tokio::spawn(eon.run());
        feeder.push(Event::Online);
        settle().await;
    });
    drop(rt);
    let t = slot.lock().unwrap().take().expect("bootstrap token");
    t
}

pub fn token() -> &'static MetricToken<i64> {
    TOKEN.get_or_init(|| boot_token("m"))
}

/// the token of the metric `id` (id mode)
pub fn token_id() -> &'static MetricToken<i64> {
    TOKEN_ID.get_or_init(|| boot_token("id"))
}

pub const MSET_MAX: u32 = 4;
static TOKEN_X: OnceLock<Vec<MetricToken<i64>>> = OnceLock::new();

/// the tokens of the extra metrics `x1` .. `x<MSET_MAX>` (`rule mset <k>`)
pub fn token_x(k: u32) -> &'static MetricToken<i64> {
    const NAMES: [&str; MSET_MAX as usize] = ["x1", "x2", "x3", "x4"];
    &TOKEN_X.get_or_init(|| NAMES.iter().map(|n| boot_token(n)).collect())[(k - 1) as usize]
}

// ------------------------------------------------------------------------------------------
// recording managers
// ------------------------------------------------------------------------------------------

#[derive(Default)]
struct CbCtl {
    park: AtomicBool,
    waiting: AtomicUsize,
    notify: Notify,
}

impl CbCtl {
    async fn gate(&self) {
        while self.park.load(Ordering::SeqCst) {
            self.waiting.fetch_add(1, Ordering::SeqCst);
            self.notify.notified().await;
            self.waiting.fetch_sub(1, Ordering::SeqCst);
        }
    }
    fn release(&self) {
        self.park.store(false, Ordering::SeqCst);
        self.notify.notify_waiters();
    }
}

struct RecMgr {
    hub: Hub,
    dev: Option<u32>,
    ctl: Arc<CbCtl>,
    /// closed loop, `rule mset <k>`: the extra metric `x<k>` every birth from now on registers (0 = none) …
    want: Arc<AtomicU32>,
    /// … and the one this object's latest birth registered
    have: Arc<AtomicU32>,
}

impl MetricManager for RecMgr {
    fn initialise_birth(&self, bi: &mut BirthInitializer) {
        match self.dev {
            None => self.hub.note("B:node"),
            Some(d) => self.hub.note(format!("B:dev:{}", d)),
        }
        if let Some(v) = fresh_id() {
            let _ = bi.register_metric(BirthMetricDetails::new_with_initial_value("id", v).use_alias(false));
        }
        let mut m = BirthMetricDetails::new_with_initial_value("m", 1i64).use_alias(false);
        if let Some(ps) = props_for(1) {
            m = m.with_properties(ps);
        }
        let _ = bi.register_metric(m);
        let k = self.want.load(Ordering::SeqCst);
        self.have.store(k, Ordering::SeqCst);
        if k > 0 {
            let _ = bi.register_metric(BirthMetricDetails::new_with_initial_value(format!("x{}", k), 0i64).use_alias(false));
        }
    }
}

/// component `eon` only: the node's manager rebuilds the template registry on EVERY birth the documented way
/// (`clear()` then `register::<T>()`), so that a second and later birth meets a registry with a history
pub static TEMPLATE_CHURN: AtomicBool = AtomicBool::new(false);

#[async_trait]
impl NodeMetricManager for RecMgr {
    fn birth_update_template_registry(&self, reg: &mut srad_eon::TemplateRegistry) {
        if TEMPLATE_CHURN.load(Ordering::SeqCst) {
            reg.clear();
            let _ = reg.register::<crate::derive::Leaf>();
        }
    }
    async fn on_ncmd(&self, _node: NodeHandle, _metrics: MessageMetrics) {
        self.hub.note("CB:ncmd");
        self.ctl.gate().await;
    }
}

#[async_trait]
impl DeviceMetricManager for RecMgr {
    async fn on_dcmd(&self, _device: DeviceHandle, _metrics: MessageMetrics) {
        self.hub.note(format!("CB:dcmd:{}", self.dev.unwrap_or(0)));
        self.ctl.gate().await;
    }
}

/// notes `<label>:panic` when the task it lives in unwinds
struct Guard {
    hub: Hub,
    label: String,
    done: bool,
}
impl Drop for Guard {
    fn drop(&mut self) {
        if !self.done && std::thread::panicking() {
            self.hub.note(format!("{}:panic", self.label));
        }
    }
}

fn classify(e: &PublishError) -> &'static str {
    #[allow(unreachable_patterns)]
    match e {
        PublishError::NoMetrics => "NoMetrics",
        PublishError::State(StateError::Offline) => "Offline",
        PublishError::State(StateError::UnBirthed) => "UnBirthed",
        _ => "Other",
    }
}

async fn do_pub<P: MetricPublisher>(p: &P, mode: &str, ms: Vec<PublishMetric>) -> Result<(), PublishError> {
    // a one-metric publish in the unsorted modes goes through the single-metric entry points, so that
    // all six publish entry points of `MetricPublisher` are exercised
    if ms.len() == 1 && (mode == "try" || mode == "blk") {
        let m = ms.into_iter().next().unwrap();
        return if mode == "try" { p.try_publish_metric(m).await } else { p.publish_metric(m).await };
    }
    match mode {
        "try" => p.try_publish_metrics_unsorted(ms).await,
        "blk" => p.publish_metrics_unsorted(ms).await,
        "trysort" => p.try_publish_metrics(ms).await,
        "blksort" => p.publish_metrics(ms).await,
        x => panic!("bad publish mode {}", x),
    }
}

type HeldFut = std::pin::Pin<Box<dyn std::future::Future<Output = Result<(), PublishError>> + Send>>;

/// `rule hold <spec>`: the publish future is CREATED now (the trait method is called) but not polled
/// until the matching `pub <spec>` stimulus (or never: `rule drophold <spec>`). An `async fn` body
/// runs at the first poll, so on a correct library a held future has done nothing yet: sequence
/// numbers must be allocated when the message is handed over, not when the future is made.
fn make_pub<P: MetricPublisher + Send + Sync + 'static>(p: P, mode: &str, ms: Vec<PublishMetric>) -> HeldFut {
    let p: &'static P = Box::leak(Box::new(p));
    if ms.len() == 1 && (mode == "try" || mode == "blk") {
        let m = ms.into_iter().next().unwrap();
        return if mode == "try" { Box::pin(p.try_publish_metric(m)) } else { Box::pin(p.publish_metric(m)) };
    }
    match mode {
        "try" => Box::pin(p.try_publish_metrics_unsorted(ms)),
        "blk" => Box::pin(p.publish_metrics_unsorted(ms)),
        "trysort" => Box::pin(p.try_publish_metrics(ms)),
        "blksort" => Box::pin(p.publish_metrics(ms)),
        x => panic!("bad publish mode {}", x),
    }
}

fn metrics(n: usize, xk: u32) -> Vec<PublishMetric> {
    // descending timestamps, so that the sorting variants have something to do
    (0..n)
        .map(|i| {
            let ts = now_ms() + (n - i) as u64;
            let m = match (i, if i == 0 { fresh_id() } else { None }) {
                // id mode: the first metric of every publish is `id = <fresh>`
                (0, Some(v)) => token_id().create_publish_metric(Some(v)).timestamp(ts),
                // `rule mset`: the second metric of a node publish is the extra metric of the node's latest birth
                (1, _) if xk > 0 => token_x(xk).create_publish_metric(Some(i as i64)).timestamp(ts),
                _ => token().create_publish_metric(Some(i as i64)).timestamp(ts),
            };
            // `rule props`: every metric of a data publish carries the property set
            match props_for(2) {
                Some(ps) => m.properties(ps),
                None => m,
            }
        })
        .collect()
}

/// quiescence barrier of one line: `settle()` plus, for the closed loop, `yields` scheduler
/// rounds at the new instant so that a task woken by a timer expiring exactly there (the host's
/// reorder timeout) still runs inside this line, before the mock clocks move on
async fn barrier(yields: usize) {
    tokio::time::sleep(Duration::from_nanos(1)).await;
    for _ in 0..yields {
        tokio::task::yield_now().await;
    }
    advance_clocks(1);
}

fn kv<'a>(w: &'a [&'a str], key: &str) -> Option<&'a str> {
    w.iter().find_map(|t| t.strip_prefix(key).and_then(|r| r.strip_prefix('=')))
}

fn bd_of(p: &Payload) -> Option<u64> {
    p.metrics.iter().find(|m| m.name.as_deref() == Some("bdSeq")).and_then(|m| match m.value {
        Some(metric::Value::LongValue(v)) => Some(v),
        Some(metric::Value::IntValue(v)) => Some(v as u64),
        _ => None,
    })
}

// ------------------------------------------------------------------------------------------
// canonical observations
// ------------------------------------------------------------------------------------------

#[derive(Clone, Debug)]
enum Ev {
    Call { id: usize, kind: Kind, d: Option<u32>, seq: Option<u64>, bd: Option<u64>, is_try: bool, dec: Decision },
    Res { id: usize, ok: bool },
    Will { bd: Option<u64>, seq: Option<u64> },
    Poll,
    Polled(String),
    Note(String),
}

fn dec_name(d: Decision) -> &'static str {
    match d {
        Decision::Accept => "acc",
        Decision::Reject => "rej",
        Decision::Park => "park",
    }
}

impl Ev {
    fn show(&self) -> String {
        match self {
            Ev::Call { id, kind, d, seq, bd, is_try, dec } => {
                let mut s = format!("C{}:{}", id, kind.name());
                if let Some(d) = d {
                    s.push_str(&format!(":d={}", d));
                }
                if let Some(q) = seq {
                    s.push_str(&format!(":seq={}", q));
                }
                if let Some(b) = bd {
                    s.push_str(&format!(":bd={}", b));
                }
                s.push_str(if *is_try { ":try" } else { ":blk" });
                s.push(':');
                s.push_str(dec_name(*dec));
                s
            }
            Ev::Res { id, ok } => format!("R{}:{}", id, if *ok { "ok" } else { "err" }),
            Ev::Will { bd, .. } => match bd {
                Some(b) => format!("W:bd={}", b),
                None => "W:bd=?".into(),
            },
            Ev::Poll => "P".into(),
            Ev::Polled(n) => format!("E:{}", n),
            Ev::Note(s) => s.clone(),
        }
    }
}

fn show_all(evs: &[Ev]) -> String {
    if evs.is_empty() {
        "-".into()
    } else {
        evs.iter().map(|e| e.show()).collect::<Vec<_>>().join(";")
    }
}

// ------------------------------------------------------------------------------------------
// oracles: direct predicates over the recorded trace, written from the property texts
// ------------------------------------------------------------------------------------------

#[derive(Clone, Copy, PartialEq, Debug)]
enum Lc {
    None,
    Pending(usize),
    Ok,
    Rej,
    Death,
}

#[derive(Clone, Debug)]
struct DevO {
    reg: bool,   // user level: registered
    en: bool,    // user level: enabled
    dirty: bool, // a disable / unregister may not have been processed by the device task yet
    /// the name was registered again while its previous incarnation may not have finished all its client
    /// calls (outside C04's quantifier: "a name being re-registered only after its previous incarnation has
    /// finished all client calls"): the per-name clauses of C04 say nothing about this name any more
    tainted: bool,
    ever_reg: bool, // the name has been registered at some point of the case
    lc_conn: Option<bool>, // latest lifecycle hand-over on this connection: Some(true) = DBIRTH
    lc_birth: Lc, // latest lifecycle hand-over within the current node birth
}

impl Default for DevO {
    fn default() -> Self {
        DevO { reg: false, en: false, dirty: false, tainted: false, ever_reg: false, lc_conn: None, lc_birth: Lc::None }
    }
}

/// C04 "exactly when" over a NON-quiescent stretch of lines (a *window*: from a line that starts with every
/// task at rest to the next line that ends so). While a device task is busy (inside a client call the client
/// has not answered, or inside a held `on_dcmd` callback) the application may make any number of
/// enable / disable / rebirth requests through the device's handle; they are requests of ONE caller on ONE
/// handle, so they take effect one after the other, in the order they were made. If during the window the
/// node stays birthed (no connection event, no node rebirth, no cancel) and the device is neither registered
/// nor unregistered, the device's lifecycle hand-overs of the window are therefore determined: walking the
/// requests in order, an `enable` of an unbirthed device hands over one DBIRTH, a `disable` of a birthed one
/// one DDEATH, a `drebirth` of an enabled one one DBIRTH, and nothing else is handed over ("birthed" =
/// the latest DBIRTH was accepted by the client and no DDEATH followed).
#[derive(Clone, Debug, Default)]
struct WinDev {
    valid: bool,
    birthed0: bool,
    en0: bool,
    /// (line, verb) of every request made through the handle, in order
    reqs: Vec<(usize, &'static str)>,
    /// (call id, is DBIRTH, line) of every lifecycle hand-over for the device, in order
    lcs: Vec<(usize, bool, usize)>,
}

#[derive(Clone, Debug)]
struct Win {
    start: usize,
    lines: usize,
    valid: bool,
    devs: BTreeMap<u32, WinDev>,
    /// final answer of the client to every call handed over in the window
    results: BTreeMap<usize, bool>,
}

struct LineCtx<'a> {
    stim: &'a str,
    w: &'a [&'a str],
    evs: &'a [Ev],
    obs: &'a str,
    cur_j: Option<usize>,
    qs: bool,
    qe: bool,
    now: u64,
    /// the event pushed was decoded from real wire bytes (closed loop), not built from the stimulus text
    injected: bool,
}

struct Oracle {
    nline: usize,
    // C01
    expect_first: bool,
    node_ok: bool,
    why: &'static str,
    lost: bool,
    cur_nbirth: Option<usize>,
    nbirths_on_conn: usize,
    // C02
    next_seq: Option<u64>,
    // C03
    wills: usize,
    will_bd: Option<u64>,
    bd_at_online: Option<u64>,
    conn_bd: Option<u64>,
    sub_since_will: bool,
    trigger_since_will: bool,
    offline_pending: Option<bool>, // Some(will seen since the E:Offline)
    /// the event loop has REPORTED a connection (returned `Online` from `poll`) since the latest will was
    /// registered, before any cancel: from that report on the connection is established, whether or not
    /// the node task has got round to it (subscribed) yet
    online_reported: bool,
    // C04
    devs: BTreeMap<u32, DevO>,
    parked: BTreeMap<usize, (Kind, Option<u32>)>,
    /// the current window of lines (None until the first line that starts at rest)
    win: Option<Win>,
    /// at-rest clauses already reported for (device, clause) in this case
    rest_reported: BTreeSet<(u32, u8)>,
    // C20
    cancelled: bool,
    x_seen: bool,
    online_after_cancel: bool,
    online_pending: bool,            // an Online was reported while no connection was established, not yet followed by a SUB
    online_pending_at_cancel: bool,
    clear_since: Option<u64>,
    reported_hang: bool,
    /// the latest connection event the event loop returned from `poll` was an Offline
    polled_offline_last: bool,
    // C15 (component `eon` only: synthetic NCMDs whose content the stimulus names)
    cooldown_ms: u64,
    /// wall time of the last Node Control/Rebirth request that got past the cooldown test (0 = never);
    /// None once a request was handled on a line that did not start and end quiescent
    last_rebirth_req: Option<u64>,
}

impl Oracle {
    fn new() -> Oracle {
        Oracle {
            nline: 0,
            expect_first: false,
            node_ok: false,
            why: "before-nbirth-accepted",
            lost: false,
            cur_nbirth: None,
            nbirths_on_conn: 0,
            next_seq: None,
            wills: 0,
            will_bd: None,
            bd_at_online: None,
            conn_bd: None,
            sub_since_will: false,
            trigger_since_will: false,
            offline_pending: None,
            online_reported: false,
            devs: BTreeMap::new(),
            parked: BTreeMap::new(),
            win: None,
            rest_reported: BTreeSet::new(),
            cancelled: false,
            x_seen: false,
            online_after_cancel: false,
            online_pending: false,
            online_pending_at_cancel: false,
            clear_since: None,
            reported_hang: false,
            polled_offline_last: false,
            cooldown_ms: 0,
            last_rebirth_req: Some(0),
        }
    }

    fn nbirth_resolved(&mut self, ok: bool) {
        if ok {
            self.node_ok = !self.lost;
            if self.lost {
                self.why = "after-loss";
            }
        } else {
            self.node_ok = false;
            self.why = "before-nbirth-accepted";
        }
    }

    /// the per-device walk of a window (see `Win`)
    fn check_window(&self, win: &Win, here: &str, out: &mut Out) {
        for (d, wd) in &win.devs {
            if !wd.valid || self.devs.get(d).map(|x| x.tainted).unwrap_or(true) {
                continue;
            }
            if wd.reqs.is_empty() && wd.lcs.is_empty() {
                continue;
            }
            out.count("oracle:C04-window-walked");
            out.count_n("oracle:C04-window-requests", wd.reqs.len() as u64);
            let show_lcs = |upto: usize| -> String {
                let v: Vec<String> = wd.lcs.iter().take(upto).map(|(id, b, _)| format!("{}{}", if *b { "DBIRTH#" } else { "DDEATH#" }, id)).collect();
                if v.len() > 12 {
                    format!("{} .. {} ({} in all)", v[..4].join(","), v[v.len() - 4..].join(","), v.len())
                } else {
                    v.join(",")
                }
            };
            let (mut birthed, mut en, mut k) = (wd.birthed0, wd.en0, 0usize);
            let mut bad = false;
            for (i, (ln, verb)) in wd.reqs.iter().enumerate() {
                let expect: Option<bool> = match *verb {
                    "enable" => {
                        en = true;
                        if !birthed { Some(true) } else { None }
                    }
                    "disable" => {
                        en = false;
                        if birthed { Some(false) } else { None }
                    }
                    _ => {
                        if en { Some(true) } else { None }
                    }
                };
                if let Some(is_birth) = expect {
                    match wd.lcs.get(k) {
                        Some((id, got, _)) if *got == is_birth => {
                            k += 1;
                            birthed = is_birth && win.results.get(id).copied().unwrap_or(false);
                        }
                        other => {
                            let what = match other {
                                None => format!("the device's lifecycle hand-overs of the window end after {} ({})", k, show_lcs(k)),
                                Some((id, got, l2)) => format!("the next one is {}#{} (line {})", if *got { "DBIRTH" } else { "DDEATH" }, id, l2),
                            };
                            out.fail(
                                if is_birth { "C04:dbirth-exactly-when" } else { "C04:ddeath-exactly-when" },
                                &format!("burst:{}", verb),
                                format!(
                                    "device {}: lines {}..{} (node birthed throughout, device {} and {} at the start), request {} of {} through its handle (`{} {}`, line {}) finds the device {} and must hand over a {}, but {}; {}",
                                    d, win.start, win.start + win.lines - 1,
                                    if wd.en0 { "enabled" } else { "disabled" }, if wd.birthed0 { "birthed" } else { "not birthed" },
                                    i + 1, wd.reqs.len(), verb, d, ln,
                                    if is_birth { if *verb == "enable" { "not birthed" } else { "enabled" } } else { "birthed" },
                                    if is_birth { "DBIRTH" } else { "DDEATH" }, what, here
                                ),
                            );
                            bad = true;
                            break;
                        }
                    }
                }
            }
            if !bad && k < wd.lcs.len() {
                let (id, got, l2) = wd.lcs[k];
                out.fail(
                    if got { "C04:dbirth-exactly-when" } else { "C04:ddeath-exactly-when" },
                    "burst:unrequested",
                    format!(
                        "device {}: lines {}..{} (node birthed throughout), the {} requests through its handle account for {} lifecycle hand-over(s), {}#{} (line {}) is one more; {}",
                        d, win.start, win.start + win.lines - 1, wd.reqs.len(), k, if got { "DBIRTH" } else { "DDEATH" }, id, l2, here
                    ),
                );
            }
        }
    }

    fn line(&mut self, c: &LineCtx, out: &mut Out) {
        self.nline += 1;
        let w = c.w;
        let verb = w[0];
        let here = format!("line {}: `{}` => {}", self.nline, c.stim, c.obs);
        let has_note = |s: &str| c.evs.iter().any(|e| matches!(e, Ev::Note(n) if n == s));
        let nodev = has_note("U:err:NoDevice");
        let node_ok0 = self.node_ok;
        let why0 = self.why;
        let x0 = self.x_seen;
        let cancelled0 = self.cancelled;
        let online_after_cancel0 = self.online_after_cancel;
        let devs0 = self.devs.clone();
        let dnum = |i: usize| w.get(i).and_then(|s| s.parse::<u32>().ok());
        // ---- C04 window bookkeeping (see `Win`): a line that starts with every task at rest opens a new window
        if c.qs {
            let mut wd = BTreeMap::new();
            for (d, dv) in &devs0 {
                wd.insert(*d, WinDev { valid: dv.reg && !dv.tainted && !dv.dirty, birthed0: dv.lc_birth == Lc::Ok, en0: dv.en, reqs: vec![], lcs: vec![] });
            }
            self.win = Some(Win { start: self.nline, lines: 0, valid: node_ok0 && !cancelled0 && !x0, devs: wd, results: BTreeMap::new() });
        }
        if let Some(win) = self.win.as_mut() {
            win.lines += 1;
            match verb {
                "enable" | "disable" | "drebirth" => {
                    if let (false, Some(d)) = (nodev, dnum(1)) {
                        let v: &'static str = match verb {
                            "enable" => "enable",
                            "disable" => "disable",
                            _ => "drebirth",
                        };
                        win.devs.entry(d).or_default().reqs.push((self.nline, v));
                    }
                }
                // the incarnation behind the name changes: the per-device walk says nothing about it
                "reg" | "unreg" => {
                    if let Some(d) = dnum(1) {
                        win.devs.entry(d).or_default().valid = false;
                    }
                }
                // no effect on any lifecycle: publishes, client policies and answers, callback gates, DCMDs, time
                "pub" | "rule" | "resolve" | "cbpark" | "cbrelease" | "dcmd" | "adv" => {}
                // connection events, node rebirths (manual / NCMD), cancel, new: the node does not simply stay birthed
                _ => win.valid = false,
            }
        }
        // ---- the stimulus at user level
        let mut first_cancel = false;
        match verb {
            "reg" => {
                if !has_note("U:err:Duplicate") && !has_note("U:err:InvalidName") {
                    let d = self.devs.entry(dnum(1).unwrap()).or_default();
                    if d.dirty || !c.qs {
                        d.tainted = true;
                        out.count("oracle:C04-name-reused-while-previous-incarnation-live");
                    }
                    d.reg = true;
                    d.ever_reg = true;
                    d.en = false;
                }
            }
            "unreg" if !nodev => {
                let d = self.devs.entry(dnum(1).unwrap()).or_default();
                d.reg = false;
                d.en = false;
                if !c.qs {
                    d.dirty = true;
                }
            }
            "enable" if !nodev => {
                self.devs.entry(dnum(1).unwrap()).or_default().en = true;
            }
            "disable" if !nodev => {
                let d = self.devs.entry(dnum(1).unwrap()).or_default();
                d.en = false;
                if !c.qs {
                    d.dirty = true;
                }
            }
            "cancel" => {
                if !x0 {
                    first_cancel = !self.cancelled;
                    if first_cancel {
                        self.online_pending_at_cancel = self.online_pending;
                    }
                    self.cancelled = true;
                    self.trigger_since_will = true;
                }
            }
            _ => {}
        }
        // publish stimulus of this line
        let pubinfo: Option<(Option<u32>, &str, usize)> = if verb == "pub" && !nodev {
            if w[1] == "node" {
                Some((None, w[2], kv(w, "n").unwrap().parse().unwrap()))
            } else {
                Some((dnum(2), w[3], kv(w, "n").unwrap().parse().unwrap()))
            }
        } else {
            None
        };
        let is_try_mode = |m: &str| m == "try" || m == "trysort";
        // ---- scan
        let mut data_calls_of_pub = 0usize;
        let mut cancel_shape: Vec<Kind> = vec![];
        let mut nbirth_in_line = false;
        let mut db_count: BTreeMap<u32, u32> = BTreeMap::new();
        let mut dd_count: BTreeMap<u32, u32> = BTreeMap::new();
        let mut my_result: Option<String> = None;
        for e in c.evs {
            match e {
                Ev::Call { id, kind, d, seq, bd, is_try, dec } => {
                    if self.x_seen && !self.online_after_cancel && *kind != Kind::Disconnect {
                        let f = if self.online_pending_at_cancel { "online-queued-at-cancel" } else { kind.name() };
                        out.fail("C20:nothing-emitted-after-stop", f, format!("{} handed over after the run loop returned; {}", e.show(), here));
                    }
                    match kind {
                        Kind::Subscribe => {
                            self.expect_first = true;
                            self.online_pending = false;
                            self.node_ok = false;
                            self.why = "before-nbirth-accepted";
                            self.lost = false;
                            self.conn_bd = self.bd_at_online;
                            self.sub_since_will = true;
                            self.nbirths_on_conn = 0;
                            self.cur_nbirth = None;
                            for dv in self.devs.values_mut() {
                                dv.lc_conn = None;
                            }
                        }
                        Kind::NBirth => {
                            self.expect_first = false;
                            self.node_ok = false;
                            self.why = "birth-in-flight";
                            self.cur_nbirth = Some(*id);
                            nbirth_in_line = true;
                            if *seq != Some(0) {
                                out.fail("C02:nbirth-seq-0", "NBIRTH", format!("{}; {}", e.show(), here));
                            }
                            self.next_seq = Some(1);
                            if bd.is_none() || *bd != self.conn_bd {
                                out.fail(
                                    "C03:nbirth-bdseq-is-connection-will",
                                    if self.nbirths_on_conn == 0 { "birth" } else { "rebirth" },
                                    format!("{} but the will registered when the connection was reported carried bdSeq {:?}; {}", e.show(), self.conn_bd, here),
                                );
                            }
                            self.nbirths_on_conn += 1;
                            for dv in self.devs.values_mut() {
                                dv.lc_birth = Lc::None;
                            }
                            match dec {
                                Decision::Accept => self.nbirth_resolved(true),
                                Decision::Reject => self.nbirth_resolved(false),
                                Decision::Park => {}
                            }
                        }
                        Kind::NData | Kind::DBirth | Kind::DData | Kind::DDeath => {
                            if self.expect_first {
                                self.expect_first = false;
                                out.fail("C01:first-after-subscribe-is-nbirth", kind.name(), format!("{}; {}", e.show(), here));
                            }
                            if !self.node_ok {
                                out.fail("C01:no-data-unless-nbirth-accepted", &format!("{}:{}", kind.name(), self.why), format!("{}; {}", e.show(), here));
                            }
                            match (self.next_seq, seq) {
                                (Some(x), Some(s)) if x == *s => self.next_seq = Some((x + 1) % 256),
                                (exp, got) => {
                                    out.fail(
                                        "C02:consecutive-seq",
                                        if exp.is_none() { "no-nbirth-yet" } else { kind.name() },
                                        format!("{} carries seq {:?}, expected {:?}; {}", e.show(), got, exp, here),
                                    );
                                    self.next_seq = got.map(|s| (s + 1) % 256);
                                }
                            }
                            if let Some(dn) = d {
                                let dv = self.devs.entry(*dn).or_default();
                                match kind {
                                    Kind::DBirth => {
                                        *db_count.entry(*dn).or_insert(0) += 1;
                                        // `dirty` excuses a DBIRTH that an earlier request of the same handle, still
                                        // queued in front of a `disable` the device task has not got to yet, asked for.
                                        // It excuses nothing for an UNREGISTERED name: `unregister_device` has returned
                                        // (the stimulus awaits it before anything else runs), so whatever was announced
                                        // to the device before - a node birth or rebirth, an enable, a device rebirth
                                        // still waiting in its queues behind a busy task - is void from then on:
                                        // "never [a DBIRTH] for a disabled or unregistered device". (A name registered
                                        // again while its previous incarnation was live is outside the quantifier:
                                        // `tainted`.)
                                        if !dv.tainted && !dv.reg {
                                            out.fail(
                                                "C04:dbirth-only-enabled-registered",
                                                if dv.dirty { "unregistered:announced-before-unregister" } else { "unregistered" },
                                                format!(
                                                    "{} is a DBIRTH for device {}, which the application {}; {}",
                                                    e.show(), dn,
                                                    if dv.ever_reg { "unregistered before this hand-over (unregister_device had returned) and has not registered again" } else { "never registered" },
                                                    here
                                                ),
                                            );
                                        } else if !dv.dirty && !dv.tainted && !dv.en {
                                            out.fail(
                                                "C04:dbirth-only-enabled-registered",
                                                "disabled",
                                                format!("{}; {}", e.show(), here),
                                            );
                                        }
                                        dv.lc_conn = Some(true);
                                        dv.lc_birth = match dec {
                                            Decision::Accept => Lc::Ok,
                                            Decision::Reject => Lc::Rej,
                                            Decision::Park => Lc::Pending(*id),
                                        };
                                    }
                                    Kind::DDeath => {
                                        *dd_count.entry(*dn).or_insert(0) += 1;
                                        if dv.lc_conn != Some(true) && !dv.tainted {
                                            out.fail(
                                                "C04:ddeath-only-after-dbirth",
                                                if dv.lc_conn.is_none() { "no-dbirth-on-connection" } else { "after-ddeath" },
                                                format!("{}; {}", e.show(), here),
                                            );
                                        }
                                        dv.lc_conn = Some(false);
                                        dv.lc_birth = Lc::Death;
                                    }
                                    Kind::DData => {
                                        if dv.lc_birth != Lc::Ok && !dv.tainted {
                                            let f = match dv.lc_birth {
                                                Lc::None => "before-dbirth-of-this-node-birth",
                                                Lc::Pending(_) => "dbirth-not-yet-accepted",
                                                Lc::Rej => "dbirth-rejected",
                                                Lc::Death => "after-ddeath",
                                                Lc::Ok => unreachable!(),
                                            };
                                            out.fail("C04:ddata-needs-accepted-dbirth", f, format!("{}; {}", e.show(), here));
                                        }
                                    }
                                    _ => {}
                                }
                            } else if *kind != Kind::NData {
                                out.fail("EON:device-topic", kind.name(), format!("{} without device id; {}", e.show(), here));
                            }
                            if let Some((pd, mode, _)) = pubinfo {
                                let mine = (pd.is_none() && *kind == Kind::NData) || (pd.is_some() && *kind == Kind::DData && *d == pd);
                                if mine {
                                    data_calls_of_pub += 1;
                                    if is_try_mode(mode) && !*is_try {
                                        out.fail(
                                            "C20:try-uses-nonblocking-client-call",
                                            &format!("{}:{}", mode, if pd.is_none() { "node" } else { "dev" }),
                                            format!("{} is a blocking client call; {}", e.show(), here),
                                        );
                                    }
                                }
                            }
                        }
                        Kind::NDeath => {
                            if seq.is_some() {
                                out.fail("C02:ndeath-has-no-seq", "explicit", format!("{}; {}", e.show(), here));
                            }
                            if verb == "cancel" {
                                cancel_shape.push(Kind::NDeath);
                                if !*is_try {
                                    out.fail("C20:cancel-uses-nonblocking-client-call", "NDEATH", format!("{}; {}", e.show(), here));
                                }
                                if bd.is_none() || *bd != self.will_bd {
                                    out.fail("C03:cancel-ndeath-carries-will-bdseq", "cancel", format!("{} but the registered will carries {:?}; {}", e.show(), self.will_bd, here));
                                }
                            } else {
                                out.fail("C20:ndeath-only-from-cancel", verb, format!("{}; {}", e.show(), here));
                            }
                        }
                        Kind::Disconnect => {
                            if verb == "cancel" {
                                cancel_shape.push(Kind::Disconnect);
                            }
                        }
                        _ => out.fail("EON:unexpected-client-call", kind.name(), format!("{}; {}", e.show(), here)),
                    }
                    if *dec == Decision::Park {
                        self.parked.insert(*id, (kind.clone(), *d));
                    }
                    if let Some(win) = self.win.as_mut() {
                        match dec {
                            Decision::Accept => {
                                win.results.insert(*id, true);
                            }
                            Decision::Reject => {
                                win.results.insert(*id, false);
                            }
                            Decision::Park => {}
                        }
                        match kind {
                            Kind::DBirth | Kind::DDeath => {
                                if let Some(dn) = d {
                                    win.devs.entry(*dn).or_default().lcs.push((*id, *kind == Kind::DBirth, self.nline));
                                }
                            }
                            Kind::DData | Kind::NData => {}
                            _ => win.valid = false,
                        }
                    }
                }
                Ev::Res { id, ok } => {
                    if let Some(win) = self.win.as_mut() {
                        win.results.insert(*id, *ok);
                    }
                    if let Some((kind, d)) = self.parked.remove(id) {
                        match kind {
                            Kind::NBirth => {
                                if self.cur_nbirth == Some(*id) {
                                    self.nbirth_resolved(*ok);
                                }
                            }
                            Kind::DBirth => {
                                if let Some(dv) = d.and_then(|d| self.devs.get_mut(&d)) {
                                    if dv.lc_birth == Lc::Pending(*id) {
                                        dv.lc_birth = if *ok { Lc::Ok } else { Lc::Rej };
                                    }
                                }
                            }
                            _ => {}
                        }
                    }
                }
                Ev::Will { bd, seq } => {
                    if let Some(win) = self.win.as_mut() {
                        win.valid = false;
                    }
                    self.wills += 1;
                    if seq.is_some() {
                        out.fail("C02:ndeath-has-no-seq", "will", format!("{}; {}", e.show(), here));
                    }
                    if self.wills > 1 {
                        let exp = self.will_bd.map(|b| (b + 1) % 256);
                        if bd.is_none() || *bd != exp {
                            out.fail("C03:new-will-is-old-plus-one", "will", format!("{} after a will with bdSeq {:?}; {}", e.show(), self.will_bd, here));
                        }
                        if !self.sub_since_will {
                            out.fail("C03:bdseq-unchanged-unless-established-connection-lost", "no-connection-established", format!("{}; {}", e.show(), here));
                        } else if !self.trigger_since_will && !(self.cancelled && !self.x_seen) {
                            out.fail("C03:bdseq-unchanged-unless-established-connection-lost", "no-loss", format!("{}; {}", e.show(), here));
                        }
                        // the loss has been processed
                        self.node_ok = false;
                        self.why = "after-loss";
                        self.lost = true;
                        self.sub_since_will = false;
                        self.online_reported = false;
                        self.trigger_since_will = false;
                        if self.offline_pending.is_some() {
                            self.offline_pending = Some(true);
                        }
                    }
                    self.will_bd = *bd;
                }
                Ev::Poll => {
                    if let Some(seen) = self.offline_pending.take() {
                        if !seen && self.sub_since_will {
                            out.fail("C03:new-will-before-next-poll", "offline", format!("the event loop is polled again after an established connection was lost and no new will was registered; {}", here));
                        } else if !seen && self.online_reported && !self.cancelled {
                            // the connection was reported by the event loop (`Online`) and lost (`Offline`) before
                            // the node task had subscribed on it - both events ready together, or the node task busy
                            // (held in `on_ncmd`, waiting for the client). It is an established connection all the
                            // same ("each time an established connection is lost"; the quantifier: "all sequences of
                            // Online/Offline events ... and any client latency"): bdSeq + 1 before the next poll.
                            // Not demanded once a cancel has been requested (the node then ignores a queued Online).
                            out.fail(
                                "C03:new-will-before-next-poll",
                                "offline-before-online-handled",
                                format!(
                                    "the event loop reported a connection (E:Online) and then its loss (E:Offline) before the node task had handled the Online; it is polled again and no new will (bdSeq {:?} + 1) was registered in between; {}",
                                    self.will_bd, here
                                ),
                            );
                        }
                    }
                }
                Ev::Polled(n) => match n.as_str() {
                    "Online" => {
                        if let Some(win) = self.win.as_mut() {
                            win.valid = false;
                        }
                        self.polled_offline_last = false;
                        self.bd_at_online = self.will_bd;
                        if !self.cancelled {
                            self.online_reported = true;
                        }
                        if !self.sub_since_will {
                            self.online_pending = true;
                        }
                        if self.cancelled {
                            self.online_after_cancel = true;
                        }
                    }
                    "Offline" => {
                        if let Some(win) = self.win.as_mut() {
                            win.valid = false;
                        }
                        self.polled_offline_last = true;
                        self.offline_pending = Some(false);
                        self.trigger_since_will = true;
                    }
                    _ => {}
                },
                Ev::Note(s) => {
                    if s == "B:node" || s == "X" || s == "PANIC" || s.ends_with(":panic") {
                        if let Some(win) = self.win.as_mut() {
                            win.valid = false;
                        }
                    }
                    if s == "B:node" {
                        self.node_ok = false;
                        self.why = "birth-in-flight";
                    } else if s == "X" {
                        self.x_seen = true;
                    } else if let Some(j) = c.cur_j {
                        if let Some(r) = s.strip_prefix(&format!("U{}:", j)) {
                            my_result = Some(r.to_string());
                        }
                    }
                }
            }
        }
        // ---- line-level clauses
        if let Some((pd, mode, n)) = pubinfo {
            let tgt = if pd.is_none() { "node" } else { "dev" };
            let res_ok = my_result.as_deref() == Some("ok");
            let res_err = my_result.as_deref().map(|r| r.starts_with("err:")).unwrap_or(false);
            if n == 0 {
                if my_result.as_deref() != Some("err:NoMetrics") || data_calls_of_pub > 0 {
                    out.fail("EON:empty-publish-is-nometrics", tgt, here.clone());
                }
            } else {
                if !node_ok0 && (!res_err || data_calls_of_pub > 0) {
                    out.fail("C01:publish-errs-and-emits-nothing-unless-birthed", &format!("{}:{}", tgt, why0), here.clone());
                }
                if let Some(d) = pd {
                    let lc = devs0.get(&d).map(|x| x.lc_birth).unwrap_or(Lc::None);
                    let tainted = devs0.get(&d).map(|x| x.tainted).unwrap_or(false);
                    if node_ok0 && lc != Lc::Ok && !tainted && (!res_err || data_calls_of_pub > 0) {
                        let f = match lc {
                            Lc::None => "before-dbirth-of-this-node-birth",
                            Lc::Pending(_) => "dbirth-not-yet-accepted",
                            Lc::Rej => "dbirth-rejected",
                            Lc::Death => "after-ddeath",
                            Lc::Ok => unreachable!(),
                        };
                        out.fail("C04:publish-errs-unless-device-birthed", f, here.clone());
                    }
                }
            }
            if x0 && !online_after_cancel0 && (!res_err || data_calls_of_pub > 0) {
                out.fail("C20:publish-fails-after-stop", if self.online_pending_at_cancel { "online-queued-at-cancel" } else { tgt }, here.clone());
            }
            if is_try_mode(mode) && my_result.is_none() {
                out.fail("C20:try-never-waits", &format!("{}:{}", mode, tgt), format!("the call did not return within its stimulus; {}", here));
            }
            let _ = res_ok;
        }
        if verb == "cancel" {
            if x0 {
                if !cancel_shape.is_empty() || my_result.as_deref() != Some("cancelled") {
                    out.fail("C20:cancel-after-stop-is-noop", "cancel", here.clone());
                }
            } else if first_cancel {
                if cancel_shape != vec![Kind::NDeath, Kind::Disconnect] || my_result.as_deref() != Some("cancelled") {
                    out.fail("C20:cancel-ndeath-then-disconnect", "first-cancel", here.clone());
                }
            } else {
                let nd = cancel_shape.iter().filter(|k| **k == Kind::NDeath).count();
                if nd != 1 || cancel_shape.first() != Some(&Kind::NDeath) {
                    out.fail("C20:cancel-ndeath-then-disconnect", "repeated-cancel", here.clone());
                }
            }
        }
        // C15: a valid rebirth request (unaliased Node Control/Rebirth = true, payload timestamp) received
        // by a birthed node outside the cooldown - which only an earlier NCMD request starts - is honoured
        // with an NBIRTH; inside the cooldown, or unbirthed, nothing is born. Decidable on lines that start
        // and end quiescent.
        if verb == "new" {
            self.cooldown_ms = kv(w, "cd").and_then(|x| x.parse().ok()).unwrap_or(0);
        }
        if verb == "ncmd" && !c.injected {
            let valid = kv(w, "rb") == Some("1") && kv(w, "ts") == Some("1") && !w.contains(&"alias=1");
            let handled = has_note("CB:ncmd");
            if !(c.qs && c.qe) || x0 || cancelled0 {
                if valid {
                    self.last_rebirth_req = None;
                }
            } else if let (true, true, Some(last)) = (valid, handled, self.last_rebirth_req) {
                let t = 1_000_000 + c.now - 1; // the wall clock while this line ran (line i runs at 1_000_000 + i + advs)
                let outside = t.saturating_sub(last) >= self.cooldown_ms;
                let nbirths = c.evs.iter().filter(|e| matches!(e, Ev::Call { kind: Kind::NBirth, .. })).count();
                if outside {
                    self.last_rebirth_req = Some(t);
                }
                if outside && node_ok0 && nbirths == 0 {
                    out.fail("C15:rebirth-honoured", "birthed-outside-cooldown", format!("no NBIRTH although the node was birthed and the last honoured request was at {} (cooldown {} ms, now {}); {}", last, self.cooldown_ms, t, here));
                }
                if (!outside || !node_ok0) && nbirths != 0 {
                    out.fail("C15:no-birth", if outside { "unbirthed" } else { "inside-cooldown" }, here.clone());
                }
            }
        }
        // C04 "exactly when": decidable on lines that start and end fully quiescent (nothing
        // parked, no callback held) before any cancel
        // (an `evs` line is several stimuli: a connection can come AND go within it, so the count of one
        // line is not determined by where the line ends; the per-event clauses and the at-rest clauses apply)
        if c.qs && c.qe && !cancelled0 && !self.cancelled && !x0 && verb != "evs" {
            let mut exp_db: BTreeMap<u32, u32> = BTreeMap::new();
            let mut exp_dd: BTreeMap<u32, u32> = BTreeMap::new();
            if !nodev {
                if let Some(d) = dnum(1) {
                    let p = devs0.get(&d).cloned().unwrap_or_default();
                    match verb {
                        "enable" if p.reg => {
                            if node_ok0 && p.lc_birth != Lc::Ok {
                                exp_db.insert(d, 1);
                            }
                        }
                        "drebirth" if p.reg => {
                            if node_ok0 && p.en {
                                exp_db.insert(d, 1);
                            }
                        }
                        "disable" | "unreg" if p.reg => {
                            if node_ok0 && p.lc_birth == Lc::Ok {
                                exp_dd.insert(d, 1);
                            }
                        }
                        _ => {}
                    }
                }
            }
            if nbirth_in_line && self.node_ok {
                for (d, dv) in &self.devs {
                    if dv.reg && dv.en {
                        exp_db.insert(*d, 1);
                    }
                }
            }
            let keys: BTreeSet<u32> = exp_db.keys().chain(exp_dd.keys()).chain(db_count.keys()).chain(dd_count.keys()).cloned().collect();
            for d in keys {
                if self.devs.get(&d).map(|x| x.tainted).unwrap_or(false) {
                    continue;
                }
                let (eb, ed) = (exp_db.get(&d).copied().unwrap_or(0), exp_dd.get(&d).copied().unwrap_or(0));
                let (gb, gd) = (db_count.get(&d).copied().unwrap_or(0), dd_count.get(&d).copied().unwrap_or(0));
                if eb != gb {
                    out.fail("C04:dbirth-exactly-when", verb, format!("device {}: {} DBIRTH(s) expected, {} handed over; {}", d, eb, gb, here));
                }
                if ed != gd {
                    out.fail("C04:ddeath-exactly-when", verb, format!("device {}: {} DDEATH(s) expected, {} handed over; {}", d, ed, gd, here));
                }
            }
        }
        if c.qe {
            for dv in self.devs.values_mut() {
                dv.dirty = false;
            }
            // the event loop's latest connection report was a loss and every task has come to rest with
            // nothing parked: the node has processed that loss, so from here on publishes are refused
            // until an NBIRTH of a new connection is accepted (C01, "after it has processed the loss")
            if self.polled_offline_last && self.node_ok {
                self.node_ok = false;
                self.why = "after-polled-offline-at-rest";
            }
            let live = !cancelled0 && !self.cancelled && !x0 && !self.x_seen;
            // C04 "exactly when" over the window that ends here (single-line windows are the clause above)
            if let Some(win) = self.win.take() {
                if win.valid && win.lines >= 2 && live {
                    self.check_window(&win, &here, out);
                }
            }
            // C04 "exactly when", the state every task has come to rest in: the node is birthed, nothing is
            // parked, no callback is held, every request made so far has had all the time it needs. Whatever
            // the interleaving was, the LAST thing the application asked for stands:
            //  * a device it disabled / unregistered last is not left birthed (its latest lifecycle hand-over of
            //    this node birth is not an accepted DBIRTH): "a DDEATH is published exactly when a birthed
            //    device is disabled or unregistered while the node is birthed";
            //  * a registered device it enabled last is not left without a DBIRTH in this node birth (none at
            //    all, or a DDEATH last): "a DBIRTH is published exactly when it is enabled while the node is
            //    birthed - once after each NBIRTH, on enable". (A DBIRTH the client REJECTED was published;
            //    the property does not ask for a retry.)
            if live && self.node_ok {
                for (d, dv) in &self.devs {
                    if dv.tainted {
                        continue;
                    }
                    if !dv.en && dv.lc_birth == Lc::Ok && self.rest_reported.insert((*d, 0)) {
                        out.fail(
                            "C04:ddeath-exactly-when",
                            if dv.reg { "at-rest:disabled-device-still-birthed" } else { "at-rest:unregistered-device-still-birthed" },
                            format!("device {}: the application's last request was to {} it, the node is birthed and every task is at rest, yet the device's latest lifecycle hand-over of this node birth is an accepted DBIRTH (no DDEATH); {}", d, if dv.reg { "disable" } else { "unregister" }, here),
                        );
                    }
                    if dv.reg && dv.en && matches!(dv.lc_birth, Lc::None | Lc::Death) && self.rest_reported.insert((*d, 1)) {
                        out.fail(
                            "C04:dbirth-exactly-when",
                            "at-rest:enabled-device-not-birthed",
                            format!("device {}: registered, the application's last request was to enable it, the node is birthed and every task is at rest, yet {} of this node birth; {}", d, if dv.lc_birth == Lc::None { "no DBIRTH was handed over for it" } else { "its latest lifecycle hand-over is a DDEATH" }, here),
                        );
                    }
                }
            }
        }
        // C20 termination: bounded time once nothing is outstanding
        if self.cancelled && !self.x_seen {
            if c.qe {
                match self.clear_since {
                    None => self.clear_since = Some(c.now),
                    Some(t) => {
                        // "bounded": the property names no constant; the implementation's own 1 s is the
                        // model's business (trace admission). The direct oracle only calls it a hang after
                        // a generous multiple of it.
                        if c.now - t >= RUN_RETURN_BOUND_MS && !self.reported_hang {
                            self.reported_hang = true;
                            out.fail("C20:run-returns-in-bounded-time", "cancel", format!("no client call or callback outstanding for {} ms of virtual time and `EoN::run` has not returned; {}", c.now - t, here));
                        }
                    }
                }
            } else {
                self.clear_since = None;
            }
        }
    }
}

fn mutate(v: &mut Vec<Ev>, how: &str) {
    match how {
        "dropdbirth" => v.retain(|e| !matches!(e, Ev::Call { kind: Kind::DBirth, id, .. } if id % 7 == 3)),
        "dropddeath" => v.retain(|e| !matches!(e, Ev::Call { kind: Kind::DDeath, id, .. } if id % 3 == 0)),
        "will" => v.retain(|e| !matches!(e, Ev::Will { bd: Some(b), .. } if b % 5 == 2)),
        _ => {}
    }
    for e in v.iter_mut() {
        if let Ev::Call { id, kind, seq, bd, is_try, .. } = e {
            match how {
                "seq" if *id % 17 == 5 => *seq = seq.map(|s| s + 1),
                "bd" if *kind == Kind::NBirth && *id % 5 == 0 => *bd = bd.map(|b| b + 1),
                "ndeathblk" if *kind == Kind::NDeath => *is_try = false,
                "extradata" if *kind == Kind::NBirth && *id % 4 == 0 => *kind = Kind::NData,
                _ => {}
            }
        }
    }
}

// ------------------------------------------------------------------------------------------
// the session
// ------------------------------------------------------------------------------------------

pub struct Sess {
    rt: Option<tokio::runtime::Runtime>,
    hub: Hub,
    feeder: EventFeeder,
    node: NodeHandle,
    devs: BTreeMap<u32, DeviceHandle>,
    node_ctl: Arc<CbCtl>,
    ctls: BTreeMap<u32, Arc<CbCtl>>,
    mark: usize,
    ucount: usize,
    panics: usize,
    vnow: u64,
    cur_j: Option<usize>,
    orc: Oracle,
    pub cancelled: bool,
    /// scheduler rounds after the barrier of each line (0 for component `eon`)
    pub yields: usize,
    /// closed loop: the event to push instead of the one an `ncmd` / `dcmd` stimulus would build
    inject: Option<Event>,
    /// the `eon new …` request line `begin` emitted
    pub first_line: String,
    /// `rule mset <k>`: the extra metric births register from now on / the one the node's latest birth registered
    xwant: Arc<AtomicU32>,
    node_x: Arc<AtomicU32>,
    /// `rule hold <spec>`: publish futures created and not yet polled, by their `pub` spec
    held: Vec<(String, HeldFut)>,
    unreg_count: usize,
}

impl Sess {
    fn build(cd: u64) -> Sess {
        set_props(0);
        let rt = runtime();
        let (hub, client, el, feeder) = mock_pair();
        let node_ctl = Arc::new(CbCtl::default());
        let h2 = hub.clone();
        let c2 = node_ctl.clone();
        let xwant = Arc::new(AtomicU32::new(0));
        let node_x = Arc::new(AtomicU32::new(0));
        let (xw2, nx2) = (xwant.clone(), node_x.clone());
        let node = rt.block_on(async move {
            set_clocks(1_000_000);
            let (eon, node) = EoNBuilder::new(el, client)
                .with_group_id("g")
                .with_node_id("n1")
                .with_rebirth_cmd_cooldown(Duration::from_millis(cd))
                .with_metric_manager(RecMgr { hub: h2.clone(), dev: None, ctl: c2, want: xw2, have: nx2 })
                .build()
                .unwrap();
            let hx = h2.clone();
            tokio::spawn(async move {
                let mut g = Guard { hub: hx.clone(), label: "X".into(), done: false };
                eon.run().await;
                g.done = true;
                hx.note("X");
            });
            settle().await;
            node
        });
        Sess {
            rt: Some(rt),
            hub,
            feeder,
            node,
            devs: BTreeMap::new(),
            node_ctl,
            ctls: BTreeMap::new(),
            mark: 0,
            ucount: 0,
            panics: PANICS.load(Ordering::SeqCst),
            vnow: 1,
            cur_j: None,
            orc: Oracle::new(),
            cancelled: false,
            yields: 0,
            inject: None,
            first_line: String::new(),
            xwant,
            node_x,
            held: vec![],
            unreg_count: 0,
        }
    }

    /// build the node, emit the `eon new` line (which starts a new case) and run the oracles on it
    pub fn begin(out: &mut Out, cd: u64) -> Sess {
        let mut sess = Sess::build(cd);
        let evs = sess.collect();
        let obs = show_all(&evs);
        sess.first_line = format!("eon new cd={} => {}", cd, obs);
        out.begin_case(&sess.first_line, "ok");
        let stim = format!("new cd={}", cd);
        let w: Vec<&str> = stim.split(' ').collect();
        let ctx = LineCtx { stim: &stim, w: &w, evs: &evs, obs: &obs, cur_j: None, qs: true, qe: true, now: sess.vnow, injected: false };
        sess.orc.line(&ctx, out);
        sess
    }

    /// the runtime the node lives on (None after a panic tore it down)
    pub fn rt(&self) -> Option<&tokio::runtime::Runtime> {
        self.rt.as_ref()
    }

    pub fn hub(&self) -> Hub {
        self.hub.clone()
    }

    /// closed loop: execute the stimulus `stim` (an `ncmd …` / `dcmd …` line) but push `ev`, the event
    /// decoded from the real wire bytes, instead of a synthetic one
    pub fn exec_event(&mut self, stim: &str, ev: Event, out: &mut Out) -> String {
        self.inject = Some(ev);
        let r = self.exec(stim, out);
        self.inject = None;
        r
    }

    /// closed loop: `ms` >= 1 milliseconds of mock-clock and virtual time went by outside the node's
    /// lines (deliveries to the host). For the model this is the line `adv <ms-1>` (an `adv k` line
    /// costs k + 1); whatever the node did meanwhile is that line's observation. Returns (stimulus, obs).
    pub fn elapsed(&mut self, ms: u64, out: &mut Out) -> (String, String) {
        let stim = format!("adv {}", ms - 1);
        let qs = self.quiet();
        self.cur_j = None;
        self.vnow += ms;
        let evs = self.collect();
        let obs = show_all(&evs);
        let w: Vec<&str> = stim.split(' ').collect();
        out.count("stim:adv");
        let qe = self.quiet();
        let ctx = LineCtx { stim: &stim, w: &w, evs: &evs, obs: &obs, cur_j: None, qs, qe, now: self.vnow, injected: false };
        self.orc.line(&ctx, out);
        (stim, obs)
    }

    fn ctl(&mut self, d: u32) -> Arc<CbCtl> {
        self.ctls.entry(d).or_default().clone()
    }

    fn ctl_of(&mut self, name: &str) -> Arc<CbCtl> {
        if name == "node" {
            self.node_ctl.clone()
        } else {
            self.ctl(name.parse().unwrap())
        }
    }

    pub fn parked(&self) -> Vec<usize> {
        self.hub.parked_ids()
    }

    /// callbacks currently armed or holding a task: "node" / device numbers
    pub fn armed_callbacks(&self) -> Vec<String> {
        let mut v = vec![];
        if self.node_ctl.park.load(Ordering::SeqCst) {
            v.push("node".to_string());
        }
        for (d, c) in &self.ctls {
            if c.park.load(Ordering::SeqCst) {
                v.push(d.to_string());
            }
        }
        v
    }

    pub fn registered(&self) -> Vec<u32> {
        self.devs.keys().cloned().collect()
    }

    pub fn stopped(&self) -> bool {
        self.orc.x_seen
    }

    fn quiet(&self) -> bool {
        self.hub.parked_ids().is_empty()
            && self.node_ctl.waiting.load(Ordering::SeqCst) == 0
            && self.ctls.values().all(|c| c.waiting.load(Ordering::SeqCst) == 0)
    }

    fn collect(&mut self) -> Vec<Ev> {
        let obs = self.hub.trace_from(self.mark);
        self.mark = self.hub.trace_len();
        let mut v = vec![];
        let mut i = 0;
        while i < obs.len() {
            match &obs[i] {
                Obs::Call(id) => {
                    let c = self.hub.call(*id);
                    let dec = match obs.get(i + 1) {
                        Some(Obs::Resolved(r, ok)) if r == id => {
                            i += 1;
                            if *ok {
                                Decision::Accept
                            } else {
                                Decision::Reject
                            }
                        }
                        _ => Decision::Park,
                    };
                    let d = match c.kind {
                        Kind::DBirth | Kind::DDeath | Kind::DData | Kind::DCmd => {
                            c.topic.rsplit('/').next().and_then(|s| s.strip_prefix('d')).and_then(|s| s.parse::<u32>().ok())
                        }
                        _ => None,
                    };
                    let (seq, bd) = match &c.payload {
                        Some(p) => (p.seq, bd_of(p)),
                        None => (None, None),
                    };
                    v.push(Ev::Call { id: *id, kind: c.kind.clone(), d, seq, bd, is_try: c.is_try, dec });
                }
                Obs::Resolved(id, ok) => v.push(Ev::Res { id: *id, ok: *ok }),
                Obs::SetWill(w) => {
                    let p = Payload::decode(w.payload.as_slice()).ok();
                    v.push(Ev::Will { bd: p.as_ref().and_then(bd_of), seq: p.as_ref().and_then(|p| p.seq) });
                }
                Obs::Poll => v.push(Ev::Poll),
                Obs::Polled(n) => v.push(Ev::Polled(n.split(':').next().unwrap().to_string())),
                Obs::Note(s) => v.push(Ev::Note(s.clone())),
            }
            i += 1;
        }
        // self-test of the oracles: EON_MUTATE=<seq|bd|will|dropdbirth|dropddeath|ndeathblk|extradata> falsifies
        // the recorded observations in a known way (never set in a real run)
        if let Ok(m) = std::env::var("EON_MUTATE") {
            mutate(&mut v, &m);
        }
        let p = PANICS.load(Ordering::SeqCst);
        if p != self.panics {
            self.panics = p;
            v.push(Ev::Note("PANIC".into()));
        }
        v
    }

    fn take_held(&mut self, spec: &str) -> Option<HeldFut> {
        let i = self.held.iter().position(|(s, _)| s == spec)?;
        Some(self.held.remove(i).1)
    }

    /// `rule hold node <mode> n=<k>` / `rule hold dev <d> <mode> n=<k>`
    fn hold(&mut self, w: &[&str]) {
        let spec = w[2..].join(" ");
        let n: usize = kv(w, "n").unwrap().parse().unwrap();
        let f = if w[2] == "node" {
            make_pub(self.node.clone(), w[3], metrics(n, self.node_x.load(Ordering::SeqCst)))
        } else {
            let d: u32 = w[3].parse().unwrap();
            match self.devs.get(&d) {
                Some(h) => make_pub(h.clone(), w[4], metrics(n, 0)),
                None => return,
            }
        };
        self.held.push((spec, f));
    }

    fn spawn_pub_node(&mut self, mode: String, n: usize) {
        let j = self.ucount;
        self.ucount += 1;
        self.cur_j = Some(j);
        let hub = self.hub.clone();
        let h = self.node.clone();
        let xk = self.node_x.load(Ordering::SeqCst);
        let held = self.take_held(&format!("node {} n={}", mode, n));
        tokio::spawn(async move {
            let mut g = Guard { hub: hub.clone(), label: format!("U{}", j), done: false };
            let r = match held {
                Some(f) => f.await,
                None => do_pub(&h, &mode, metrics(n, xk)).await,
            };
            g.done = true;
            hub.note(format!("U{}:{}", j, match r {
                Ok(()) => "ok".to_string(),
                Err(e) => format!("err:{}", classify(&e)),
            }));
        });
    }

    fn spawn_pub_dev(&mut self, d: u32, mode: String, n: usize) {
        let h = match self.devs.get(&d) {
            Some(h) => h.clone(),
            None => {
                self.hub.note("U:err:NoDevice");
                return;
            }
        };
        let j = self.ucount;
        self.ucount += 1;
        self.cur_j = Some(j);
        let hub = self.hub.clone();
        let held = self.take_held(&format!("dev {} {} n={}", d, mode, n));
        tokio::spawn(async move {
            let mut g = Guard { hub: hub.clone(), label: format!("U{}", j), done: false };
            let r = match held {
                Some(f) => f.await,
                None => do_pub(&h, &mode, metrics(n, 0)).await,
            };
            g.done = true;
            hub.note(format!("U{}:{}", j, match r {
                Ok(()) => "ok".to_string(),
                Err(e) => format!("err:{}", classify(&e)),
            }));
        });
    }

    async fn apply(&mut self, w: &[&str]) {
        let flag = |k: &str| kv(w, k);
        match w[0] {
            "online" => {
                self.feeder.push(Event::Online);
            }
            "offline" => {
                self.feeder.push(Event::Offline);
            }
            // a burst of connection events, all ready before any task of srad runs (no await in between)
            "evs" => {
                assert!(w.len() >= 2, "evs needs at least one event");
                for e in &w[1..] {
                    match *e {
                        "online" => self.feeder.push(Event::Online),
                        "offline" => self.feeder.push(Event::Offline),
                        x => panic!("bad event {} in evs", x),
                    };
                }
            }
            "ncmd" | "dcmd" if self.inject.is_some() => {
                let ev = self.inject.take().unwrap();
                self.feeder.push(ev);
            }
            "ncmd" => {
                let mut m = Metric::new();
                match flag("rb").unwrap() {
                    "1" => {
                        m.set_name("Node Control/Rebirth".into());
                        m.set_value(metric::Value::BooleanValue(true));
                    }
                    "0" => {
                        m.set_name("Node Control/Rebirth".into());
                        m.set_value(metric::Value::BooleanValue(false));
                    }
                    "x" => {
                        m.set_name("foo".into());
                        m.set_value(metric::Value::LongValue(1));
                    }
                    x => panic!("bad rb {}", x),
                }
                if flag("alias") == Some("1") {
                    m.set_alias(7);
                }
                let ts = if flag("ts").unwrap() == "1" { Some(now_ms()) } else { None };
                let p = Payload { timestamp: ts, metrics: vec![m], seq: None, uuid: None, body: None };
                self.feeder.push(Event::Node(NodeMessage {
                    group_id: "g".into(),
                    node_id: "n1".into(),
                    message: Message { payload: p, kind: MessageKind::Cmd },
                }));
            }
            "dcmd" => {
                let mut m = Metric::new();
                m.set_name("foo".into());
                m.set_value(metric::Value::LongValue(1));
                let ts = if flag("ts").unwrap() == "1" { Some(now_ms()) } else { None };
                let p = Payload { timestamp: ts, metrics: vec![m], seq: None, uuid: None, body: None };
                self.feeder.push(Event::Device(DeviceMessage {
                    group_id: "g".into(),
                    node_id: "n1".into(),
                    device_id: format!("d{}", w[1]),
                    message: Message { payload: p, kind: MessageKind::Cmd },
                }));
            }
            "reg" => {
                let d: u32 = w[1].parse().unwrap();
                let mgr = RecMgr { hub: self.hub.clone(), dev: Some(d), ctl: self.ctl(d), want: self.xwant.clone(), have: Arc::new(AtomicU32::new(0)) };
                match self.node.register_device(format!("d{}", d), mgr) {
                    Ok(h) => {
                        self.devs.insert(d, h);
                    }
                    Err(e) => {
                        let dbg = format!("{:?}", e);
                        let cls = if dbg.starts_with("DuplicateDevice") { "Duplicate" } else { "InvalidName" };
                        self.hub.note(format!("U:err:{}", cls));
                    }
                }
            }
            "unreg" | "enable" | "disable" | "drebirth" => {
                let d: u32 = w[1].parse().unwrap();
                match self.devs.get(&d) {
                    None => self.hub.note("U:err:NoDevice"),
                    Some(h) => match w[0] {
                        "enable" => h.enable(),
                        "disable" => h.disable(),
                        "drebirth" => h.rebirth(),
                        _ => {
                            // both entry points: by name, and (every other line) by the handle itself
                            self.unreg_count += 1;
                            if self.unreg_count % 2 == 0 {
                                let h = h.clone();
                                self.node.unregister_device(h).await;
                            } else {
                                self.node.unregister_device_named(&format!("d{}", d)).await;
                            }
                            self.devs.remove(&d);
                            // no publishes through the handle of a removed incarnation, held ones included
                            let pre = format!("dev {} ", d);
                            self.held.retain(|(s, _)| !s.starts_with(&pre));
                        }
                    },
                }
            }
            "nrebirth" => self.node.rebirth(),
            "pub" => {
                if w[1] == "node" {
                    let n: usize = flag("n").unwrap().parse().unwrap();
                    self.spawn_pub_node(w[2].to_string(), n);
                } else {
                    let d: u32 = w[2].parse().unwrap();
                    let n: usize = flag("n").unwrap().parse().unwrap();
                    self.spawn_pub_dev(d, w[3].to_string(), n);
                }
            }
            "cancel" => {
                let j = self.ucount;
                self.ucount += 1;
                self.cur_j = Some(j);
                self.cancelled = true;
                let hub = self.hub.clone();
                let h = self.node.clone();
                tokio::spawn(async move {
                    let mut g = Guard { hub: hub.clone(), label: format!("U{}", j), done: false };
                    h.cancel().await;
                    g.done = true;
                    hub.note(format!("U{}:cancelled", j));
                });
            }
            "resolve" => {
                let id: usize = w[1].parse().unwrap();
                let ok = match w[2] {
                    "ok" => true,
                    "err" => false,
                    x => panic!("bad resolution {}", x),
                };
                self.hub.resolve(id, ok);
            }
            // closed loop: from the next birth on the managers register the extra metric `x<k>` (0 = none).
            // A policy line without effect for the model (it is rendered `rule mset <k>`); no observation.
            "rule" if w[1] == "hold" => self.hold(w),
            "rule" if w[1] == "drophold" => {
                let _ = self.take_held(&w[2..].join(" "));
            }
            "rule" if w[1] == "props" => set_props(w[2].parse().unwrap()),
            "rule" if w[1] == "mset" => {
                let k: u32 = w[2].parse().unwrap();
                assert!(k <= MSET_MAX, "mset {} out of range", k);
                self.xwant.store(k, Ordering::SeqCst);
            }
            "rule" => {
                let kind = if w[1] == "*" { None } else { Some(Kind::from_name(w[1]).unwrap_or_else(|| panic!("bad kind {}", w[1]))) };
                let dec = match w[2] {
                    "acc" => Decision::Accept,
                    "rej" => Decision::Reject,
                    "park" => Decision::Park,
                    x => panic!("bad decision {}", x),
                };
                self.hub.rule(kind, dec, w[3].parse().unwrap());
            }
            "adv" => {
                let ms: u64 = w[1].parse().unwrap();
                advance(ms).await;
                self.vnow += ms;
            }
            "cbpark" => self.ctl_of(w[1]).park.store(true, Ordering::SeqCst),
            "cbrelease" => self.ctl_of(w[1]).release(),
            x => panic!("bad eon stimulus {}", x),
        }
    }

    /// execute one stimulus on the real code, run to quiescence; returns the observations
    fn exec_raw(&mut self, stim: &str) -> (Vec<Ev>, bool, bool) {
        let w: Vec<&str> = stim.split(' ').collect();
        let qs = self.quiet();
        self.cur_j = None;
        let rt = match self.rt.take() {
            Some(rt) => rt,
            None => return (vec![Ev::Note("PANIC".into())], qs, qs),
        };
        let yields = self.yields;
        let r = catch(AssertUnwindSafe(|| {
            rt.block_on(async {
                self.apply(&w).await;
                barrier(yields).await;
            })
        }));
        self.vnow += 1;
        let mut evs = self.collect();
        match r {
            Ok(()) => self.rt = Some(rt),
            Err(_) => {
                drop(rt);
                if !evs.iter().any(|e| matches!(e, Ev::Note(n) if n == "PANIC")) {
                    evs.push(Ev::Note("PANIC".into()));
                }
            }
        }
        let qe = self.quiet();
        (evs, qs, qe)
    }

    pub fn exec(&mut self, stim: &str, out: &mut Out) -> String {
        let injected = self.inject.is_some();
        let (evs, qs, qe) = self.exec_raw(stim);
        let obs = show_all(&evs);
        let w: Vec<&str> = stim.split(' ').collect();
        // distribution
        let key = match w[0] {
            "pub" => {
                if w[1] == "node" {
                    format!("stim:pub:node:{}", w[2])
                } else {
                    format!("stim:pub:dev:{}", w[3])
                }
            }
            "ncmd" => format!("stim:ncmd:{}", w[1..].join(",")),
            "rule" if w[1] == "mset" => "stim:rule:mset".to_string(),
            "rule" if w[1] == "props" => "stim:rule:props".to_string(),
            "rule" => format!("stim:rule:{}", w[2]),
            "resolve" => format!("stim:resolve:{}", w[2]),
            "cbpark" | "cbrelease" => format!("stim:{}:{}", w[0], if w[1] == "node" { "node" } else { "dev" }),
            x => format!("stim:{}", x),
        };
        out.count(&key);
        for e in &evs {
            match e {
                Ev::Call { kind, is_try, dec, .. } => {
                    out.count(&format!("call:{}:{}:{}", kind.name(), if *is_try { "try" } else { "blk" }, dec_name(*dec)));
                }
                Ev::Note(n) if n.starts_with('U') => {
                    let cls = n.splitn(2, ':').nth(1).unwrap_or("");
                    out.count(&format!("result:{}", cls));
                }
                Ev::Note(n) if n == "PANIC" => {
                    out.fail("EON:panic", w[0], format!("a task panicked during `{}` => {}", stim, obs));
                }
                Ev::Note(n) if n == "X" => out.count("run-returned"),
                _ => {}
            }
        }
        let ctx = LineCtx { stim, w: &w, evs: &evs, obs: &obs, cur_j: self.cur_j, qs, qe, now: self.vnow, injected };
        self.orc.line(&ctx, out);
        obs
    }
}

// ------------------------------------------------------------------------------------------
// cases
// ------------------------------------------------------------------------------------------

pub struct Case<'a> {
    pub sess: Sess,
    pub out: &'a mut Out,
    nstim: usize,
}

impl<'a> Case<'a> {
    pub fn begin(out: &'a mut Out, cd: u64) -> Case<'a> {
        let sess = Sess::begin(out, cd);
        Case { sess, out, nstim: 0 }
    }

    pub fn stim(&mut self, s: &str) -> String {
        let obs = self.sess.exec(s, self.out);
        self.out.line(&format!("eon stim {} => {}", s, obs), "ok");
        self.nstim += 1;
        if self.nstim >= 2 {
            self.out.nontrivial();
        }
        obs
    }

    /// resolve the oldest parked call; false when nothing is parked (no line is emitted)
    pub fn resolve_oldest(&mut self, ok: bool) -> bool {
        match self.sess.parked().first() {
            Some(id) => {
                self.stim(&format!("resolve {} {}", id, if ok { "ok" } else { "err" }));
                true
            }
            None => false,
        }
    }

    /// release every held callback and resolve (ok) everything parked, until nothing is left
    pub fn drain(&mut self) {
        for _ in 0..200 {
            let cbs = self.sess.armed_callbacks();
            let parked = self.sess.parked();
            if cbs.is_empty() && parked.is_empty() {
                break;
            }
            for c in cbs {
                self.stim(&format!("cbrelease {}", c));
            }
            for id in self.sess.parked() {
                self.stim(&format!("resolve {} ok", id));
            }
        }
    }

    pub fn finish(mut self) {
        self.drain();
        if self.sess.cancelled && !self.sess.stopped() {
            self.stim("adv 1100");
            self.drain();
        }
        if self.sess.cancelled && !self.sess.stopped() {
            // still running: give it the whole bound before the direct oracle calls it a hang
            self.stim(&format!("adv {}", RUN_RETURN_BOUND_MS));
            self.drain();
        }
        if self.sess.cancelled {
            self.out.count("case:cancelled");
            if self.sess.stopped() {
                self.out.count("case:cancelled:run-returned");
            }
        }
        // the Lean driver evaluates the property scanners of Model/EonSpec (the predicates the
        // C01-C04/C20 theorems are stated with) on the observed trace of the whole case
        self.out.line("eon verdict", "ok");
    }
}

// ------------------------------------------------------------------------------------------
// generators
// ------------------------------------------------------------------------------------------

fn scripted(out: &mut Out) {
    let run = |out: &mut Out, cd: u64, name: &str, steps: &[&str]| {
        let mut c = Case::begin(out, cd);
        for s in steps {
            if let Some(rest) = s.strip_prefix("resolve-oldest ") {
                c.resolve_oldest(rest == "ok");
            } else {
                c.stim(s);
            }
        }
        c.out.count(&format!("scripted:{}", name));
        c.out.count("case:scripted");
        c.finish();
    };
    // plain lifecycle of a node and a device, graceful stop
    run(out, 0, "lifecycle", &[
        "online", "reg 1", "enable 1", "pub node blk n=1", "pub dev 1 try n=2", "pub node blksort n=3", "pub dev 1 blksort n=1",
        "disable 1", "pub dev 1 try n=1", "enable 1", "drebirth 1", "reg 2", "enable 2", "nrebirth", "unreg 1", "reg 1", "reg 1",
        "offline", "pub node try n=1", "online", "cancel", "adv 1100", "pub node try n=1", "pub dev 2 blk n=1", "cancel",
    ]);
    // C01: nothing before the NBIRTH is accepted, while a rebirth is in flight, after the loss
    run(out, 0, "c01-gates", &[
        "pub node try n=1", "pub node blk n=0", "reg 1", "enable 1", "pub dev 1 try n=1", "rule NBIRTH park 1", "online",
        "pub node try n=1", "pub dev 1 blk n=1", "resolve-oldest ok", "pub node try n=1", "pub dev 1 try n=1",
        "rule NBIRTH park 1", "nrebirth", "pub node blk n=1", "pub dev 1 blk n=1", "resolve-oldest ok", "pub dev 1 try n=1",
        "offline", "pub node blk n=1", "pub dev 1 blk n=1", "enable 1", "drebirth 1", "disable 1",
    ]);
    // failed subscribe, failed NBIRTH (initial and rebirth), the node stays silent
    run(out, 0, "c01-failed-births", &[
        "rule SUB rej 1", "online", "pub node try n=1", "offline", "rule NBIRTH rej 1", "online", "pub node try n=1", "nrebirth",
        "ncmd rb=1 ts=1", "offline", "online", "pub node try n=1", "rule NBIRTH rej 1", "nrebirth", "pub node try n=1",
        "reg 1", "enable 1", "pub dev 1 try n=1", "offline", "online", "pub dev 1 try n=1",
    ]);
    // C02: numbering is by hand-over, whatever the client answers and whoever publishes
    run(out, 0, "c02-numbering", &[
        "online", "reg 1", "enable 1", "reg 2", "enable 2", "rule NDATA rej 2", "pub node blk n=1", "pub node try n=1", "pub dev 1 try n=1",
        "rule DDATA park 2", "pub dev 1 blk n=1", "pub dev 2 blk n=1", "pub node try n=1", "resolve-oldest err", "resolve-oldest ok",
        "rule * rej 3", "pub node try n=1", "disable 2", "drebirth 1", "pub node blk n=1", "nrebirth", "pub node try n=1",
    ]);
    // C02: a sequence number is taken when the message is handed over, not when the publish future is
    // made: futures created early (`rule hold`), polled late or never, interleaved with other publishers
    run(out, 0, "c02-held-futures", &[
        "online", "reg 1", "enable 1", "rule hold node blk n=2", "pub dev 1 try n=1", "pub node blk n=2", "rule hold node try n=1",
        "rule hold dev 1 blk n=1", "pub node trysort n=2", "pub dev 1 blk n=1", "pub node try n=1", "rule hold node blksort n=3",
        "rule drophold node blksort n=3", "pub dev 1 try n=1", "rule hold dev 1 trysort n=2", "rule drophold dev 1 trysort n=2",
        "pub node blk n=1", "rule hold node blk n=1", "nrebirth", "pub node blk n=1", "rule hold dev 1 try n=1", "offline", "online",
        "pub dev 1 try n=1", "pub node try n=1",
    ]);
    // C03: wills and bdSeq
    run(out, 0, "c03-bdseq", &[
        "offline", "offline", "online", "online", "nrebirth", "ncmd rb=1 ts=1", "offline", "offline", "online", "rule SUB rej 1",
        "offline", "online", "offline", "rule NBIRTH rej 1", "online", "offline", "online", "cancel", "adv 1100",
    ]);
    // C04 suspected defect: the device's birthed flag survives the start of a node rebirth
    run(out, 0, "c04-flag-survives-node-rebirth", &[
        "online", "reg 1", "enable 1", "cbpark 1", "dcmd 1 ts=1", "nrebirth", "pub dev 1 try n=1", "cbrelease 1", "pub dev 1 try n=1",
    ]);
    // the same through an NCMD rebirth, and a disable while the flag is stale
    run(out, 0, "c04-flag-survives-ncmd-rebirth", &[
        "online", "reg 1", "enable 1", "cbpark 1", "dcmd 1 ts=1", "ncmd rb=1 ts=1", "pub dev 1 blk n=1", "disable 1", "cbrelease 1",
    ]);
    // a device unregistered while its task is held: its DDEATH comes out on a later connection
    run(out, 0, "c04-late-ddeath-after-reconnect", &[
        "online", "reg 1", "enable 1", "cbpark 1", "dcmd 1 ts=1", "unreg 1", "offline", "online", "cbrelease 1",
    ]);
    // device lifecycle corner cases
    run(out, 0, "c04-lifecycle", &[
        "reg 1", "enable 1", "online", "enable 1", "disable 1", "disable 1", "drebirth 1", "enable 1", "rule DBIRTH rej 1", "drebirth 1",
        "pub dev 1 try n=1", "enable 1", "pub dev 1 try n=1", "rule DBIRTH park 1", "drebirth 1", "pub dev 1 try n=1", "resolve-oldest ok",
        "pub dev 1 try n=1", "rule DDEATH rej 1", "disable 1", "enable 1", "unreg 1", "enable 1", "pub dev 1 try n=1", "reg 1", "dcmd 1 ts=0",
        "dcmd 1 ts=1", "dcmd 3 ts=1", "unreg 3",
    ]);
    // C20: try variants never wait, not even while every blocking call parks
    run(out, 0, "c20-try-variants", &[
        "online", "reg 1", "enable 1", "rule * park 8", "pub node try n=1", "pub node trysort n=2", "pub dev 1 try n=1", "pub dev 1 trysort n=2",
        "pub node blk n=1", "pub dev 1 blksort n=2",
    ]);
    // C20: cancel variants
    run(out, 0, "c20-cancel-online", &["online", "reg 1", "enable 1", "cancel", "offline", "pub node try n=1", "pub dev 1 try n=1", "nrebirth", "enable 1"]);
    run(out, 0, "c20-cancel-no-offline", &["online", "pub node try n=1", "cancel", "pub node try n=1", "adv 500", "adv 600", "pub node blk n=1"]);
    run(out, 0, "c20-cancel-offline", &["cancel", "pub node try n=1", "online"]);
    run(out, 0, "c20-cancel-mid-birth", &["rule NBIRTH park 1", "online", "offline", "cancel", "cancel", "cancel", "resolve-oldest ok", "adv 1100"]);
    run(out, 0, "c20-cancel-parked-publishes", &[
        "online", "reg 1", "enable 1", "rule NDATA park 1", "pub node blk n=1", "rule DDATA park 1", "pub dev 1 blk n=1", "cancel", "adv 1100",
        "resolve-oldest ok", "resolve-oldest err",
    ]);
    run(out, 0, "c20-cancel-in-callback", &["online", "cbpark node", "ncmd rb=1 ts=1", "offline", "cancel", "adv 1100", "cbrelease node", "adv 1100"]);
    // an Online reported before the cancel but still queued for the (held) node task
    run(out, 0, "c20-online-queued-at-cancel", &[
        "cbpark node", "ncmd rb=x ts=1", "online", "cancel", "cbrelease node", "adv 1100", "pub node try n=1", "reg 1", "enable 1", "pub dev 1 blk n=1",
    ]);
    run(out, 0, "c20-cancel-then-online", &["online", "cancel", "online", "pub node try n=1", "adv 1100", "pub node try n=1"]);
    // NCMD decoding and the rebirth cooldown
    run(out, 5000, "ncmd-cooldown", &[
        "online", "ncmd rb=0 ts=1", "ncmd rb=x ts=1", "ncmd rb=1 ts=0", "ncmd rb=1 ts=1 alias=1", "ncmd rb=1 ts=1", "ncmd rb=1 ts=1", "adv 6000",
        "ncmd rb=1 ts=1", "nrebirth",
    ]);
    // only an NCMD request starts the cooldown: a manual rebirth (application call) does not
    run(out, 5000, "ncmd-cooldown-manual-rebirth", &[
        "online", "reg 1", "enable 1", "nrebirth", "ncmd rb=1 ts=1", "nrebirth", "ncmd rb=1 ts=1", "adv 6000", "nrebirth", "ncmd rb=1 ts=1",
        "offline", "online", "adv 6000", "nrebirth", "drebirth 1", "ncmd rb=1 ts=1",
    ]);
    run(out, 1_000_000_000, "ncmd-cooldown-huge", &["online", "ncmd rb=1 ts=1", "adv 6000", "ncmd rb=1 ts=1", "nrebirth"]);
    // C04 across MANY node births: a device task held in its callback with its birthed flag set while the
    // node goes through 256 (and one more) births - whatever identifies "the node birth the DBIRTH belongs
    // to" must not come round again: the DDATA is refused until the device's DBIRTH of the CURRENT birth
    {
        let mut steps: Vec<String> = ["online", "reg 1", "enable 1", "reg 2", "enable 2", "cbpark 1", "dcmd 1 ts=1"].iter().map(|s| s.to_string()).collect();
        for k in 0..257 {
            steps.push(if k % 2 == 0 { "nrebirth".into() } else { "ncmd rb=1 ts=1".into() });
            if k == 255 || k == 256 {
                steps.push("pub dev 1 try n=1".into());
                steps.push("pub dev 2 try n=1".into());
            }
        }
        steps.push("disable 1".into());
        steps.push("cbrelease 1".into());
        steps.push("pub dev 1 try n=1".into());
        let refs: Vec<&str> = steps.iter().map(|s| s.as_str()).collect();
        run(out, 0, "c04-256-node-births-behind-a-held-device", &refs);
    }
    // C04 request bursts: the application makes MANY enable / disable / rebirth requests through one handle
    // while the device task cannot get to them (its DBIRTH / DDEATH is waiting for the client, or its `on_dcmd`
    // callback is held); once the task is free every request takes effect, in order, and the last one stands -
    // also for the next node rebirth, a later publish and a later enable
    {
        let toggles = |n: usize, last: &str| -> Vec<String> {
            let mut v = vec![];
            for _ in 0..n {
                v.push("disable 1".to_string());
                v.push("enable 1".to_string());
            }
            v.push(last.to_string());
            v
        };
        let go = |out: &mut Out, name: &str, pre: &[&str], burst: Vec<String>, post: &[&str]| {
            let mut steps: Vec<String> = pre.iter().map(|s| s.to_string()).collect();
            steps.extend(burst);
            steps.extend(post.iter().map(|s| s.to_string()));
            let refs: Vec<&str> = steps.iter().map(|s| s.as_str()).collect();
            run(out, 0, name, &refs);
        };
        let after = ["resolve-oldest ok", "pub dev 1 try n=1", "nrebirth", "pub dev 1 try n=1", "enable 1", "pub dev 1 try n=1", "disable 1"];
        // the exact shape of a toggling application: 2, 8 and 20 toggles behind a parked DBIRTH, left disabled
        for n in [2usize, 8, 20] {
            go(out, &format!("c04-toggle-burst-behind-parked-dbirth-{}", n), &["online", "reg 1", "rule DBIRTH park 1", "enable 1"], toggles(n, "disable 1"), &after);
        }
        // ... left enabled; behind a parked DDEATH; behind a held callback
        go(out, "c04-toggle-burst-behind-parked-dbirth-left-enabled", &["online", "reg 1", "rule DBIRTH park 1", "enable 1"], toggles(20, "enable 1"), &after);
        go(out, "c04-toggle-burst-behind-parked-ddeath", &["online", "reg 1", "enable 1", "rule DDEATH park 1", "disable 1"], toggles(20, "enable 1"), &after);
        go(out, "c04-toggle-burst-behind-held-callback", &["online", "reg 1", "enable 1", "cbpark 1", "dcmd 1 ts=1"], toggles(20, "disable 1"), &["cbrelease 1", "pub dev 1 try n=1", "nrebirth", "pub dev 1 try n=1", "enable 1"]);
        // every explicit rebirth is a DBIRTH: 24 of them behind a parked DBIRTH, then a disable
        go(out, "c04-rebirth-burst-behind-parked-dbirth", &["online", "reg 1", "rule DBIRTH park 1", "enable 1"], (0..24).map(|_| "drebirth 1".to_string()).chain(["disable 1".to_string()]).collect(), &after);
        // requests of an application that never toggles: the same request many times over
        go(out, "c04-repeated-disable-behind-parked-dbirth", &["online", "reg 1", "rule DBIRTH park 1", "enable 1"], (0..30).map(|_| "disable 1".to_string()).collect(), &after);
        go(out, "c04-repeated-enable-behind-parked-ddeath", &["online", "reg 1", "enable 1", "rule DDEATH park 1", "disable 1"], (0..30).map(|_| "enable 1".to_string()).collect(), &after);
        // a burst that ends in the unregistration of the device (the removal overtakes what is still queued)
        go(out, "c04-toggle-burst-then-unregister", &["online", "reg 1", "reg 2", "enable 2", "rule DBIRTH park 1", "enable 1"], toggles(20, "enable 1"), &["unreg 1", "resolve-oldest ok", "nrebirth", "reg 1", "enable 1", "pub dev 1 try n=1"]);
        // a burst while the NODE's birth is waiting for the client (nothing can be published yet): the last
        // request decides whether the device is part of that birth
        go(out, "c04-toggle-burst-behind-parked-nbirth", &["reg 1", "enable 1", "reg 2", "enable 2", "rule NBIRTH park 1", "online"], toggles(20, "disable 1"), &["resolve-oldest ok", "pub dev 1 try n=1", "pub dev 2 try n=1", "nrebirth"]);
        // a burst while the node task is held in `on_ncmd` (the device tasks are free)
        go(out, "c04-toggle-burst-behind-held-ncmd-callback", &["online", "reg 1", "enable 1", "cbpark node", "ncmd rb=x ts=1"], toggles(20, "disable 1"), &["cbrelease node", "pub dev 1 try n=1", "nrebirth"]);
        // a very long one
        go(out, "c04-toggle-burst-behind-parked-dbirth-330", &["online", "reg 1", "rule DBIRTH park 1", "enable 1"], toggles(165, "disable 1"), &after);
    }
    // C04 "never for an unregistered device": something that asks the device for a DBIRTH - a node rebirth
    // (manual / NCMD), a reconnect, a device rebirth, an enable - is announced to a device whose task is BUSY
    // (held in `on_dcmd`, or inside a DBIRTH the client has not answered), the application unregisters the
    // device before the task gets back to its queues, then the task is let go: no DBIRTH may come out
    run(out, 0, "c04-unregister-behind-held-callback-after-node-rebirth", &[
        "online", "reg 1", "enable 1", "reg 2", "enable 2", "cbpark 1", "dcmd 1 ts=1", "nrebirth", "unreg 1", "cbrelease 1",
        "pub dev 1 try n=1", "pub dev 2 try n=1", "nrebirth", "reg 1", "enable 1", "pub dev 1 try n=1",
    ]);
    run(out, 0, "c04-unregister-behind-held-callback-after-ncmd-rebirth", &[
        "online", "reg 1", "enable 1", "cbpark 1", "dcmd 1 ts=1", "ncmd rb=1 ts=1", "ncmd rb=1 ts=1", "unreg 1", "nrebirth", "cbrelease 1",
        "reg 1", "enable 1", "pub dev 1 try n=1",
    ]);
    run(out, 0, "c04-unregister-behind-parked-dbirth-after-node-rebirth", &[
        "online", "reg 1", "rule DBIRTH park 1", "enable 1", "nrebirth", "unreg 1", "resolve-oldest ok", "nrebirth", "reg 1", "enable 1",
        "pub dev 1 try n=1",
    ]);
    run(out, 0, "c04-unregister-behind-held-callback-after-reconnect", &[
        "online", "reg 1", "enable 1", "cbpark 1", "dcmd 1 ts=1", "offline", "online", "nrebirth", "unreg 1", "cbrelease 1", "reg 1", "enable 1",
    ]);
    run(out, 0, "c04-unregister-behind-held-callback-after-handle-requests", &[
        "online", "reg 1", "enable 1", "cbpark 1", "dcmd 1 ts=1", "drebirth 1", "disable 1", "enable 1", "nrebirth", "drebirth 1", "unreg 1",
        "cbrelease 1", "nrebirth",
    ]);
    // C03: a connection that is reported and lost again before the node task has handled its Online - both
    // events ready when the event loop polls (`evs`), or the node task busy (held in `on_ncmd`) - is an
    // established connection that was lost: will bdSeq + 1 before the next poll, and the NBIRTH of the next
    // connection carries it
    run(out, 0, "c03-connection-lost-before-online-handled", &[
        "evs online offline", "online", "pub node try n=1", "offline", "evs online offline online", "nrebirth", "pub node try n=1",
        "evs offline online", "evs offline offline online online offline", "evs offline", "evs online", "evs offline online offline",
        "online", "pub node try n=1", "cancel", "adv 1100",
    ]);
    run(out, 0, "c03-connection-lost-behind-held-ncmd-callback", &[
        "cbpark node", "ncmd rb=x ts=1", "online", "offline", "cbrelease node", "online", "pub node try n=1", "offline",
        "cbpark node", "ncmd rb=x ts=1", "evs online offline online", "cbrelease node", "pub node try n=1", "evs offline online offline",
        "online", "pub node try n=1",
    ]);
    run(out, 0, "c03-connection-bursts-with-failed-subscribe-and-birth", &[
        "rule SUB rej 1", "evs online offline", "rule NBIRTH rej 1", "evs online offline", "rule SUB park 1", "evs online offline online",
        "resolve-oldest ok", "rule NBIRTH park 1", "evs offline online offline", "resolve-oldest err", "online", "pub node try n=1",
    ]);
    // a held node callback blocks the node's state progression: events queue up behind it
    run(out, 0, "held-ncmd-callback", &[
        "online", "reg 1", "enable 1", "cbpark node", "ncmd rb=x ts=1", "nrebirth", "pub node try n=1", "offline", "pub node try n=1", "online",
        "cbrelease node", "pub node try n=1",
    ]);
}

const ALPHABET: usize = 14;
const SYM_NAMES: [&str; ALPHABET] = [
    "online", "offline", "pub node try n=1", "pub node blk n=1", "reg 1 + enable 1", "disable 1", "pub dev 1 try n=1", "nrebirth",
    "ncmd rb=1 ts=1", "rule NBIRTH park 1", "rule NBIRTH rej 1", "resolve <oldest parked> ok", "resolve <oldest parked> err", "cancel",
];

fn apply_sym(c: &mut Case, s: usize) {
    match s {
        4 => {
            c.stim("reg 1");
            c.stim("enable 1");
        }
        11 => {
            c.resolve_oldest(true);
        }
        12 => {
            c.resolve_oldest(false);
        }
        _ => {
            c.stim(SYM_NAMES[s]);
        }
    }
}

fn exhaustive(out: &mut Out, maxlen: usize) {
    for prefix in 0..2 {
        for len in 0..=maxlen {
            let mut idx = vec![0usize; len];
            loop {
                let mut c = Case::begin(out, 0);
                if prefix == 1 {
                    c.stim("online");
                    c.stim("reg 1");
                    c.stim("enable 1");
                }
                for &s in &idx {
                    apply_sym(&mut c, s);
                }
                c.out.count(if prefix == 0 { "case:exhaustive:fresh" } else { "case:exhaustive:birthed" });
                c.finish();
                let mut k = 0;
                loop {
                    if k == len {
                        break;
                    }
                    idx[k] += 1;
                    if idx[k] < ALPHABET {
                        break;
                    }
                    idx[k] = 0;
                    k += 1;
                }
                if k == len {
                    break;
                }
            }
        }
    }
    out.exhaustive.push(format!(
        "all stimulus sequences of length 0..={} over the {}-symbol alphabet {:?}, from a fresh node and from a node birthed with device 1 birthed",
        maxlen, ALPHABET, SYM_NAMES
    ));
}

const MODES: [&str; 4] = ["try", "blk", "trysort", "blksort"];
/// how long (virtual ms, nothing outstanding) the run loop may take to return after a cancel before the
/// direct oracle `C20:run-returns-in-bounded-time` fires
const RUN_RETURN_BOUND_MS: u64 = 10_000;
const KINDS: [&str; 9] = ["SUB", "NBIRTH", "NDEATH", "NDATA", "DBIRTH", "DDEATH", "DDATA", "DISCONNECT", "*"];

fn random_case(out: &mut Out, rng: &mut Rng) {
    let cd = *rng.pick(&[0u64, 0, 0, 5000, 1_000_000_000]);
    let ndev = rng.range(1, 3) as u32;
    let len = rng.range(20, 200);
    // per-case temperament
    let faulty = rng.below(3); // 0: client mostly accepts, 2: many rules
    let cancel_at = if rng.chance(1, 2) { Some(rng.below(len)) } else { None };
    let mut c = Case::begin(out, cd);
    for d in 1..=ndev {
        if rng.chance(2, 3) {
            c.stim(&format!("reg {}", d));
            if rng.chance(3, 4) {
                c.stim(&format!("enable {}", d));
            }
        }
    }
    if rng.chance(3, 4) {
        c.stim("online");
    } else {
        c.stim("offline");
    }
    let mut after_cancel = 0u64;
    let mut k = 0;
    // publish futures made early (`rule hold <spec>`), to be polled by a later `pub <spec>` or dropped
    let mut pending: Vec<String> = vec![];
    while k < len {
        k += 1;
        if !pending.is_empty() && rng.chance(1, 6) {
            let spec = pending.remove(rng.below(pending.len() as u64) as usize);
            if rng.chance(4, 5) {
                c.stim(&format!("pub {}", spec));
            } else {
                c.stim(&format!("rule drophold {}", spec));
            }
            continue;
        }
        if Some(k) == cancel_at && !c.sess.cancelled {
            c.stim("cancel");
            match rng.below(3) {
                0 => {
                    c.drain();
                    c.stim("adv 1100");
                }
                1 => {
                    c.stim("offline");
                    c.stim("adv 1100");
                }
                _ => {
                    c.stim("adv 1100");
                }
            }
            continue;
        }
        if c.sess.cancelled {
            after_cancel += 1;
            if after_cancel > 12 {
                break;
            }
        }
        let d = rng.range(1, ndev as u64);
        // mostly a registered device; sometimes any of the case's devices, rarely a foreign one
        let regd = c.sess.registered();
        let dd = if rng.chance(1, 30) {
            4
        } else if !regd.is_empty() && rng.chance(4, 5) {
            *rng.pick(&regd) as u64
        } else {
            d
        };
        let n = *rng.pick(&[0u64, 1, 1, 1, 2, 3]);
        let r = rng.below(100);
        let s: String = match r {
            0..=6 => "online".into(),
            7..=11 => "offline".into(),
            12..=25 => format!("pub node {} n={}", rng.pick(&MODES), n),
            26..=39 => format!("pub dev {} {} n={}", dd, rng.pick(&MODES), n),
            40..=44 => {
                if regd.contains(&(d as u32)) && rng.chance(3, 4) {
                    continue;
                }
                format!("reg {}", d)
            }
            45..=46 => format!("unreg {}", dd),
            47..=52 => format!("enable {}", dd),
            53..=55 => format!("disable {}", dd),
            56..=58 => format!("drebirth {}", dd),
            59..=62 => "nrebirth".into(),
            63..=67 => {
                let rb = *rng.pick(&["1", "1", "1", "0", "x"]);
                let ts = if rng.chance(5, 6) { 1 } else { 0 };
                if rng.chance(1, 8) {
                    format!("ncmd rb={} ts={} alias=1", rb, ts)
                } else {
                    format!("ncmd rb={} ts={}", rb, ts)
                }
            }
            68..=70 => format!("dcmd {} ts={}", dd, if rng.chance(5, 6) { 1 } else { 0 }),
            71..=78 => {
                if faulty == 0 && rng.chance(2, 3) {
                    continue;
                }
                let kind = *rng.pick(&KINDS);
                let dec = *rng.pick(&["acc", "rej", "park", "park"]);
                format!("rule {} {} {}", kind, dec, rng.range(1, if faulty == 2 { 4 } else { 2 }))
            }
            79..=90 => {
                let p = c.sess.parked();
                if p.is_empty() {
                    continue;
                }
                format!("resolve {} {}", rng.pick(&p), if rng.chance(3, 4) { "ok" } else { "err" })
            }
            91..=93 => format!("adv {}", rng.pick(&[1u64, 10, 500, 1100, 6000])),
            94..=95 => format!("cbpark {}", if rng.chance(1, 3) { "node".to_string() } else { d.to_string() }),
            _ => {
                let a = c.sess.armed_callbacks();
                if a.is_empty() {
                    continue;
                }
                format!("cbrelease {}", rng.pick(&a))
            }
        };
        if let Some(spec) = s.strip_prefix("pub ") {
            if rng.chance(1, 6) && !pending.iter().any(|p| p == spec) {
                c.stim(&format!("rule hold {}", spec));
                pending.push(spec.to_string());
                c.out.count("held-future");
                continue;
            }
        }
        c.stim(&s);
    }
    for spec in pending {
        c.stim(&format!("rule drophold {}", spec));
    }
    c.out.count("case:random");
    c.finish();
}

/// one connection, many publishes from the node and its devices: seq wraps
fn long_seq_case(out: &mut Out, rng: &mut Rng, publishes: u64) {
    let mut c = Case::begin(out, 0);
    c.stim("online");
    for d in 1..=3 {
        c.stim(&format!("reg {}", d));
        c.stim(&format!("enable {}", d));
    }
    let mut done = 0;
    while done < publishes {
        match rng.below(40) {
            0 => {
                c.stim(&format!("rule {} rej 1", rng.pick(&["NDATA", "DDATA"])));
            }
            1 => {
                c.stim(&format!("rule {} park 1", rng.pick(&["NDATA", "DDATA"])));
            }
            2 => {
                let p = c.sess.parked();
                if !p.is_empty() {
                    c.stim(&format!("resolve {} {}", rng.pick(&p), if rng.chance(3, 4) { "ok" } else { "err" }));
                }
            }
            3 => {
                let d = rng.range(1, 3);
                c.stim(&format!("{} {}", rng.pick(&["drebirth", "disable", "enable"]), d));
            }
            _ => {
                let mode = *rng.pick(&MODES);
                let spec = if rng.chance(1, 2) {
                    format!("node {} n={}", mode, rng.range(1, 3))
                } else {
                    format!("dev {} {} n={}", rng.range(1, 3), mode, rng.range(1, 3))
                };
                if rng.chance(1, 25) {
                    // the future is made now, another publisher goes first, then it is polled (or dropped)
                    c.stim(&format!("rule hold {}", spec));
                    c.stim(&format!("pub dev {} try n=1", rng.range(1, 3)));
                    done += 1;
                    if rng.chance(1, 4) {
                        c.stim(&format!("rule drophold {}", spec));
                        continue;
                    }
                }
                c.stim(&format!("pub {}", spec));
                done += 1;
            }
        }
    }
    c.out.count("case:long-seq");
    c.finish();
}

/// many sessions of one node: bdSeq wraps
fn long_bdseq_case(out: &mut Out, rng: &mut Rng, sessions: u64) {
    let mut c = Case::begin(out, 0);
    c.stim("reg 1");
    c.stim("enable 1");
    for _ in 0..sessions {
        match rng.below(12) {
            0 => {
                c.stim("rule SUB rej 1");
            }
            1 => {
                c.stim("rule NBIRTH rej 1");
            }
            2 => {
                c.stim("offline");
            }
            _ => {}
        }
        c.stim("online");
        match rng.below(8) {
            0 => {
                c.stim("online");
            }
            1 => {
                c.stim("nrebirth");
            }
            2 => {
                c.stim("pub node try n=1");
            }
            3 => {
                c.stim("pub dev 1 blk n=1");
            }
            4 => {
                c.stim("ncmd rb=1 ts=1");
            }
            _ => {}
        }
        c.stim("offline");
    }
    c.stim("online");
    c.stim("cancel");
    c.out.count("case:long-bdseq");
    c.finish();
}

/// (d) request bursts: long runs of enable / disable / rebirth (and a final unregister) requests through
/// device handles, made while a device task or the node task is held up - in a client call the client has not
/// answered (DBIRTH, DDEATH, NBIRTH), or in a held `on_dcmd` / `on_ncmd` callback - then everything is released.
/// Mostly one device, strictly toggling or random requests, now and then a publish, a DCMD, a node rebirth or
/// a connection loss in the middle of the burst.
fn burst_case(out: &mut Out, rng: &mut Rng, size: u64) {
    let mut c = Case::begin(out, 0);
    let ndev = rng.range(1, 3);
    let hold = rng.below(7);
    if hold == 4 && rng.chance(1, 2) {
        c.stim("rule NBIRTH park 1");
    }
    c.stim("online");
    for d in 1..=ndev {
        c.stim(&format!("reg {}", d));
        if rng.chance(2, 3) {
            c.stim(&format!("enable {}", d));
        }
    }
    let t = rng.range(1, ndev);
    c.out.count(&format!("burst:hold:{}", ["dbirth", "ddeath", "dcmd-callback", "ncmd-callback", "nbirth", "dbirths-of-node-rebirth", "none"][hold as usize]));
    match hold {
        0 => {
            c.stim(&format!("rule DBIRTH park {}", rng.range(1, 2)));
            c.stim(&format!("{} {}", rng.pick(&["enable", "enable", "drebirth"]), t));
        }
        1 => {
            c.stim("rule DDEATH park 1");
            c.stim(&format!("enable {}", t));
            c.stim(&format!("disable {}", t));
        }
        2 => {
            c.stim(&format!("cbpark {}", t));
            c.stim(&format!("dcmd {} ts=1", t));
        }
        3 => {
            c.stim("cbpark node");
            c.stim(&format!("ncmd rb={} ts=1", rng.pick(&["x", "1"])));
        }
        4 => {
            if c.sess.parked().is_empty() {
                c.stim("rule NBIRTH park 1");
                c.stim("nrebirth");
            }
        }
        5 => {
            c.stim(&format!("rule DBIRTH park {}", ndev));
            c.stim("nrebirth");
        }
        _ => {}
    }
    let alternate = rng.chance(1, 2);
    let mid = if rng.chance(1, 3) { Some(rng.below(size)) } else { None };
    let mut next_on = rng.chance(1, 2);
    for i in 0..size {
        let d = if rng.chance(5, 6) { t } else { rng.range(1, ndev) };
        let v = if alternate && d == t {
            next_on = !next_on;
            if next_on { "enable" } else { "disable" }
        } else {
            *rng.pick(&["enable", "disable", "enable", "disable", "drebirth"])
        };
        c.stim(&format!("{} {}", v, d));
        if rng.chance(1, 20) {
            c.stim(&format!("pub dev {} {} n=1", d, rng.pick(&MODES)));
        }
        if rng.chance(1, 50) {
            c.stim(&format!("dcmd {} ts=1", d));
        }
        if Some(i) == mid {
            c.out.count("burst:mid-event");
            match rng.below(5) {
                0 => {
                    c.stim("nrebirth");
                }
                1 => {
                    c.stim("offline");
                    c.stim("online");
                }
                2 => {
                    c.stim("ncmd rb=1 ts=1");
                }
                3 => {
                    c.resolve_oldest(rng.chance(3, 4));
                }
                _ => {
                    let o = rng.range(1, ndev);
                    if o != t {
                        c.stim(&format!("unreg {}", o));
                    }
                }
            }
        }
    }
    // what the application wants in the end
    match rng.below(6) {
        0 | 1 => {
            c.stim(&format!("disable {}", t));
        }
        2 | 3 => {
            c.stim(&format!("enable {}", t));
        }
        4 => {
            c.stim(&format!("unreg {}", t));
        }
        _ => {}
    }
    // release
    if rng.chance(1, 5) {
        c.resolve_oldest(false);
    }
    c.drain();
    for d in 1..=ndev {
        c.stim(&format!("pub dev {} try n=1", d));
    }
    if rng.chance(2, 3) {
        c.stim(if rng.chance(1, 2) { "nrebirth" } else { "ncmd rb=1 ts=1" });
        c.stim(&format!("pub dev {} blk n=1", t));
    }
    c.stim(&format!("{} {}", rng.pick(&["enable", "disable", "drebirth"]), t));
    c.out.count("case:burst");
    c.out.count(if size >= 100 { "case:burst:long" } else { "case:burst:short" });
    c.finish();
}

/// (e) connection bursts: `evs` lines (2-5 Online / Offline events ready together) mixed with single connection
/// events, node publishes and rebirths, SUB / NBIRTH refused or parked and resolved later, the node task held in
/// `on_ncmd`, now and then a cancel at the end
fn conn_burst_case(out: &mut Out, rng: &mut Rng) {
    let mut c = Case::begin(out, 0);
    if rng.chance(1, 2) {
        c.stim("reg 1");
        c.stim("enable 1");
    }
    let len = rng.range(8, 30);
    for _ in 0..len {
        match rng.below(100) {
            0..=34 => {
                let k = rng.range(2, 5);
                let mut s = String::from("evs");
                for _ in 0..k {
                    s.push(' ');
                    s.push_str(*rng.pick(&["online", "offline"]));
                }
                c.out.count("conn-burst:evs");
                c.stim(&s);
            }
            35..=44 => {
                c.stim("online");
            }
            45..=52 => {
                c.stim("offline");
            }
            53..=60 => {
                c.stim(&format!("pub node {} n=1", rng.pick(&["try", "blk"])));
            }
            61..=66 => {
                c.stim("nrebirth");
            }
            67..=72 => {
                c.stim("ncmd rb=1 ts=1");
            }
            73..=78 => {
                c.stim(&format!("rule {} {} 1", rng.pick(&["SUB", "NBIRTH"]), rng.pick(&["rej", "park"])));
            }
            79..=86 => {
                let ok = rng.chance(3, 4);
                c.resolve_oldest(ok);
            }
            87..=91 => {
                if !c.sess.armed_callbacks().iter().any(|x| x == "node") {
                    c.stim("cbpark node");
                    c.stim("ncmd rb=x ts=1");
                }
            }
            92..=96 => {
                if c.sess.armed_callbacks().iter().any(|x| x == "node") {
                    c.stim("cbrelease node");
                }
            }
            _ => {
                c.stim("pub dev 1 try n=1");
            }
        }
    }
    c.drain();
    c.stim("online");
    c.stim("pub node try n=1");
    if rng.chance(1, 4) {
        c.stim("cancel");
        c.stim("adv 1100");
    }
    c.out.count("case:conn-burst");
    c.finish();
}

/// every burst of 1..=`maxlen` Online / Offline events, from a fresh node, from an established connection and
/// behind a node task held in `on_ncmd`; then the next connection and a publish on it
fn conn_burst_exhaustive(out: &mut Out, maxlen: usize) {
    for prefix in 0..3 {
        for len in 1..=maxlen {
            for bits in 0..(1u32 << len) {
                let mut c = Case::begin(out, 0);
                match prefix {
                    1 => {
                        c.stim("online");
                    }
                    2 => {
                        c.stim("cbpark node");
                        c.stim("ncmd rb=x ts=1");
                    }
                    _ => {}
                }
                let mut s = String::from("evs");
                for i in 0..len {
                    s.push_str(if bits >> i & 1 == 1 { " online" } else { " offline" });
                }
                c.stim(&s);
                c.drain();
                c.stim("online");
                c.stim("pub node try n=1");
                c.out.count("case:conn-burst-exhaustive");
                c.finish();
            }
        }
    }
    out.exhaustive.push(format!(
        "every burst (`evs`) of 1..={} Online / Offline events ready together, from a fresh node, from an established connection and behind a node task held in on_ncmd, followed by the next Online and a publish",
        maxlen
    ));
}

/// (f) unregister behind a busy device task: a device task is held up (in `on_dcmd`, inside a DBIRTH the client
/// has not answered) or the node task is (in `on_ncmd`), 1-3 things that ask the device for a DBIRTH are announced
/// (node rebirth manual / NCMD, reconnect, device rebirth, enable, disable + enable), the application unregisters
/// the device (sometimes registers the name again at once: the property's proviso fails, nothing is demanded),
/// more node rebirths, everything is released; then the name is registered and enabled again at rest
fn unreg_behind_case(out: &mut Out, rng: &mut Rng) {
    let mut c = Case::begin(out, 0);
    let ndev = rng.range(1, 2);
    c.stim("online");
    for d in 1..=ndev {
        c.stim(&format!("reg {}", d));
        if rng.chance(5, 6) {
            c.stim(&format!("enable {}", d));
        }
    }
    let t = rng.range(1, ndev);
    let hold = rng.below(4);
    c.out.count(&format!("unreg-behind:hold:{}", ["dcmd-callback", "dbirth", "ncmd-callback", "none"][hold as usize]));
    match hold {
        0 => {
            c.stim(&format!("cbpark {}", t));
            c.stim(&format!("dcmd {} ts=1", t));
        }
        1 => {
            c.stim("rule DBIRTH park 1");
            c.stim(&format!("{} {}", rng.pick(&["drebirth", "enable"]), t));
        }
        2 => {
            c.stim("cbpark node");
            c.stim("ncmd rb=x ts=1");
        }
        _ => {}
    }
    for _ in 0..rng.range(1, 3) {
        match rng.below(8) {
            0 | 1 | 2 => {
                c.stim("nrebirth");
            }
            3 | 4 => {
                c.stim("ncmd rb=1 ts=1");
            }
            5 => {
                c.stim("offline");
                c.stim("online");
            }
            6 => {
                c.stim(&format!("{} {}", rng.pick(&["drebirth", "enable"]), t));
            }
            _ => {
                c.stim(&format!("disable {}", t));
                c.stim(&format!("enable {}", t));
            }
        }
    }
    c.stim(&format!("unreg {}", t));
    if rng.chance(1, 3) {
        c.stim(if rng.chance(1, 2) { "nrebirth" } else { "ncmd rb=1 ts=1" });
    }
    if rng.chance(1, 6) {
        c.out.count("unreg-behind:name-reused-at-once");
        c.stim(&format!("reg {}", t));
        c.stim(&format!("enable {}", t));
    }
    if rng.chance(1, 5) {
        c.resolve_oldest(false);
    }
    c.drain();
    for d in 1..=ndev {
        c.stim(&format!("pub dev {} try n=1", d));
    }
    c.stim(if rng.chance(1, 2) { "nrebirth" } else { "ncmd rb=1 ts=1" });
    if !c.sess.registered().contains(&(t as u32)) {
        c.stim(&format!("reg {}", t));
    }
    c.stim(&format!("enable {}", t));
    c.stim(&format!("pub dev {} try n=1", t));
    c.out.count("case:unreg-behind");
    c.finish();
}

pub const RULE: &str = "edge-node schedules through the real EoN / NodeHandle / DeviceHandle (paused tokio time, mock client whose every call the harness accepts, rejects or parks and later resolves, scripted event loop, recording managers whose callbacks can be held): (a) scripted scenarios per clause of C01-C04/C20 incl. the suspected defects; (b) every stimulus sequence of length <= L over a 14-symbol alphabet from a fresh node and from a birthed node with a birthed device; (c) random schedules of 20-200 stimuli with 1-3 devices, client policies, duplicate / early Offline, NCMD rebirths with cooldown 0 / 5 s / longer than the run, cancels at random points, and long runs wrapping seq and bdSeq; (d) request bursts: 17-40 (a few 300-420) enable / disable / rebirth requests (and a final unregister) through device handles while a device task or the node task is held up (parked DBIRTH / DDEATH / NBIRTH, held on_dcmd / on_ncmd callback), strictly toggling or random, with publishes, DCMDs, node rebirths and connection losses in between, then released; (e) connection bursts: `evs` lines = 2-5 Online / Offline events ready in the event loop together (every burst of length <= 4 from a fresh node, an established connection and behind a held on_ncmd; random mixes with single events, publishes, rebirths, refused / parked SUB and NBIRTH, cancels); (f) unregister behind a busy task: node rebirths (manual / NCMD), reconnects, device rebirths and enables announced to a device whose task is held (on_dcmd, unanswered DBIRTH) or behind a held node task, then unregister_device, more rebirths, release, and the name registered again at rest (1 in 6 at once: proviso fails, exempt). Each line = one stimulus + everything observed until quiescence. Non-trivial = at least two stimuli; distinct = distinct request-line sequences (hashed).";


/// The node's rebirth cooldown under the UNMOCKED wall clock (the verif-hooks mock shadows the clock reading
/// in `on_sparkplug_message`; whatever is computed from the real `SystemTime` is otherwise never run): with a
/// 1 s cooldown a valid request is honoured, a second one right behind it is not, one after 1.1 s of real
/// time is. Direct oracle, no model lines beyond the case's `new`.
fn real_clock_cooldown_scenario(out: &mut Out) {
    use srad_types::utils::verif_hooks;
    let mut sess = Sess::begin(out, 1000);
    out.set_desc("real-clock-cooldown".into());
    let mut births = |sess: &mut Sess, stim: &str| -> usize {
        verif_hooks::set_mock_timestamp(None);
        verif_hooks::set_mock_wall(None);
        let (evs, _, _) = sess.exec_raw(stim);
        evs.iter().filter(|e| matches!(e, Ev::Call { kind: Kind::NBirth, .. })).count()
    };
    let a = births(&mut sess, "online");
    let t0 = std::time::Instant::now();
    let b = births(&mut sess, "ncmd rb=1 ts=1");
    let mut c = births(&mut sess, "ncmd rb=1 ts=1");
    let stalled1 = t0.elapsed() > Duration::from_millis(800);
    std::thread::sleep(Duration::from_millis(1100));
    let t1 = std::time::Instant::now();
    let d = births(&mut sess, "ncmd rb=1 ts=1");
    let mut e = births(&mut sess, "ncmd rb=1 ts=1");
    let stalled2 = t1.elapsed() > Duration::from_millis(800);
    // a machine that stalls for most of the cooldown between two back-to-back requests proves nothing
    if stalled1 {
        c = 0;
    }
    if stalled2 {
        e = 0;
    }
    if (a, b, c, d, e) != (1, 1, 0, 1, 0) {
        out.fail(
            "C15:rebirth-honoured",
            "real-clock-cooldown",
            format!("NBIRTHs per step under the real clock with a 1 s cooldown: online {}, request {}, request at once {}, request after 1.1 s {}, request at once {} (expected 1,1,0,1,0)", a, b, c, d, e),
        );
    }
    set_clocks(1_000_000 + sess.vnow);
    out.nontrivial();
    out.count("real-clock-cooldown");
}

pub fn run(args: &Args, out: &mut Out) -> &'static str {
    install_hook();
    token();
    TEMPLATE_CHURN.store(true, Ordering::SeqCst);
    real_clock_cooldown_scenario(out);
    let mut rng = Rng::new(args.seed);
    let th = args.thorough();
    scripted(out);
    exhaustive(out, if th { 4 } else { 3 });
    for _ in 0..(if th { 8000 } else { 1500 }) {
        let mut r = rng.fork();
        random_case(out, &mut r);
    }
    let mut r = rng.fork();
    long_seq_case(out, &mut r, if th { 700 } else { 280 });
    let mut r = rng.fork();
    long_bdseq_case(out, &mut r, if th { 320 } else { 270 });
    if th {
        for _ in 0..4 {
            let mut r = rng.fork();
            long_seq_case(out, &mut r, 620);
            let mut r = rng.fork();
            long_bdseq_case(out, &mut r, 300);
        }
    }
    // (d) request bursts (after everything else: the random streams of the cases above are unchanged)
    for _ in 0..(if th { 240 } else { 48 }) {
        let mut r = rng.fork();
        let size = r.range(17, 40);
        burst_case(out, &mut r, size);
    }
    for _ in 0..(if th { 12 } else { 3 }) {
        let mut r = rng.fork();
        let size = r.range(300, 420);
        burst_case(out, &mut r, size);
    }
    // (e) connection bursts, (f) unregister behind a busy task (after everything else, as above)
    conn_burst_exhaustive(out, if th { 5 } else { 4 });
    for _ in 0..(if th { 600 } else { 120 }) {
        let mut r = rng.fork();
        conn_burst_case(out, &mut r);
    }
    for _ in 0..(if th { 600 } else { 120 }) {
        let mut r = rng.fork();
        unreg_behind_case(out, &mut r);
    }
    RULE
}

/// re-executes the stimulus part of each line (whatever follows ` => ` is ignored), re-observes,
/// re-emits the lines and re-runs the oracles
pub fn replay(_desc: &str, ops: &[String], out: &mut Out) {
    install_hook();
    token();
    TEMPLATE_CHURN.store(true, Ordering::SeqCst);
    // `Case` borrows `out`; keep the borrow local to each case
    let mut groups: Vec<Vec<&str>> = vec![];
    for l in ops {
        let body = l.split(" => ").next().unwrap();
        if body.starts_with("eon new ") {
            groups.push(vec![body]);
        } else if let Some(g) = groups.last_mut() {
            g.push(body);
        }
    }
    for g in groups {
        let w: Vec<&str> = g[0].split(' ').collect();
        let cd: u64 = kv(&w, "cd").unwrap_or("0").parse().unwrap();
        let mut c = Case::begin(out, cd);
        for l in &g[1..] {
            if let Some(s) = l.strip_prefix("eon stim ") {
                c.stim(s);
            }
        }
        // the recorded lines already contain the clean-up of the original case; `finish` only adds
        // lines when something is still outstanding
        c.finish();
    }
}
