//! `srad-verif <component> [--tier quick|thorough] [--seed N] --out DIR [--corpus DIR] [--replay FILE]`
//! Runs the real srad code (path dependencies on /repo) on generated cases and writes, per
//! request line sent to the Lean model driver, the implementation's canonical answer.
mod c09;
mod c10;
mod common;
mod host;
mod mock;
mod templ;
mod admit;
mod derive;
mod hostloop;
mod topic;
mod c12;
mod eon;
mod birth;
mod cmd;
mod wire;
mod loop_;
mod nodeabs;
mod hll;
mod hostq;
mod rumqtt;
mod hcmd;
mod smgr;

use common::*;
use std::path::{Path, PathBuf};

fn replay_file(comp: &str, path: &Path, out: &mut Out) {
    // replay file: JSON {"desc": "...", "ops": ["..."]}
    let j: serde_json::Value =
        serde_json::from_str(&std::fs::read_to_string(path).unwrap()).unwrap();
    let desc = j["desc"].as_str().unwrap_or("").to_string();
    let ops: Vec<String> = j["ops"]
        .as_array()
        .map(|a| a.iter().map(|x| x.as_str().unwrap().to_string()).collect())
        .unwrap_or_default();
    match comp {
        "reseq" => c09::replay(&desc, &ops, out),
        "codec" => c10::replay(&desc, &ops, out),
        "host" => host::replay(&desc, &ops, out),
        "templ" => templ::replay(&desc, &ops, out),
        "admit" => admit::replay(&desc, &ops, out),
        "derive" => derive::replay(&desc, &ops, out),
        "hostloop" => hostloop::replay(&desc, &ops, out),
        "topic" => topic::replay(&desc, &ops, out),
        "metric" => c12::replay(&desc, &ops, out),
        "eon" => eon::replay(&desc, &ops, out),
        "birth" => birth::replay(&desc, &ops, out),
        "cmd" => cmd::replay(&desc, &ops, out),
        "wire" => wire::replay(&desc, &ops, out),
        "loop" => loop_::replay(&desc, &ops, out),
        "nodeabs" => nodeabs::replay(&desc, &ops, out),
        "hll" => hll::replay(&desc, &ops, out),
        "hostq" => hostq::replay(&desc, &ops, out),
        "rumqtt" => rumqtt::replay(&desc, &ops, out),
        "hcmd" => hcmd::replay(&desc, &ops, out),
        "smgr" => smgr::replay(&desc, &ops, out),
        _ => panic!("unknown component"),
    }
}

#[global_allocator]
static ALLOC: common::crumb::WatchAlloc = common::crumb::WatchAlloc;

fn main() {
    let argv: Vec<String> = std::env::args().collect();
    if argv.len() < 2 {
        eprintln!("usage: srad-verif <component> --out DIR [--tier T] [--seed N] [--corpus DIR] [--replay FILE]");
        std::process::exit(2);
    }
    let comp = argv[1].clone();
    if comp == "table" {
        std::panic::set_hook(Box::new(|_| {}));
        let t = match argv.get(2).map(|s| s.as_str()) {
            Some("KindTable") => c10::table_kind(),
            Some("TemplTable") => templ::table_templ(),
            Some("AdmitTable") => admit::table_admit(),
            Some("DeriveTable") => derive::table_derive(),
            Some("HostLoopTable") => hostloop::table_hostloop(),
            Some("TopicTable") => topic::table_topic(),
            Some("MetricTable") => c12::table_metric(),
            Some("BirthTable") => birth::table_birth(),
            Some("CmdTable") => cmd::table_cmd(),
            _ => {
                eprintln!("unknown table");
                std::process::exit(2)
            }
        };
        print!("{}", t);
        return;
    }
    let mut args = Args {
        tier: "quick".into(),
        seed: 1,
        out: PathBuf::from("out"),
        replay: None,
        rest: vec![],
    };
    let mut corpus: Option<PathBuf> = None;
    let mut i = 2;
    while i < argv.len() {
        match argv[i].as_str() {
            "--tier" => {
                args.tier = argv[i + 1].clone();
                i += 2
            }
            "--seed" => {
                args.seed = argv[i + 1].parse().unwrap();
                i += 2
            }
            "--out" => {
                args.out = PathBuf::from(&argv[i + 1]);
                i += 2
            }
            "--replay" => {
                args.replay = Some(PathBuf::from(&argv[i + 1]));
                i += 2
            }
            "--corpus" => {
                corpus = Some(PathBuf::from(&argv[i + 1]));
                i += 2
            }
            x => {
                args.rest.push(x.to_string());
                i += 1
            }
        }
    }
    // aborts and hangs inside the library end the process with a CRASH-INPUT / HANG-INPUT line naming the request
    common::crumb::install(&comp, if args.thorough() { 300 } else { 120 });
    // quiet panics: every case runs under catch_unwind where a panic is an outcome
    std::panic::set_hook(Box::new(|_| {}));
    let mut out = Out::new(&args.out);
    if let Some(path) = &args.replay {
        out.origin = format!("replay:{}", path.display());
        replay_file(&comp, path, &mut out);
        out.finish("replay");
        return;
    }
    // corpus first: minimised past failures and witnesses of known findings
    if let Some(dir) = &corpus {
        if let Ok(rd) = std::fs::read_dir(dir) {
            let mut files: Vec<PathBuf> = rd.filter_map(|e| e.ok()).map(|e| e.path()).collect();
            files.sort();
            for f in files {
                if f.extension().map(|e| e == "json").unwrap_or(false) {
                    out.origin = format!("corpus:{}", f.file_name().unwrap().to_string_lossy());
                    replay_file(&comp, &f, &mut out);
                    out.count("corpus_cases");
                }
            }
        }
        out.origin = "gen".into();
    }
    let rule = match comp.as_str() {
        "reseq" => c09::run(&args, &mut out),
        "codec" => c10::run(&args, &mut out),
        "host" => host::run(&args, &mut out),
        "templ" => templ::run(&args, &mut out),
        "admit" => admit::run(&args, &mut out),
        "derive" => derive::run(&args, &mut out),
        "hostloop" => hostloop::run(&args, &mut out),
        "topic" => topic::run(&args, &mut out),
        "metric" => c12::run(&args, &mut out),
        "eon" => eon::run(&args, &mut out),
        "birth" => birth::run(&args, &mut out),
        "cmd" => cmd::run(&args, &mut out),
        "wire" => wire::run(&args, &mut out),
        "loop" => loop_::run(&args, &mut out),
        "nodeabs" => nodeabs::run(&args, &mut out),
        "hll" => hll::run(&args, &mut out),
        "hostq" => hostq::run(&args, &mut out),
        "rumqtt" => rumqtt::run(&args, &mut out),
        "hcmd" => hcmd::run(&args, &mut out),
        "smgr" => smgr::run(&args, &mut out),
        _ => {
            eprintln!("unknown component {}", comp);
            std::process::exit(2)
        }
    };
    out.finish(rule);
}
