//! Component `templ` (C18): template values (srad-types/src/template.rs) and the node's
//! template registry (srad-eon/src/node.rs) through the public API.
//!
//! Token grammar (prefix notation, space separated; `~` = None, hex with `-` = empty string):
//!   TMPL    := <is_definition: n|t|f> <template_ref: ~|hex> CONTENT
//!   CONTENT := <version: ~|hex> <k> METRIC{k} <j> PARAM{j}
//!   METRIC  := p <rest> <datatype: ~|nat> <value: ~|v<hex>>     value absent / not a template
//!            | t <rest> <datatype: ~|nat> TMPL                   value is a template
//!   PARAM   := hex of the protobuf encoding of the parameter
//!   MV      := T TMPL | O v<hex>
//! `rest` is the protobuf encoding of the metric with `datatype` and `value` cleared, a `v<hex>`
//! value is the protobuf encoding of a metric holding only that value: the tokens are lossless.
//!
//! Ops (one per line):
//!   templ new
//!   templ def CONTENT            TemplateDefinition -> MetricValue -> the four decoders
//!   templ inst <ref> CONTENT     TemplateInstance   -> MetricValue -> the four decoders
//!   templ dec MV                 the four decoders on an arbitrary metric value
//!   templ breg <name> CONTENT    EoNBuilder::register_template::<T>()          (ok | panic)
//!   templ birth                  the node (re)births: what follows runs inside
//!                                NodeMetricManager::birth_update_template_registry
//!   templ reg <name> CONTENT     TemplateRegistry::register::<T>()             (ok | err class)
//!   templ dereg <name> | templ clear | templ has <name>
//!   templ nbirth                 closes a birth block: the template definition metrics of the NBIRTH
//!                                the node handed over after the callback, sorted by name:
//!                                `<k> | <name> <datatype> T TMPL | ...` (`no-nbirth` if none went out)
//! The four decoders: TemplateDefinition::try_from, TemplateInstance::try_from,
//! TemplateValue::try_from, MetricValueKind::try_from_metric_value(DataType::Template, _).
use crate::common::*;
use prost::Message;
use srad::types::Template as DeriveTemplate;
use srad_eon::{BirthInitializer, EoNBuilder, MetricManager, NodeMetricManager, TemplateRegistry};
use srad_client::channel::OutboundMessage;
use srad_types::payload::{
    metric, template::parameter, template::Parameter as PParam, DataType, Metric as PMetric, Payload,
    Template as PTemplate,
};
use srad_types::topic::NodeMessage as NodeMessageKind;
use srad_types::{
    FromValueTypeError, MetricValue, MetricValueKind, Template, TemplateDefinition,
    TemplateInstance, TemplateMetadata, TemplateValue,
};
use std::cell::RefCell;
use std::collections::BTreeMap;
use std::panic::AssertUnwindSafe;
use std::sync::{Arc, Mutex};
use std::time::Duration;

const RULE: &str = "a case counts as non-trivial when a template value with at least one nested template metric goes through the decoders, or when a registration is attempted whose definition nests a template or contains a malformed metric, or when a registration is attempted under a name that is taken by a different definition";

const TEMPLATE_DT: u32 = DataType::Template as u32;
const RESERVED: [&str; 2] = ["bdSeq", "Node Control/Rebirth"];

// ---------------------------------------------------------------- tokens

fn opt_hex(s: &Option<String>) -> String {
    match s {
        None => "~".into(),
        Some(s) => hex(s.as_bytes()),
    }
}

fn ser_metric(m: &PMetric, out: &mut Vec<String>) {
    let mut rest = m.clone();
    rest.datatype = None;
    rest.value = None;
    let dt = m.datatype.map(|d| d.to_string()).unwrap_or_else(|| "~".into());
    match &m.value {
        Some(metric::Value::TemplateValue(t)) => {
            out.push("t".into());
            out.push(hex(&rest.encode_to_vec()));
            out.push(dt);
            ser_tmpl(t, out);
        }
        Some(v) => {
            let mut only = PMetric::new();
            only.value = Some(v.clone());
            out.push("p".into());
            out.push(hex(&rest.encode_to_vec()));
            out.push(dt);
            out.push(format!("v{}", hex(&only.encode_to_vec())));
        }
        None => {
            out.push("p".into());
            out.push(hex(&rest.encode_to_vec()));
            out.push(dt);
            out.push("~".into());
        }
    }
}

fn ser_content(version: &Option<String>, metrics: &[PMetric], params: &[PParam], out: &mut Vec<String>) {
    out.push(opt_hex(version));
    out.push(metrics.len().to_string());
    for m in metrics {
        ser_metric(m, out);
    }
    out.push(params.len().to_string());
    for p in params {
        out.push(hex(&p.encode_to_vec()));
    }
}

fn ser_tmpl(t: &PTemplate, out: &mut Vec<String>) {
    out.push(
        match t.is_definition {
            None => "n",
            Some(true) => "t",
            Some(false) => "f",
        }
        .into(),
    );
    out.push(opt_hex(&t.template_ref));
    ser_content(&t.version, &t.metrics, &t.parameters, out);
}

fn content_tok(version: &Option<String>, metrics: &[PMetric], params: &[PParam]) -> String {
    let mut v = vec![];
    ser_content(version, metrics, params, &mut v);
    v.join(" ")
}

fn tmpl_tok(t: &PTemplate) -> String {
    let mut v = vec![];
    ser_tmpl(t, &mut v);
    v.join(" ")
}

struct Cur<'a> {
    t: &'a [&'a str],
    i: usize,
}

impl<'a> Cur<'a> {
    fn next(&mut self) -> &'a str {
        let x = self.t[self.i];
        self.i += 1;
        x
    }
    fn done(&self) -> bool {
        self.i == self.t.len()
    }
}

fn un_opt_hex(s: &str) -> Option<String> {
    if s == "~" {
        None
    } else {
        Some(String::from_utf8(unhex(s)).expect("utf8 token"))
    }
}

fn parse_metric(c: &mut Cur) -> PMetric {
    let kind = c.next();
    let rest = c.next();
    let dt = c.next();
    let mut m = PMetric::decode(&unhex(rest)[..]).expect("rest token");
    m.datatype = if dt == "~" { None } else { Some(dt.parse().unwrap()) };
    match kind {
        "p" => {
            let v = c.next();
            m.value = if v == "~" {
                None
            } else {
                PMetric::decode(&unhex(&v[1..])[..]).expect("value token").value
            };
        }
        "t" => {
            m.value = Some(metric::Value::TemplateValue(parse_tmpl(c)));
        }
        x => panic!("bad metric token {}", x),
    }
    m
}

fn parse_content(c: &mut Cur) -> (Option<String>, Vec<PMetric>, Vec<PParam>) {
    let version = un_opt_hex(c.next());
    let k: usize = c.next().parse().unwrap();
    let metrics = (0..k).map(|_| parse_metric(c)).collect();
    let j: usize = c.next().parse().unwrap();
    let params = (0..j).map(|_| PParam::decode(&unhex(c.next())[..]).expect("param token")).collect();
    (version, metrics, params)
}

fn parse_tmpl(c: &mut Cur) -> PTemplate {
    let is_definition = match c.next() {
        "n" => None,
        "t" => Some(true),
        "f" => Some(false),
        x => panic!("bad marker {}", x),
    };
    let template_ref = un_opt_hex(c.next());
    let (version, metrics, parameters) = parse_content(c);
    PTemplate { version, metrics, parameters, template_ref, is_definition }
}

// ---------------------------------------------------------------- the four decoders

fn verr(e: &FromValueTypeError) -> &'static str {
    match e {
        FromValueTypeError::InvalidVariantType => "err variant",
        FromValueTypeError::InvalidValue(_) => "err value",
        _ => "err other",
    }
}

fn show_def(d: &TemplateDefinition) -> String {
    format!("ok D {}", content_tok(&d.version, &d.metrics, &d.parameters))
}

fn show_inst(i: &TemplateInstance) -> String {
    format!("ok I {} {}", hex(i.template_ref.as_bytes()), content_tok(&i.version, &i.metrics, &i.parameters))
}

fn show_val(v: &TemplateValue) -> String {
    match v {
        TemplateValue::Definition(d) => show_def(d),
        TemplateValue::Instance(i) => show_inst(i),
    }
}

/// results of the four decoders on one metric value
struct Decoded {
    def: Result<Result<TemplateDefinition, FromValueTypeError>, String>,
    inst: Result<Result<TemplateInstance, FromValueTypeError>, String>,
    val: Result<Result<TemplateValue, FromValueTypeError>, String>,
    kind: Result<Result<TemplateValue, String>, String>,
}

fn decode_all(v: &metric::Value) -> Decoded {
    let a = v.clone();
    let b = v.clone();
    let c = v.clone();
    let d = v.clone();
    Decoded {
        def: catch(move || TemplateDefinition::try_from(MetricValue(a))),
        inst: catch(move || TemplateInstance::try_from(MetricValue(b))),
        val: catch(move || TemplateValue::try_from(MetricValue(c))),
        kind: catch(move || match MetricValueKind::try_from_metric_value(DataType::Template, MetricValue(d)) {
            Ok(MetricValueKind::Template(t)) => Ok(t),
            Ok(other) => Err(format!("err kind:{}", crate::c10::kind_name(&other))),
            Err(srad_types::FromMetricValueError::ValueDecodeError(e)) => Err(verr(&e).to_string()),
            Err(_) => Err("err other".to_string()),
        }),
    }
}

impl Decoded {
    fn show(&self) -> String {
        let d = match &self.def {
            Err(_) => "panic".to_string(),
            Ok(Ok(d)) => show_def(d),
            Ok(Err(e)) => verr(e).to_string(),
        };
        let i = match &self.inst {
            Err(_) => "panic".to_string(),
            Ok(Ok(i)) => show_inst(i),
            Ok(Err(e)) => verr(e).to_string(),
        };
        let v = match &self.val {
            Err(_) => "panic".to_string(),
            Ok(Ok(v)) => show_val(v),
            Ok(Err(e)) => verr(e).to_string(),
        };
        let k = match &self.kind {
            Err(_) => "panic".to_string(),
            Ok(Ok(v)) => show_val(v),
            Ok(Err(e)) => e.clone(),
        };
        format!("D:{} | I:{} | V:{} | K:{}", d, i, v, k)
    }
    /// (definition decoder, instance decoder, value decoder, datatype-directed) as shapes
    fn shapes(&self) -> [&'static str; 4] {
        fn vs(v: &TemplateValue) -> &'static str {
            match v {
                TemplateValue::Definition(_) => "okDef",
                TemplateValue::Instance(_) => "okInst",
            }
        }
        fn es(e: &FromValueTypeError) -> &'static str {
            match e {
                FromValueTypeError::InvalidVariantType => "errVariant",
                FromValueTypeError::InvalidValue(_) => "errValue",
                _ => "errOther",
            }
        }
        [
            match &self.def {
                Err(_) => "panic",
                Ok(Ok(_)) => "okDef",
                Ok(Err(e)) => es(e),
            },
            match &self.inst {
                Err(_) => "panic",
                Ok(Ok(_)) => "okInst",
                Ok(Err(e)) => es(e),
            },
            match &self.val {
                Err(_) => "panic",
                Ok(Ok(v)) => vs(v),
                Ok(Err(e)) => es(e),
            },
            match &self.kind {
                Err(_) => "panic",
                Ok(Ok(v)) => vs(v),
                Ok(Err(e)) => match e.as_str() {
                    "err value" => "errValue",
                    "err variant" => "errVariant",
                    _ => "errOther",
                },
            },
        ]
    }
}

fn has_nested_template(ms: &[PMetric]) -> bool {
    ms.iter().any(|m| matches!(m.value, Some(metric::Value::TemplateValue(_))))
}

/// Oracle for a definition that was converted to a metric value.
fn oracle_def(d: &TemplateDefinition, wire: &metric::Value, dec: &Decoded, op: &str, out: &mut Out) {
    let short = &op[..op.len().min(300)];
    match wire {
        metric::Value::TemplateValue(t) => {
            if t.is_definition != Some(true) || t.template_ref.is_some() {
                out.fail("C18:definition-marked", "markers", format!("{}: is_definition={:?} template_ref={:?}", short, t.is_definition, t.template_ref));
            }
            if t.version != d.version || t.metrics != d.metrics || t.parameters != d.parameters {
                out.fail("C18:definition-marked", "content-changed", short.to_string());
            }
        }
        _ => out.fail("C18:definition-marked", "not-a-template-value", short.to_string()),
    }
    if !matches!(&dec.def, Ok(Ok(x)) if x == d) {
        out.fail("C18:definition-roundtrip", "direct", format!("{}: TemplateDefinition::try_from did not return the definition", short));
    }
    if !matches!(&dec.val, Ok(Ok(TemplateValue::Definition(x))) if x == d) {
        out.fail("C18:definition-roundtrip", "template-value", format!("{}: TemplateValue::try_from did not return Definition(d)", short));
    }
    if !matches!(&dec.kind, Ok(Ok(TemplateValue::Definition(x))) if x == d) {
        out.fail("C18:definition-roundtrip", "datatype-directed", format!("{}: try_from_metric_value(Template) did not return Template(Definition(d))", short));
    }
    if !matches!(&dec.inst, Ok(Err(_))) {
        out.fail("C18:opposite-kind-rejected", "definition-as-instance", format!("{}: TemplateInstance::try_from accepted a definition", short));
    }
}

fn inst_eq(a: &TemplateInstance, r: &str, v: &Option<String>, m: &[PMetric], p: &[PParam]) -> bool {
    a.template_ref == r && &a.version == v && a.metrics == m && a.parameters == p
}

fn oracle_inst(
    r: &str,
    v: &Option<String>,
    m: &[PMetric],
    p: &[PParam],
    wire: &metric::Value,
    dec: &Decoded,
    op: &str,
    out: &mut Out,
) {
    let short = &op[..op.len().min(300)];
    match wire {
        metric::Value::TemplateValue(t) => {
            if t.is_definition != Some(false) || t.template_ref.as_deref() != Some(r) {
                out.fail("C18:instance-marked", "markers", format!("{}: is_definition={:?} template_ref={:?}", short, t.is_definition, t.template_ref));
            }
            if &t.version != v || t.metrics != m || t.parameters != p {
                out.fail("C18:instance-marked", "content-changed", short.to_string());
            }
        }
        _ => out.fail("C18:instance-marked", "not-a-template-value", short.to_string()),
    }
    if !matches!(&dec.inst, Ok(Ok(x)) if inst_eq(x, r, v, m, p)) {
        out.fail("C18:instance-roundtrip", "direct", format!("{}: TemplateInstance::try_from did not return the instance", short));
    }
    if !matches!(&dec.val, Ok(Ok(TemplateValue::Instance(x))) if inst_eq(x, r, v, m, p)) {
        out.fail("C18:instance-roundtrip", "template-value", format!("{}: TemplateValue::try_from did not return Instance(i)", short));
    }
    if !matches!(&dec.kind, Ok(Ok(TemplateValue::Instance(x))) if inst_eq(x, r, v, m, p)) {
        out.fail("C18:instance-roundtrip", "datatype-directed", format!("{}: try_from_metric_value(Template) did not return Template(Instance(i))", short));
    }
    if !matches!(&dec.def, Ok(Err(_))) {
        out.fail("C18:opposite-kind-rejected", "instance-as-definition", format!("{}: TemplateDefinition::try_from accepted an instance", short));
    }
}

/// Oracle for the decoders on an arbitrary metric value: who may accept what.
fn oracle_dec(v: &metric::Value, dec: &Decoded, op: &str, out: &mut Out) {
    let short = &op[..op.len().min(300)];
    let s = dec.shapes();
    if s.contains(&"panic") {
        out.fail("C18:decoders-total", "panic", short.to_string());
    }
    let (is_def, has_ref, templ) = match v {
        metric::Value::TemplateValue(t) => (t.is_definition, t.template_ref.is_some(), Some(t)),
        _ => (None, false, None),
    };
    let def_ok = templ.is_some() && is_def == Some(true) && !has_ref;
    let inst_ok = templ.is_some() && is_def == Some(false) && has_ref;
    let feature = format!(
        "{}{}",
        match (templ.is_some(), is_def) {
            (false, _) => "other",
            (_, None) => "marker-missing",
            (_, Some(true)) => "is-definition",
            (_, Some(false)) => "is-instance",
        },
        if has_ref { "+ref" } else { "" }
    );
    if (s[0] == "okDef") != def_ok {
        out.fail(
            if def_ok { "C18:definition-roundtrip" } else if is_def.is_none() && templ.is_some() { "C18:marker-missing-rejected" } else { "C18:opposite-kind-rejected" },
            &format!("definition-decoder:{}", feature),
            format!("{}: TemplateDefinition::try_from -> {}", short, s[0]),
        );
    }
    if (s[1] == "okInst") != inst_ok {
        out.fail(
            if inst_ok { "C18:instance-roundtrip" } else if is_def.is_none() && templ.is_some() { "C18:marker-missing-rejected" } else { "C18:opposite-kind-rejected" },
            &format!("instance-decoder:{}", feature),
            format!("{}: TemplateInstance::try_from -> {}", short, s[1]),
        );
    }
    let want = if def_ok { "okDef" } else if inst_ok { "okInst" } else { "" };
    for (k, name) in [(2usize, "value-decoder"), (3usize, "datatype-directed")] {
        let got_ok = s[k] == "okDef" || s[k] == "okInst";
        if (got_ok && s[k] != want) || (!got_ok && !want.is_empty()) {
            out.fail(
                if want == "okDef" { "C18:definition-roundtrip" } else if want == "okInst" { "C18:instance-roundtrip" } else if is_def.is_none() && templ.is_some() { "C18:marker-missing-rejected" } else { "C18:opposite-kind-rejected" },
                &format!("{}:{}", name, feature),
                format!("{}: -> {}", short, s[k]),
            );
        }
    }
    // accepted content is the wire content
    if let Some(t) = templ {
        if let Ok(Ok(d)) = &dec.def {
            if d.version != t.version || d.metrics != t.metrics || d.parameters != t.parameters {
                out.fail("C18:definition-roundtrip", "content-changed", short.to_string());
            }
        }
        if let Ok(Ok(i)) = &dec.inst {
            if Some(&i.template_ref) != t.template_ref.as_ref() || i.version != t.version || i.metrics != t.metrics || i.parameters != t.parameters {
                out.fail("C18:instance-roundtrip", "content-changed", short.to_string());
            }
        }
    }
}

/// Execute one stateless op (def / inst / dec) on the implementation.
fn exec_value(op: &str, out: &mut Out) -> String {
    let _crumb = crate::common::crumb::guard(op);
    let w: Vec<&str> = op.split(' ').collect();
    let mut c = Cur { t: &w, i: 2 };
    match w[1] {
        "def" => {
            let (version, metrics, parameters) = parse_content(&mut c);
            assert!(c.done());
            let d = TemplateDefinition { version, metrics, parameters };
            let d2 = d.clone();
            let wire = match catch(move || MetricValue::from(d2)) {
                Ok(mv) => mv.0,
                Err(_) => {
                    out.fail("C18:definition-marked", "panic", op[..op.len().min(300)].to_string());
                    return "panic".into();
                }
            };
            let dec = decode_all(&wire);
            oracle_def(&d, &wire, &dec, op, out);
            oracle_dec(&wire, &dec, op, out);
            if has_nested_template(&d.metrics) {
                out.nontrivial();
            }
            match &wire {
                metric::Value::TemplateValue(t) => format!("T {} | {}", tmpl_tok(t), dec.show()),
                _ => format!("O ? | {}", dec.show()),
            }
        }
        "inst" => {
            let template_ref = String::from_utf8(unhex(c.next())).unwrap();
            let (version, metrics, parameters) = parse_content(&mut c);
            assert!(c.done());
            let (r, v, m, p) = (template_ref.clone(), version.clone(), metrics.clone(), parameters.clone());
            let i = TemplateInstance { template_ref, version, metrics, parameters };
            let wire = match catch(move || MetricValue::from(i)) {
                Ok(mv) => mv.0,
                Err(_) => {
                    out.fail("C18:instance-marked", "panic", op[..op.len().min(300)].to_string());
                    return "panic".into();
                }
            };
            let dec = decode_all(&wire);
            oracle_inst(&r, &v, &m, &p, &wire, &dec, op, out);
            oracle_dec(&wire, &dec, op, out);
            if has_nested_template(&m) {
                out.nontrivial();
            }
            match &wire {
                metric::Value::TemplateValue(t) => format!("T {} | {}", tmpl_tok(t), dec.show()),
                _ => format!("O ? | {}", dec.show()),
            }
        }
        "dec" => {
            let v = match c.next() {
                "T" => {
                    let t = parse_tmpl(&mut c);
                    if has_nested_template(&t.metrics) {
                        out.nontrivial();
                    }
                    metric::Value::TemplateValue(t)
                }
                "O" => {
                    let tok = c.next();
                    PMetric::decode(&unhex(&tok[1..])[..]).unwrap().value.expect("value")
                }
                x => panic!("bad mv {}", x),
            };
            assert!(c.done());
            let dec = decode_all(&v);
            oracle_dec(&v, &dec, op, out);
            dec.show()
        }
        x => panic!("bad op {}", x),
    }
}

// ---------------------------------------------------------------- registry

thread_local! {
    /// what `Dyn::template_definition_metric_name()` / `Dyn::template_definition()` return
    static CUR: RefCell<(String, TemplateDefinition)> = RefCell::new((String::new(), TemplateDefinition { version: None, metrics: vec![], parameters: vec![] }));
}

/// A template type whose name and definition are whatever the harness says (user code is a
/// parameter of `register::<T>()`).
struct Dyn;

impl TemplateMetadata for Dyn {
    fn template_name() -> &'static str {
        "dyn"
    }
    fn template_definition_metric_name() -> String {
        CUR.with(|c| c.borrow().0.clone())
    }
}

impl TryFrom<TemplateInstance> for Dyn {
    type Error = ();
    fn try_from(_: TemplateInstance) -> Result<Self, ()> {
        Ok(Dyn)
    }
}

impl Template for Dyn {
    fn template_definition() -> TemplateDefinition {
        CUR.with(|c| c.borrow().1.clone())
    }
    fn template_instance(&self) -> TemplateInstance {
        let (n, d) = CUR.with(|c| c.borrow().clone());
        TemplateInstance { template_ref: n, version: d.version, metrics: d.metrics, parameters: d.parameters }
    }
}

// A real family produced by `#[derive(Template)]`: Outer nests Mid and Inner, Mid nests Inner.
#[derive(DeriveTemplate, Default, Clone)]
struct Inner {
    x: i32,
    label: String,
    #[template(parameter)]
    gain: f64,
}
impl TemplateMetadata for Inner {
    fn template_name() -> &'static str {
        "inner"
    }
    fn template_version() -> Option<&'static str> {
        Some("1.0")
    }
}
#[derive(DeriveTemplate, Default, Clone)]
struct Mid {
    inner: Inner,
    y: f32,
}
impl TemplateMetadata for Mid {
    fn template_name() -> &'static str {
        "mid"
    }
}
#[derive(DeriveTemplate, Default, Clone)]
struct Outer {
    flag: bool,
    mid: Mid,
    inner: Inner,
}
impl TemplateMetadata for Outer {
    fn template_name() -> &'static str {
        "outer"
    }
    fn template_version() -> Option<&'static str> {
        Some("2")
    }
}
#[derive(DeriveTemplate, Default, Clone)]
struct Reserved {
    v: u8,
}
impl TemplateMetadata for Reserved {
    fn template_name() -> &'static str {
        "bdSeq"
    }
}

// Three DIFFERENT templates that resolve to the same definition metric name "pump:1": two types
// with the same name and version (an application's and a plugin's), and an unversioned one whose
// name already contains the separator.
#[derive(DeriveTemplate, Default, Clone)]
struct PumpApp {
    rpm: i32,
}
impl TemplateMetadata for PumpApp {
    fn template_name() -> &'static str {
        "pump"
    }
    fn template_version() -> Option<&'static str> {
        Some("1")
    }
}
#[derive(DeriveTemplate, Default, Clone)]
struct PumpPlugin {
    pressure: f64,
    running: bool,
}
impl TemplateMetadata for PumpPlugin {
    fn template_name() -> &'static str {
        "pump"
    }
    fn template_version() -> Option<&'static str> {
        Some("1")
    }
}
#[derive(DeriveTemplate, Default, Clone)]
struct PumpUnversioned {
    flow: u16,
    #[template(parameter)]
    site: String,
}
impl TemplateMetadata for PumpUnversioned {
    fn template_name() -> &'static str {
        "pump:1"
    }
}
/// nests the owner of the contested name
#[derive(DeriveTemplate, Default, Clone)]
struct Station {
    pump: PumpApp,
    id: u32,
}
impl TemplateMetadata for Station {
    fn template_name() -> &'static str {
        "station"
    }
}

const REAL: usize = 4;
/// indices of the colliding family (`real_info(PUMPS.start..PUMPS.end)`) and of its nesting user
const PUMPS: std::ops::Range<usize> = 4..7;
const STATION: usize = 7;
fn real_info(i: usize) -> (String, TemplateDefinition) {
    match i {
        0 => (Inner::template_definition_metric_name(), Inner::template_definition()),
        1 => (Mid::template_definition_metric_name(), Mid::template_definition()),
        2 => (Outer::template_definition_metric_name(), Outer::template_definition()),
        3 => (Reserved::template_definition_metric_name(), Reserved::template_definition()),
        4 => (PumpApp::template_definition_metric_name(), PumpApp::template_definition()),
        5 => (PumpPlugin::template_definition_metric_name(), PumpPlugin::template_definition()),
        6 => (PumpUnversioned::template_definition_metric_name(), PumpUnversioned::template_definition()),
        _ => (Station::template_definition_metric_name(), Station::template_definition()),
    }
}
fn real_instance(i: usize) -> TemplateInstance {
    match i {
        0 => Inner { x: -7, label: "lbl".into(), gain: 2.5 }.template_instance(),
        1 => Mid { inner: Inner { x: 1, label: "".into(), gain: 0.0 }, y: 1.5 }.template_instance(),
        2 => Outer::default().template_instance(),
        _ => Reserved { v: 9 }.template_instance(),
    }
}

/// The property's vocabulary, written independently of the code under test: every template
/// nested anywhere in a metric list (a metric declared as Template holding a template value).
fn nested_refs(ms: &[PMetric], acc: &mut Vec<String>) {
    for m in ms {
        if m.datatype == Some(TEMPLATE_DT) {
            if let Some(metric::Value::TemplateValue(t)) = &m.value {
                if let Some(r) = &t.template_ref {
                    acc.push(r.clone());
                }
                nested_refs(&t.metrics, acc);
            }
        }
    }
}

/// every metric has one of the 35 datatypes; a Template metric holds a template value naming
/// its definition, whose own metrics are well formed
fn well_formed(ms: &[PMetric]) -> bool {
    ms.iter().all(|m| match m.datatype {
        None => false,
        Some(c) if c > 34 => false,
        Some(c) if c != TEMPLATE_DT => true,
        Some(_) => match &m.value {
            Some(metric::Value::TemplateValue(t)) => t.template_ref.is_some() && well_formed(&t.metrics),
            _ => false,
        },
    })
}

#[derive(Clone)]
enum ROp {
    Reg { name: String, def: TemplateDefinition, real: Option<usize>, line: String },
    Dereg(String),
    Clear,
    Has(String),
}

#[derive(Default)]
struct Shared {
    script: Vec<ROp>,
    answers: Vec<String>,
    fails: Vec<(String, String, String)>,
    ran: bool,
    /// definitions the implementation accepted, by name
    accepted: BTreeMap<String, TemplateDefinition>,
    /// no `deregister` since the registry was last empty
    reg_only: bool,
    nontrivial: bool,
    /// registrations that had to be refused, in the property's terms: (name, definition, why, op line)
    refused: Vec<(String, TemplateDefinition, &'static str, String)>,
}

fn reg_class(dbg: &str) -> &'static str {
    match dbg {
        "InvalidName" => "err name",
        "Duplicate" => "err dup",
        "InvalidDefinition" => "err def",
        "UnregisteredMetric" => "err unreg",
        _ => "err ?",
    }
}

fn do_register(reg: &mut TemplateRegistry, name: &str, def: &TemplateDefinition, real: Option<usize>) -> Result<Result<(), String>, String> {
    CUR.with(|c| *c.borrow_mut() = (name.to_string(), def.clone()));
    catch(AssertUnwindSafe(|| {
        let r = match real {
            Some(0) => reg.register::<Inner>().map_err(|e| format!("{:?}", e)),
            Some(1) => reg.register::<Mid>().map_err(|e| format!("{:?}", e)),
            Some(2) => reg.register::<Outer>().map_err(|e| format!("{:?}", e)),
            Some(3) => reg.register::<Reserved>().map_err(|e| format!("{:?}", e)),
            Some(4) => reg.register::<PumpApp>().map_err(|e| format!("{:?}", e)),
            Some(5) => reg.register::<PumpPlugin>().map_err(|e| format!("{:?}", e)),
            Some(6) => reg.register::<PumpUnversioned>().map_err(|e| format!("{:?}", e)),
            Some(_) => reg.register::<Station>().map_err(|e| format!("{:?}", e)),
            None => reg.register::<Dyn>().map_err(|e| format!("{:?}", e)),
        };
        r
    }))
}

/// why a registration must be refused (None: it must succeed), in the property's terms
fn refusal(name: &str, def: &TemplateDefinition, has: &dyn Fn(&str) -> bool) -> Option<&'static str> {
    if RESERVED.contains(&name) {
        return Some("reserved-name");
    }
    if has(name) {
        return Some("name-taken");
    }
    if !well_formed(&def.metrics) {
        return Some("malformed-definition");
    }
    let mut refs = vec![];
    nested_refs(&def.metrics, &mut refs);
    if refs.iter().any(|r| !has(r)) {
        return Some("nested-unregistered");
    }
    None
}

impl Shared {
    fn run_script(&mut self, reg: &mut TemplateRegistry) {
        self.ran = true;
        let script = std::mem::take(&mut self.script);
        for op in &script {
            match op {
                ROp::Reg { name, def, real, line } => {
                    let short = line[..line.len().min(300)].to_string();
                    let mut refs = vec![];
                    nested_refs(&def.metrics, &mut refs);
                    if !refs.is_empty() || !well_formed(&def.metrics) || self.accepted.get(name).map_or(false, |d| d != def) {
                        self.nontrivial = true;
                    }
                    // what is registered is what the history says (the harness's own record), not what the
                    // registry under test answers when asked
                    let before = self.accepted.contains_key(name);
                    if reg.contains(name) != before {
                        self.fails.push(("C18:register-effect".into(), "contains-disagrees-with-history".into(), format!("{}: contains({:?}) = {} but the history says {}", short, name, !before, before)));
                    }
                    let why = refusal(name, def, &|n| self.accepted.contains_key(n));
                    if let Some(w) = why {
                        self.refused.push((name.clone(), def.clone(), w, short.clone()));
                    }
                    let res = do_register(reg, name, def, *real);
                    let after = reg.contains(name);
                    match &res {
                        Err(_) => {
                            self.fails.push(("C18:register-iff".into(), "panic".into(), short.clone()));
                            self.answers.push("panic".into());
                        }
                        Ok(Ok(())) => {
                            if let Some(w) = why {
                                self.fails.push((
                                    "C18:register-iff".into(),
                                    format!("{}-accepted", w),
                                    format!("{}: register returned Ok although {} (registered before the call: {:?})", short, w, self.accepted.keys().filter(|k| reg.contains(k) && *k != name).collect::<Vec<_>>()),
                                ));
                            }
                            if !after {
                                self.fails.push(("C18:register-effect".into(), "ok-but-absent".into(), short.clone()));
                            }
                            if !before {
                                self.accepted.insert(name.clone(), def.clone());
                            }
                            self.answers.push("ok".into());
                        }
                        Ok(Err(e)) => {
                            if why.is_none() {
                                self.fails.push(("C18:register-iff".into(), "valid-registration-rejected".into(), format!("{}: {}", short, e)));
                            }
                            if after != before {
                                self.fails.push(("C18:register-effect".into(), "error-but-changed".into(), short.clone()));
                            }
                            self.answers.push(reg_class(e).into());
                        }
                    }
                }
                ROp::Dereg(n) => {
                    reg.deregister(n);
                    if reg.contains(n) {
                        self.fails.push(("C18:register-effect".into(), "deregister-kept".into(), n.clone()));
                    }
                    self.accepted.remove(n);
                    self.reg_only = false;
                    self.answers.push("ok".into());
                }
                ROp::Clear => {
                    reg.clear();
                    if let Some(n) = self.accepted.keys().find(|n| reg.contains(n)) {
                        self.fails.push(("C18:register-effect".into(), "clear-kept".into(), format!("{:?} still reported as registered after clear()", n)));
                    }
                    self.accepted.clear();
                    self.reg_only = true;
                    self.answers.push("ok".into());
                }
                ROp::Has(n) => {
                    if reg.contains(n) != self.accepted.contains_key(n) {
                        self.fails.push(("C18:register-effect".into(), "contains-disagrees-with-history".into(), format!("contains({:?}) = {} but the history says {}", n, reg.contains(n), self.accepted.contains_key(n))));
                    }
                    self.answers.push(if reg.contains(n) { "1" } else { "0" }.into());
                }
            }
        }
        // registration-only history: the registry is closed under nesting
        if self.reg_only {
            for (n, d) in &self.accepted {
                if !reg.contains(n) {
                    continue;
                }
                let mut refs = vec![];
                nested_refs(&d.metrics, &mut refs);
                if let Some(r) = refs.iter().find(|r| !reg.contains(r)) {
                    self.fails.push((
                        "C18:closed-under-nesting".into(),
                        "dangling-nested-template".into(),
                        format!("registered template {:?} nests {:?} which is not registered", n, r),
                    ));
                    break;
                }
            }
        }
    }
}

/// The template definition metrics of an NBIRTH, sorted by name: every metric but the two node
/// metrics each NBIRTH carries (`bdSeq`, `Node Control/Rebirth`; the harness's manager registers
/// no metric of its own).
fn nbirth_definitions(p: &Payload) -> Vec<PMetric> {
    let mut v: Vec<PMetric> = p
        .metrics
        .iter()
        .filter(|m| !(m.datatype != Some(TEMPLATE_DT) && m.name.as_deref().map_or(false, |n| RESERVED.contains(&n))))
        .cloned()
        .collect();
    v.sort_by(|a, b| a.name.as_deref().unwrap_or("").as_bytes().cmp(b.name.as_deref().unwrap_or("").as_bytes()));
    v
}

fn show_nbirth(defs: &[PMetric]) -> String {
    let mut parts = vec![defs.len().to_string()];
    for m in defs {
        let dt = m.datatype.map(|d| d.to_string()).unwrap_or_else(|| "~".into());
        let val = match &m.value {
            Some(metric::Value::TemplateValue(t)) => format!("T {}", tmpl_tok(t)),
            Some(v) => {
                let mut only = PMetric::new();
                only.value = Some(v.clone());
                format!("O v{}", hex(&only.encode_to_vec()))
            }
            None => "O ~".to_string(),
        };
        parts.push(format!("{} {} {}", name_tok(m.name.as_deref().unwrap_or("")), dt, val));
    }
    parts.join(" | ")
}

impl Shared {
    /// The registration sentence of C18 where it matters, at the node: what an NBIRTH announces
    /// after the callback is exactly what the history registered — every registered name once,
    /// with the definition it was registered WITH (compared token by token), marked as a
    /// definition; a refused register (or a deregister of another name) changed nothing.
    /// `self.accepted` is the harness's own record of the history.
    fn oracle_nbirth(&mut self, defs: &[PMetric], block: &str) {
        let registered = |s: &Shared| s.accepted.keys().cloned().collect::<Vec<_>>();
        let mut seen: BTreeMap<String, usize> = BTreeMap::new();
        for m in defs {
            let name = m.name.clone().unwrap_or_default();
            *seen.entry(name.clone()).or_insert(0) += 1;
            let content = match &m.value {
                Some(metric::Value::TemplateValue(t)) => Some(content_tok(&t.version, &t.metrics, &t.parameters)),
                _ => None,
            };
            // was exactly this definition offered under this name and refused?
            let refused_as = |s: &Shared| {
                s.refused
                    .iter()
                    .rev()
                    .find(|r| r.0 == name && Some(content_tok(&r.1.version, &r.1.metrics, &r.1.parameters)) == content)
                    .map(|r| (r.2, r.3.clone()))
            };
            match self.accepted.get(&name) {
                None => {
                    let (feature, what) = match refused_as(self) {
                        Some((w, line)) => (format!("refused-definition-announced:{}", w), format!("the definition of the refused registration `{}`", line)),
                        None => ("unregistered-name-announced".to_string(), "a definition".to_string()),
                    };
                    self.fails.push((
                        "C18:registered-with-node".into(),
                        feature,
                        format!("{}: the NBIRTH announces {} under the name {:?}, which is not registered (registered: {:?})", block, what, name, registered(self)),
                    ));
                }
                Some(d) => {
                    let marked = matches!(&m.value, Some(metric::Value::TemplateValue(t)) if t.is_definition == Some(true) && t.template_ref.is_none());
                    if !marked || m.datatype != Some(TEMPLATE_DT) {
                        self.fails.push((
                            "C18:definition-marked".into(),
                            "nbirth-markers".into(),
                            format!("{}: the NBIRTH metric {:?} of a registered template is not a template-typed definition without template_ref: {}", block, name, &show_nbirth(std::slice::from_ref(m))[..]),
                        ));
                    }
                    let want = content_tok(&d.version, &d.metrics, &d.parameters);
                    if content.is_some() && content.as_deref() != Some(want.as_str()) {
                        let (feature, what) = match refused_as(self) {
                            Some((w, line)) => (format!("refused-definition-announced:{}", w), format!("the definition of the refused registration `{}`", line)),
                            None => ("definition-changed".to_string(), format!("`{}`", &content.as_deref().unwrap()[..content.as_deref().unwrap().len().min(300)])),
                        };
                        self.fails.push((
                            "C18:registered-with-node".into(),
                            feature,
                            format!("{}: the name {:?} is registered with the definition `{}` but the NBIRTH announces {} under it", block, name, &want[..want.len().min(300)], what),
                        ));
                    }
                }
            }
        }
        if let Some(n) = self.accepted.keys().find(|n| !seen.contains_key(*n)) {
            self.fails.push((
                "C18:registered-with-node".into(),
                "registered-definition-not-announced".into(),
                format!("{}: {:?} is registered but the NBIRTH carries no definition of that name (announced: {:?})", block, n, seen.keys().collect::<Vec<_>>()),
            ));
        }
        if let Some((n, _)) = seen.iter().find(|(_, c)| **c > 1) {
            self.fails.push(("C18:registered-with-node".into(), "announced-twice".into(), format!("{}: the NBIRTH carries {:?} more than once", block, n)));
        }
    }
}

struct Mgr(Arc<Mutex<Shared>>);

impl MetricManager for Mgr {
    fn initialise_birth(&self, _bi: &mut BirthInitializer) {}
}

#[async_trait::async_trait]
impl NodeMetricManager for Mgr {
    fn birth_update_template_registry(&self, reg: &mut TemplateRegistry) {
        self.0.lock().unwrap().run_script(reg);
    }
}

fn parse_named(w: &[&str]) -> (String, TemplateDefinition) {
    let name = String::from_utf8(unhex(w[2])).unwrap();
    let mut c = Cur { t: w, i: 3 };
    let (version, metrics, parameters) = parse_content(&mut c);
    assert!(c.done());
    (name, TemplateDefinition { version, metrics, parameters })
}

fn new_builder(shared: &Arc<Mutex<Shared>>) -> (EoNBuilder, srad_client::channel::ChannelBroker) {
    let (el, client, broker) = srad_client::channel::ChannelEventLoop::new();
    let b = EoNBuilder::new(el, client)
        .with_group_id("g")
        .with_node_id("n")
        .with_metric_manager(Mgr(shared.clone()));
    (b, broker)
}

fn builder_register(b: EoNBuilder, name: &str, def: &TemplateDefinition, real: Option<usize>) -> Result<EoNBuilder, String> {
    CUR.with(|c| *c.borrow_mut() = (name.to_string(), def.clone()));
    catch(AssertUnwindSafe(move || match real {
        Some(0) => b.register_template::<Inner>(),
        Some(1) => b.register_template::<Mid>(),
        Some(2) => b.register_template::<Outer>(),
        Some(3) => b.register_template::<Reserved>(),
        Some(4) => b.register_template::<PumpApp>(),
        Some(5) => b.register_template::<PumpPlugin>(),
        Some(6) => b.register_template::<PumpUnversioned>(),
        Some(_) => b.register_template::<Station>(),
        None => b.register_template::<Dyn>(),
    }))
}

/// Run one whole case (op lines after `templ new`) on the real code; `real[k]` says that line k
/// registers one of the derive-generated types (generated cases only). Returns the answers.
fn run_case(ops: &[String], real: &[Option<usize>], out: &mut Out) -> Vec<String> {
    let shared = Arc::new(Mutex::new(Shared { reg_only: true, ..Default::default() }));
    let mut answers: Vec<String> = Vec::with_capacity(ops.len());
    let rt = tokio::runtime::Builder::new_current_thread().enable_time().start_paused(true).build().unwrap();
    let _guard = rt.enter();
    let (mut builder, mut broker) = {
        let (b, br) = new_builder(&shared);
        (Some(b), br)
    };
    // what the builder accepted so far (shadow of a registry we cannot look into)
    let mut accepted: Vec<(String, TemplateDefinition, Option<usize>)> = vec![];
    let mut k = 0;
    // ---- builder phase
    while k < ops.len() {
        let op = &ops[k];
        let w: Vec<&str> = op.split(' ').collect();
        match w[1] {
            "def" | "inst" | "dec" => answers.push(exec_value(op, out)),
            "breg" => {
                let (name, def) = parse_named(&w);
                let short = op[..op.len().min(300)].to_string();
                let mut refs = vec![];
                nested_refs(&def.metrics, &mut refs);
                if !refs.is_empty() || !well_formed(&def.metrics) {
                    out.nontrivial();
                }
                let why = refusal(&name, &def, &|n| accepted.iter().any(|a| a.0 == n));
                let rl = real.get(k).copied().flatten();
                match builder_register(builder.take().unwrap(), &name, &def, rl) {
                    Ok(b) => {
                        builder = Some(b);
                        if let Some(wy) = why {
                            out.fail(
                                "C18:register-iff",
                                &format!("{}-accepted", wy),
                                format!("{}: EoNBuilder::register_template did not panic although {} (accepted before: {:?})", short, wy, accepted.iter().map(|a| &a.0).collect::<Vec<_>>()),
                            );
                        }
                        accepted.push((name, def, rl));
                        answers.push("ok".into());
                    }
                    Err(_) => {
                        if why.is_none() {
                            out.fail("C18:register-iff", "valid-registration-rejected", format!("{}: EoNBuilder::register_template panicked", short));
                        }
                        // the builder is gone with the panic: rebuild it with what it had accepted
                        let (mut b, br) = new_builder(&shared);
                        broker = br;
                        for (n, d, r) in &accepted {
                            b = builder_register(b, n, d, *r).expect("re-registration of accepted templates");
                        }
                        builder = Some(b);
                        answers.push("panic".into());
                    }
                }
            }
            "birth" => break,
            x => panic!("op {} before the first birth", x),
        }
        k += 1;
    }
    if k == ops.len() {
        return answers;
    }
    // ---- births
    {
        let mut s = shared.lock().unwrap();
        for (n, d, _) in &accepted {
            s.accepted.insert(n.clone(), d.clone());
        }
    }
    let (eon, handle) = builder.take().unwrap().build().expect("build");
    let mut first = true;
    let answers2 = rt.block_on(async {
        let mut answers2: Vec<String> = vec![];
        tokio::spawn(eon.run());
        while k < ops.len() {
            assert_eq!(ops[k], "templ birth");
            let mut j = k + 1;
            let mut script = vec![];
            let mut pre: Vec<(usize, String)> = vec![]; // stateless ops interleaved
            let mut nbirth_at: Option<usize> = None;
            while j < ops.len() && ops[j] != "templ birth" {
                let w: Vec<&str> = ops[j].split(' ').collect();
                match w[1] {
                    "reg" => {
                        let (name, def) = parse_named(&w);
                        script.push(ROp::Reg { name, def, real: real.get(j).copied().flatten(), line: ops[j].clone() });
                    }
                    "dereg" => script.push(ROp::Dereg(String::from_utf8(unhex(w[2])).unwrap())),
                    "clear" => script.push(ROp::Clear),
                    "has" => script.push(ROp::Has(String::from_utf8(unhex(w[2])).unwrap())),
                    "def" | "inst" | "dec" => pre.push((j, ops[j].clone())),
                    "nbirth" => {
                        assert!(j + 1 == ops.len() || ops[j + 1] == "templ birth", "`templ nbirth` must close its birth block");
                        nbirth_at = Some(j);
                    }
                    x => panic!("op {} inside a birth", x),
                }
                j += 1;
            }
            let n_script = script.len();
            {
                let mut s = shared.lock().unwrap();
                s.script = script;
                s.answers.clear();
                s.ran = false;
            }
            if first {
                broker.tx_event.send(srad_client::Event::Online).unwrap();
                first = false;
            } else {
                handle.rebirth();
            }
            // quiescence barrier: returns when every other task is idle
            tokio::time::sleep(Duration::from_nanos(1)).await;
            // what the node handed over: the NBIRTH built from the registry the callback left behind
            let mut nbirth: Option<Payload> = None;
            while let Ok(m) = broker.rx_outbound.try_recv() {
                if let OutboundMessage::NodeMessage { topic, payload } = m {
                    if matches!(topic.message_type, NodeMessageKind::NBirth) {
                        nbirth = Some(payload);
                    }
                }
            }
            let announced = nbirth.as_ref().map(nbirth_definitions);
            let mut s = shared.lock().unwrap();
            if let (true, Some(defs)) = (s.ran, &announced) {
                let block = format!("birth block at op {} ({} registry ops)", k + 1, n_script);
                s.oracle_nbirth(defs, &block);
            }
            answers2.push(if s.ran { "ok".into() } else { "no-birth".into() });
            let mut it = s.answers.drain(..).collect::<Vec<_>>().into_iter();
            for l in (k + 1)..j {
                if let Some((_, o)) = pre.iter().find(|p| p.0 == l) {
                    answers2.push(format!("\u{1}{}", o)); // executed below, outside the lock
                } else if nbirth_at == Some(l) {
                    answers2.push(match &announced {
                        Some(defs) => show_nbirth(defs),
                        None => "no-nbirth".into(),
                    });
                } else {
                    answers2.push(it.next().unwrap_or_else(|| "no-birth".into()));
                }
            }
            k = j;
        }
        answers2
    });
    for a in answers2 {
        if let Some(op) = a.strip_prefix('\u{1}') {
            answers.push(exec_value(op, out));
        } else {
            answers.push(a);
        }
    }
    let mut s = shared.lock().unwrap();
    if s.nontrivial {
        out.nontrivial();
    }
    for (c, f, d) in s.fails.drain(..) {
        out.fail(&c, &f, d);
    }
    drop(s);
    drop(handle);
    answers
}

fn case(out: &mut Out, ops: &[String], real: &[Option<usize>], stat: &str) {
    out.begin_case("templ new", "ok");
    let answers = run_case(ops, real, out);
    for (o, a) in ops.iter().zip(answers.iter()) {
        out.line(o, a);
    }
    out.count(stat);
}

// ---------------------------------------------------------------- generators

fn name_tok(s: &str) -> String {
    hex(s.as_bytes())
}

fn plain_metric(name: &str, dt: Option<u32>, v: Option<metric::Value>) -> PMetric {
    let mut m = PMetric::new();
    m.name = Some(name.to_string());
    m.datatype = dt;
    m.value = v;
    m
}

fn inst_value(r: Option<&str>, metrics: Vec<PMetric>) -> metric::Value {
    metric::Value::TemplateValue(PTemplate {
        version: None,
        metrics,
        parameters: vec![],
        template_ref: r.map(|s| s.to_string()),
        is_definition: Some(false),
    })
}

/// a template-typed metric holding an instance of `r` with the given nested metrics
fn inst_metric(name: &str, r: &str, nested: Vec<PMetric>) -> PMetric {
    plain_metric(name, Some(TEMPLATE_DT), Some(inst_value(Some(r), nested)))
}

fn def_of(metrics: Vec<PMetric>) -> TemplateDefinition {
    TemplateDefinition { version: None, metrics, parameters: vec![] }
}

fn reg_line(verb: &str, name: &str, d: &TemplateDefinition) -> String {
    format!("templ {} {} {}", verb, name_tok(name), content_tok(&d.version, &d.metrics, &d.parameters))
}

fn rand_string(rng: &mut Rng) -> String {
    match rng.below(6) {
        0 => String::new(),
        1 => "1.0".into(),
        2 => "x".into(),
        3 => "ünï/cødé ✓".into(),
        _ => crate::c10::random_string(rng, false),
    }
}

fn rand_value(rng: &mut Rng) -> (u32, metric::Value) {
    match rng.below(8) {
        0 => (DataType::Int32 as u32, metric::Value::IntValue(rng.next() as u32)),
        1 => (DataType::UInt64 as u32, metric::Value::LongValue(rng.next())),
        2 => (DataType::Float as u32, metric::Value::FloatValue((rng.below(2000) as f32 - 1000.0) / 8.0)),
        3 => (DataType::Double as u32, metric::Value::DoubleValue((rng.below(200000) as f64 - 100000.0) / 64.0)),
        4 => (DataType::Boolean as u32, metric::Value::BooleanValue(rng.chance(1, 2))),
        5 => (DataType::String as u32, metric::Value::StringValue(rand_string(rng))),
        6 => (DataType::Bytes as u32, metric::Value::BytesValue((0..rng.below(6)).map(|_| rng.next() as u8).collect())),
        _ => (DataType::Int8 as u32, metric::Value::IntValue(rng.below(256) as u32)),
    }
}

fn rand_plain(rng: &mut Rng) -> PMetric {
    let (dt, v) = rand_value(rng);
    let mut m = PMetric::new();
    if !rng.chance(1, 8) {
        m.name = Some(rand_string(rng));
    }
    if rng.chance(1, 4) {
        m.alias = Some(rng.next());
    }
    if rng.chance(1, 4) {
        m.timestamp = Some(rng.below(1 << 40));
    }
    if rng.chance(1, 6) {
        m.is_historical = Some(rng.chance(1, 2));
    }
    if rng.chance(1, 6) {
        m.is_transient = Some(rng.chance(1, 2));
    }
    m.datatype = Some(dt);
    if rng.chance(1, 6) {
        m.is_null = Some(true);
    } else {
        m.value = Some(v);
    }
    m
}

fn rand_param(rng: &mut Rng) -> PParam {
    let (t, v) = match rng.below(5) {
        0 => (DataType::Int32 as u32, Some(parameter::Value::IntValue(rng.next() as u32))),
        1 => (DataType::Double as u32, Some(parameter::Value::DoubleValue(rng.below(1000) as f64 / 4.0))),
        2 => (DataType::String as u32, Some(parameter::Value::StringValue(rand_string(rng)))),
        3 => (DataType::Boolean as u32, Some(parameter::Value::BooleanValue(rng.chance(1, 2)))),
        _ => (DataType::UInt64 as u32, None),
    };
    PParam {
        name: if rng.chance(1, 8) { None } else { Some(rand_string(rng)) },
        r#type: if rng.chance(1, 8) { None } else { Some(t) },
        value: v,
    }
}

/// a malformed metric (one of the ways a definition can be invalid) or a type-confused one
fn rand_odd(rng: &mut Rng, pool: &[&str]) -> PMetric {
    match rng.below(7) {
        0 => plain_metric("nodt", None, Some(metric::Value::IntValue(1))),
        1 => plain_metric("baddt", Some(*rng.pick(&[35u32, 36, 99, 255, 65536, u32::MAX])), Some(metric::Value::IntValue(1))),
        2 => plain_metric("tnoval", Some(TEMPLATE_DT), None),
        3 => plain_metric("tint", Some(TEMPLATE_DT), Some(metric::Value::IntValue(3))),
        4 => plain_metric("tnoref", Some(TEMPLATE_DT), Some(inst_value(None, vec![]))),
        5 => plain_metric("intwithtemplate", Some(DataType::Int32 as u32), Some(inst_value(Some(*rng.pick(pool)), vec![]))),
        _ => plain_metric("nodt-templ", None, Some(inst_value(Some(*rng.pick(pool)), vec![]))),
    }
}

fn rand_metrics(rng: &mut Rng, depth: u32, pool: &[&str], odd: u64) -> Vec<PMetric> {
    let n = rng.below(4);
    (0..n)
        .map(|_| {
            if odd > 0 && rng.chance(odd, 100) {
                rand_odd(rng, pool)
            } else if depth > 0 && rng.chance(2, 5) {
                let mut m = rand_plain(rng);
                m.datatype = Some(TEMPLATE_DT);
                m.is_null = None;
                m.value = Some(metric::Value::TemplateValue(PTemplate {
                    version: if rng.chance(1, 2) { Some(rand_string(rng)) } else { None },
                    metrics: rand_metrics(rng, depth - 1, pool, odd),
                    parameters: (0..rng.below(2)).map(|_| rand_param(rng)).collect(),
                    template_ref: Some(rng.pick(pool).to_string()),
                    is_definition: Some(false),
                }));
                m
            } else {
                rand_plain(rng)
            }
        })
        .collect()
}

fn rand_content(rng: &mut Rng, pool: &[&str], odd: u64) -> (Option<String>, Vec<PMetric>, Vec<PParam>) {
    let version = if rng.chance(1, 2) { Some(rand_string(rng)) } else { None };
    let metrics = if rng.chance(1, 6) { vec![] } else { rand_metrics(rng, 3, pool, odd) };
    let params = (0..rng.below(3)).map(|_| rand_param(rng)).collect();
    (version, metrics, params)
}

/// the families of nested templates whose registration orders are enumerated exhaustively
fn families() -> Vec<(&'static str, Vec<(&'static str, TemplateDefinition)>)> {
    let p = || plain_metric("v", Some(DataType::Int32 as u32), Some(metric::Value::IntValue(0)));
    let a_in = || inst_metric("a", "A", vec![p()]);
    let b_in = || inst_metric("b", "B", vec![a_in(), p()]);
    vec![
        (
            "chain",
            vec![
                ("A", def_of(vec![p()])),
                ("B", def_of(vec![p(), a_in()])),
                ("C", def_of(vec![b_in(), p()])),
                ("D", def_of(vec![inst_metric("c", "C", vec![b_in()])])),
            ],
        ),
        (
            "diamond",
            vec![
                ("A", def_of(vec![])),
                ("B", def_of(vec![a_in()])),
                ("C", def_of(vec![a_in(), p()])),
                ("D", def_of(vec![inst_metric("b", "B", vec![a_in()]), inst_metric("c", "C", vec![a_in(), p()])])),
            ],
        ),
        (
            // the second sibling is the one that may be missing (the first is registered)
            "siblings",
            vec![
                ("A", def_of(vec![p()])),
                ("B", def_of(vec![p()])),
                ("C", def_of(vec![a_in(), inst_metric("b", "B", vec![p()])])),
                ("D", def_of(vec![inst_metric("b", "B", vec![p()]), a_in(), p()])),
            ],
        ),
        (
            // only the deep reference may be missing: C nests B (registered) whose instance nests A
            "deep",
            vec![
                ("A", def_of(vec![p()])),
                ("B", def_of(vec![p()])),
                ("C", def_of(vec![inst_metric("b", "B", vec![inst_metric("a", "A", vec![p()])])])),
            ],
        ),
        (
            "cyclic",
            vec![
                ("A", def_of(vec![inst_metric("self", "A", vec![])])),
                ("B", def_of(vec![inst_metric("c", "C", vec![])])),
                ("C", def_of(vec![inst_metric("b", "B", vec![])])),
                ("D", def_of(vec![p()])),
            ],
        ),
        (
            "reserved",
            vec![
                ("bdSeq", def_of(vec![p()])),
                ("Node Control/Rebirth", def_of(vec![])),
                ("A", def_of(vec![inst_metric("x", "bdSeq", vec![])])),
                ("bdseq", def_of(vec![p()])),
            ],
        ),
    ]
}

/// all sequences of distinct indices below n (every ordered subset)
fn ordered_subsets(n: usize) -> Vec<Vec<usize>> {
    fn go(n: usize, cur: &mut Vec<usize>, acc: &mut Vec<Vec<usize>>) {
        acc.push(cur.clone());
        for i in 0..n {
            if !cur.contains(&i) {
                cur.push(i);
                go(n, cur, acc);
                cur.pop();
            }
        }
    }
    let mut acc = vec![];
    go(n, &mut vec![], &mut acc);
    acc
}

pub fn run(args: &Args, out: &mut Out) -> &'static str {
    let mut rng = Rng::new(args.seed);
    let th = args.thorough();
    let pool = ["A", "B", "C", "D", "inner:1.0", "", "bdSeq"];

    // ---- W1: every marker combination x template_ref spelling x content, and non-template values
    let contents: Vec<(Option<String>, Vec<PMetric>, Vec<PParam>)> = {
        let mut v = vec![
            (None, vec![], vec![]),
            (Some(String::new()), vec![], vec![]),
            (Some("1.0".into()), vec![plain_metric("v", Some(3), Some(metric::Value::IntValue(7)))], vec![]),
            (None, vec![inst_metric("a", "A", vec![plain_metric("v", Some(3), None)])], vec![rand_param(&mut rng)]),
        ];
        for _ in 0..(if th { 40 } else { 8 }) {
            v.push(rand_content(&mut rng, &pool, 10));
        }
        v
    };
    for (version, metrics, params) in &contents {
        let mut ops = vec![];
        for d in [None, Some(true), Some(false)] {
            for r in [None, Some(""), Some("A"), Some("ünï")] {
                let t = PTemplate {
                    version: version.clone(),
                    metrics: metrics.clone(),
                    parameters: params.clone(),
                    template_ref: r.map(|s| s.to_string()),
                    is_definition: d,
                };
                ops.push(format!("templ dec T {}", tmpl_tok(&t)));
                out.count(&format!(
                    "markers:{}{}",
                    match d {
                        None => "none",
                        Some(true) => "true",
                        Some(false) => "false",
                    },
                    if r.is_some() { "+ref" } else { "" }
                ));
            }
        }
        case(out, &ops, &[], "marker-table");
    }
    out.exhaustive.push("every combination of is_definition in {absent,true,false} x template_ref in {absent,\"\",\"A\",non-ASCII} on each content".into());
    {
        let mut ops = vec![];
        for v in [
            metric::Value::IntValue(0),
            metric::Value::LongValue(1),
            metric::Value::FloatValue(1.5),
            metric::Value::DoubleValue(-2.0),
            metric::Value::BooleanValue(true),
            metric::Value::StringValue("t".into()),
            metric::Value::BytesValue(vec![1, 2]),
            metric::Value::DatasetValue(Default::default()),
            metric::Value::ExtensionValue(Default::default()),
        ] {
            let mut only = PMetric::new();
            only.value = Some(v);
            ops.push(format!("templ dec O v{}", hex(&only.encode_to_vec())));
            out.count("markers:not-a-template-value");
        }
        case(out, &ops, &[], "non-template-values");
        out.exhaustive.push("every non-template variant of metric::Value into the four decoders".into());
    }

    // ---- W2: definitions and instances: fixed, derive-generated, random
    {
        let mut ops = vec![];
        for (version, metrics, params) in &contents {
            ops.push(format!("templ def {}", content_tok(version, metrics, params)));
            for r in ["", "A", "ünï"] {
                ops.push(format!("templ inst {} {}", name_tok(r), content_tok(version, metrics, params)));
            }
        }
        for i in 0..REAL {
            let (_, d) = real_info(i);
            ops.push(format!("templ def {}", content_tok(&d.version, &d.metrics, &d.parameters)));
            let inst = real_instance(i);
            ops.push(format!("templ inst {} {}", name_tok(&inst.template_ref), content_tok(&inst.version, &inst.metrics, &inst.parameters)));
            out.count("derive-generated-definitions-and-instances");
        }
        for o in &ops {
            case(out, std::slice::from_ref(o), &[], "fixed-definitions-and-instances");
        }
    }
    for _ in 0..(if th { 4000 } else { 500 }) {
        let (version, metrics, params) = rand_content(&mut rng, &pool, 8);
        let op = if rng.chance(1, 2) {
            out.count(if metrics.is_empty() && params.is_empty() { "definition:empty" } else { "definition:populated" });
            out.count(if version.is_some() { "definition:with-version" } else { "definition:without-version" });
            format!("templ def {}", content_tok(&version, &metrics, &params))
        } else {
            out.count(if metrics.is_empty() && params.is_empty() { "instance:empty" } else { "instance:populated" });
            out.count(if version.is_some() { "instance:with-version" } else { "instance:without-version" });
            format!("templ inst {} {}", name_tok(&rand_string(&mut rng)), content_tok(&version, &metrics, &params))
        };
        if has_nested_template(&metrics) {
            out.count("content:nested-template");
        }
        case(out, &[op], &[], "random-roundtrip");
    }
    // random marker mutations of random templates
    for _ in 0..(if th { 2000 } else { 300 }) {
        let (version, metrics, parameters) = rand_content(&mut rng, &pool, 8);
        let t = PTemplate {
            version,
            metrics,
            parameters,
            template_ref: if rng.chance(1, 2) { Some(rand_string(&mut rng)) } else { None },
            is_definition: *rng.pick(&[None, Some(true), Some(false)]),
        };
        case(out, &[format!("templ dec T {}", tmpl_tok(&t))], &[], "random-markers");
    }

    // ---- R1: every registration order of every ordered subset of each family, in a birth
    //          callback and through the builder
    for (fname, members) in families() {
        for order in ordered_subsets(members.len()) {
            for via_builder in [false, true] {
                let mut ops = vec![];
                if !via_builder {
                    ops.push("templ birth".to_string());
                }
                for &i in &order {
                    ops.push(reg_line(if via_builder { "breg" } else { "reg" }, members[i].0, &members[i].1));
                }
                if via_builder {
                    ops.push("templ birth".to_string());
                }
                for m in &members {
                    ops.push(format!("templ has {}", name_tok(m.0)));
                }
                ops.push("templ nbirth".to_string());
                case(out, &ops, &[], &format!("family:{}", fname));
                if order.len() < members.len() {
                    out.count("family-orders:members-missing");
                } else {
                    out.count("family-orders:all-members");
                }
            }
        }
    }
    out.exhaustive.push("6 template families (chain, diamond, siblings, deep, cyclic, reserved names) x every ordered subset of their members x {birth callback, builder}".into());
    // the derive-generated family through the real types
    for order in ordered_subsets(REAL) {
        for via_builder in [false, true] {
            let mut ops = vec![];
            let mut real = vec![];
            if !via_builder {
                ops.push("templ birth".to_string());
                real.push(None);
            }
            for &i in &order {
                let (n, d) = real_info(i);
                ops.push(reg_line(if via_builder { "breg" } else { "reg" }, &n, &d));
                real.push(Some(i));
            }
            if via_builder {
                ops.push("templ birth".to_string());
                real.push(None);
            }
            for i in 0..REAL {
                ops.push(format!("templ has {}", name_tok(&real_info(i).0)));
                real.push(None);
            }
            ops.push("templ nbirth".to_string());
            real.push(None);
            case(out, &ops, &real, "family:derive-generated");
        }
    }
    out.exhaustive.push("#[derive(Template)] family Inner/Mid/Outer/(reserved name) x every ordered subset x {birth callback, builder}".into());

    // ---- R2: one definition against every registry state over {A,B}: metric lists up to
    //          length 2 (3 in the thorough tier) over an alphabet of metric shapes
    let alphabet: Vec<(&str, PMetric)> = vec![
        ("plain", plain_metric("v", Some(DataType::Int32 as u32), Some(metric::Value::IntValue(1)))),
        ("no-datatype", plain_metric("v", None, Some(metric::Value::IntValue(1)))),
        ("bad-datatype", plain_metric("v", Some(35), None)),
        ("template-no-value", plain_metric("v", Some(TEMPLATE_DT), None)),
        ("template-int-value", plain_metric("v", Some(TEMPLATE_DT), Some(metric::Value::IntValue(1)))),
        ("template-no-ref", plain_metric("v", Some(TEMPLATE_DT), Some(inst_value(None, vec![])))),
        ("inst-A", inst_metric("a", "A", vec![])),
        ("inst-B", inst_metric("b", "B", vec![])),
        ("inst-A-nesting-B", inst_metric("a", "A", vec![inst_metric("b", "B", vec![])])),
        ("inst-A-nesting-malformed", inst_metric("a", "A", vec![plain_metric("v", None, None)])),
        ("int-holding-template", plain_metric("v", Some(DataType::Int32 as u32), Some(inst_value(Some("B"), vec![])))),
    ];
    let max_len = if th { 3 } else { 2 };
    let mut lists: Vec<Vec<usize>> = vec![vec![]];
    let mut frontier: Vec<Vec<usize>> = vec![vec![]];
    for _ in 0..max_len {
        let mut next = vec![];
        for l in &frontier {
            for i in 0..alphabet.len() {
                let mut l2 = l.clone();
                l2.push(i);
                next.push(l2);
            }
        }
        lists.extend(next.iter().cloned());
        frontier = next;
    }
    for state in 0..4u32 {
        for l in &lists {
            let d = def_of(l.iter().map(|&i| alphabet[i].1.clone()).collect());
            let mut ops = vec!["templ birth".to_string()];
            if state & 1 != 0 {
                ops.push(reg_line("reg", "A", &def_of(vec![])));
            }
            if state & 2 != 0 {
                ops.push(reg_line("reg", "B", &def_of(vec![])));
            }
            ops.push(reg_line("reg", "C", &d));
            ops.push(format!("templ has {}", name_tok("C")));
            // and the same definition under a taken / reserved name
            ops.push(reg_line("reg", "A", &d));
            ops.push(reg_line("reg", "bdSeq", &d));
            ops.push("templ nbirth".to_string());
            case(out, &ops, &[], "definition-table");
            for &i in l {
                out.count(&format!("metric-shape:{}", alphabet[i].0));
            }
        }
    }
    out.exhaustive.push(format!("registry state over {{A,B}} (4) x every metric list of length <= {} over 11 metric shapes (well-formed, 5 malformed kinds, registered/unregistered/deep references, type-confused), under a free, a taken and a reserved name", max_len));

    // ---- R4: a taken name keeps its definition. Two DIFFERENT definitions under one name, the
    //          second offered after the first; refused calls of every kind; what every NBIRTH
    //          afterwards announces. Each history is run (a) in one callback, (b) one call per
    //          birth, (c) with its first registration made through the builder; an empty rebirth
    //          follows ("every NBIRTH").
    {
        let p = |n: &str| plain_metric(n, Some(DataType::Int32 as u32), Some(metric::Value::IntValue(0)));
        let d1 = def_of(vec![p("rpm")]);
        let d2 = TemplateDefinition {
            version: None,
            metrics: vec![
                plain_metric("pressure", Some(DataType::Double as u32), Some(metric::Value::DoubleValue(0.0))),
                plain_metric("running", Some(DataType::Boolean as u32), Some(metric::Value::BooleanValue(false))),
            ],
            parameters: vec![PParam { name: Some("site".into()), r#type: Some(DataType::String as u32), value: Some(parameter::Value::StringValue("x".into())) }],
        };
        // differs from d1 in the version only / in one parameter only
        let d1v = TemplateDefinition { version: Some("1".into()), ..d1.clone() };
        let d1p = TemplateDefinition { parameters: d2.parameters.clone(), ..d1.clone() };
        let malformed = def_of(vec![p("rpm"), plain_metric("v", None, None)]);
        let dangling = def_of(vec![inst_metric("z", "Z", vec![])]);
        let user_of = |n: &str| def_of(vec![inst_metric("pump", n, vec![p("rpm")]), p("id")]);
        let mut histories: Vec<(&str, Vec<(String, Option<usize>)>)> = vec![];
        for n in ["N", "pump:1", "", "ünï"] {
            let r = |d: &TemplateDefinition| (reg_line("reg", n, d), None);
            let has = (format!("templ has {}", name_tok(n)), None);
            histories.push(("taken", vec![r(&d1), r(&d2), has.clone()]));
            histories.push(("taken-version-differs", vec![r(&d1), r(&d1v), has.clone()]));
            histories.push(("taken-parameter-differs", vec![r(&d1), r(&d1p), r(&d1), has.clone()]));
            histories.push(("taken-twice", vec![r(&d2), r(&d1), r(&d1v), r(&d2), has.clone()]));
            histories.push(("taken-then-freed", vec![r(&d1), r(&d2), (format!("templ dereg {}", name_tok(n)), None), has.clone(), r(&d2), has.clone(), r(&d1)]));
            histories.push(("taken-then-cleared", vec![r(&d1), r(&d2), ("templ clear".into(), None), r(&d2), r(&d1), has.clone()]));
            histories.push(("taken-and-nested", vec![r(&d1), (reg_line("reg", "user", &user_of(n)), None), r(&d2), has.clone()]));
            histories.push(("taken-by-malformed", vec![r(&d1), r(&malformed), r(&dangling), (reg_line("reg", "bdSeq", &d2), None), (reg_line("reg", "Node Control/Rebirth", &d1), None), has.clone()]));
            histories.push(("refused-on-free-name", vec![r(&malformed), r(&dangling), has.clone(), r(&d2), r(&malformed)]));
            histories.push(("same-definition-again", vec![r(&d1), r(&d1), r(&d1), has.clone()]));
            histories.push(("deregister-other", vec![r(&d1), (reg_line("reg", "other", &d2), None), ("templ dereg 6e6f6e65".into(), None), r(&d2), ("templ dereg 6f74686572".into(), None), has.clone()]));
        }
        // through the real types: application, plugin and unversioned pump all want "pump:1"
        for i in PUMPS {
            for j in PUMPS {
                if i == j {
                    continue;
                }
                let ri = |k: usize| {
                    let (n, d) = real_info(k);
                    (reg_line("reg", &n, &d), Some(k))
                };
                let has = (format!("templ has {}", name_tok("pump:1")), None);
                histories.push(("derive-generated-taken", vec![ri(i), ri(j), has.clone()]));
                histories.push(("derive-generated-taken-and-nested", vec![ri(i), ri(STATION), ri(j), ri(i), has.clone()]));
                let k = PUMPS.clone().find(|k| *k != i && *k != j).unwrap();
                histories.push(("derive-generated-taken-twice", vec![ri(i), ri(j), ri(k), has.clone()]));
            }
        }
        for (what, h) in &histories {
            for shape in 0..3 {
                let mut ops: Vec<String> = vec![];
                let mut real: Vec<Option<usize>> = vec![];
                let mut push = |o: &str, r: Option<usize>| {
                    ops.push(o.to_string());
                    real.push(r);
                };
                match shape {
                    0 => {
                        push("templ birth", None);
                        for (o, r) in h {
                            push(o, *r);
                        }
                        push("templ nbirth", None);
                    }
                    1 => {
                        for (o, r) in h {
                            push("templ birth", None);
                            push(o, *r);
                            push("templ nbirth", None);
                        }
                    }
                    _ => {
                        push(&h[0].0.replacen("templ reg ", "templ breg ", 1), h[0].1);
                        push("templ birth", None);
                        for (o, r) in &h[1..] {
                            push(o, *r);
                        }
                        push("templ nbirth", None);
                    }
                }
                // every NBIRTH: a rebirth in which the callback does nothing
                push("templ birth", None);
                push("templ nbirth", None);
                case(out, &ops, &real, "name-collision");
                out.count(&format!("name-collision:{}", what));
                out.count(["name-collision-shape:one-callback", "name-collision-shape:one-call-per-birth", "name-collision-shape:first-through-builder"][shape]);
            }
        }
        out.exhaustive.push("name collisions: 11 histories (second definition differing in everything / version only / one parameter only, refused for every reason, freed by deregister / clear, nested owner, same definition again) x 4 names, and every ordered pair / triple of three #[derive(Template)] types resolving to \"pump:1\" (same name+version; unversioned name containing the separator), each x {one callback, one call per birth, first registration through the builder} + an empty rebirth; every NBIRTH inspected".into());
    }

    // ---- R3: random histories: builder phase, several births, register / deregister / clear
    for _ in 0..(if th { 3000 } else { 400 }) {
        let names = ["A", "B", "C", "D", "bdSeq", "Node Control/Rebirth", "", "ünï"];
        let mut ops = vec![];
        let odd = *rng.pick(&[0u64, 0, 5, 25]);
        let reg_only = rng.chance(1, 2);
        // one registry call per birth: every call's effect on what the node announces is seen on its own
        let per_op = rng.chance(1, 3);
        for _ in 0..rng.below(4) {
            let (_, metrics, params) = rand_content(&mut rng, &names[..5], odd);
            let d = TemplateDefinition { version: None, metrics, parameters: params };
            ops.push(reg_line("breg", *rng.pick(&names), &d));
            out.count("history-op:breg");
        }
        for _ in 0..rng.range(1, 3) {
            let mut block = vec![];
            for _ in 0..rng.below(7) {
                match rng.below(10) {
                    0 if !reg_only => {
                        block.push(format!("templ dereg {}", name_tok(*rng.pick(&names))));
                        out.count("history-op:dereg");
                    }
                    1 if !reg_only => {
                        block.push("templ clear".to_string());
                        out.count("history-op:clear");
                    }
                    2 | 3 => {
                        block.push(format!("templ has {}", name_tok(*rng.pick(&names))));
                        out.count("history-op:has");
                    }
                    _ => {
                        let (version, metrics, params) = rand_content(&mut rng, &names[..5], odd);
                        let d = TemplateDefinition { version, metrics, parameters: params };
                        block.push(reg_line("reg", *rng.pick(&names), &d));
                        out.count("history-op:reg");
                    }
                }
            }
            if per_op && !block.is_empty() {
                for o in block {
                    ops.push("templ birth".to_string());
                    ops.push(o);
                    ops.push("templ nbirth".to_string());
                    out.count("history-op:nbirth");
                }
            } else {
                ops.push("templ birth".to_string());
                ops.extend(block);
                ops.push("templ nbirth".to_string());
                out.count("history-op:nbirth");
            }
        }
        // the final questions go into the last birth block, which `templ nbirth` closes
        ops.pop();
        for n in names {
            ops.push(format!("templ has {}", name_tok(n)));
        }
        ops.push("templ nbirth".to_string());
        out.count(if per_op { "random-history:one-call-per-birth" } else { "random-history:several-calls-per-birth" });
        case(out, &ops, &[], if reg_only { "random-history:registration-only" } else { "random-history:with-deregister-clear" });
    }
    RULE
}

pub fn replay(_desc: &str, lines: &[String], out: &mut Out) {
    // a case is `templ new` followed by its op lines
    let ops: Vec<String> = lines.iter().filter(|l| l.as_str() != "templ new").cloned().collect();
    out.begin_case("templ new", "ok");
    let answers = run_case(&ops, &[], out);
    for (o, a) in ops.iter().zip(answers.iter()) {
        out.line(o, a);
    }
}

// ---------------------------------------------------------------- T-table

/// T-table `TemplTable`: the decision table of the three decoders and of datatype-directed
/// decoding over the two markers (and over non-template values), and the markers written by the
/// two encoders, enumerated through the compiled crate.
pub fn table_templ() -> String {
    let mut s = String::from("-- GENERATED by `srad-verif table TemplTable` from the compiled srad-types; do not edit.\n-- templTable rows: (markers (none = not a template value; is_definition, template_ref present),\n--   shape of TemplateDefinition::try_from, TemplateInstance::try_from, TemplateValue::try_from,\n--   MetricValueKind::try_from_metric_value(Template))\n-- templEncTable rows: (instance?, is_definition written, template_ref written)\nimport SradModel.Model.Templ\nnamespace Srad.Generated\nopen Srad.Templ\n\ndef templTable : List (Option (Option Bool × Bool) × TShape × TShape × TShape × TShape) := [\n");
    let mut rows = vec![];
    let contents: Vec<(Option<String>, Vec<PMetric>, Vec<PParam>)> = vec![
        (None, vec![], vec![]),
        (
            Some("1.0".into()),
            vec![
                plain_metric("v", Some(3), Some(metric::Value::IntValue(7))),
                inst_metric("a", "A", vec![plain_metric("v", None, None)]),
            ],
            vec![PParam { name: Some("p".into()), r#type: Some(3), value: Some(parameter::Value::IntValue(1)) }],
        ),
    ];
    for v in [
        metric::Value::IntValue(0),
        metric::Value::StringValue("t".into()),
        metric::Value::BytesValue(vec![]),
        metric::Value::DatasetValue(Default::default()),
        metric::Value::BooleanValue(true),
    ] {
        let sh = decode_all(&v).shapes();
        rows.push(format!("  (none, TShape.{}, TShape.{}, TShape.{}, TShape.{})", sh[0], sh[1], sh[2], sh[3]));
    }
    for (version, metrics, params) in &contents {
        for d in [None, Some(true), Some(false)] {
            for r in [None, Some(""), Some("A")] {
                let t = PTemplate {
                    version: version.clone(),
                    metrics: metrics.clone(),
                    parameters: params.clone(),
                    template_ref: r.map(|s| s.to_string()),
                    is_definition: d,
                };
                let sh = decode_all(&metric::Value::TemplateValue(t)).shapes();
                rows.push(format!(
                    "  (some ({}, {}), TShape.{}, TShape.{}, TShape.{}, TShape.{})",
                    match d {
                        None => "none",
                        Some(true) => "some true",
                        Some(false) => "some false",
                    },
                    r.is_some(),
                    sh[0],
                    sh[1],
                    sh[2],
                    sh[3]
                ));
            }
        }
    }
    s.push_str(&rows.join(",\n"));
    s.push_str("\n]\n\ndef templEncTable : List (Bool × Option Bool × Bool) := [\n");
    let mut rows = vec![];
    let lean_ob = |b: Option<bool>| match b {
        None => "none",
        Some(true) => "some true",
        Some(false) => "some false",
    };
    for (version, metrics, params) in &contents {
        let d = TemplateDefinition { version: version.clone(), metrics: metrics.clone(), parameters: params.clone() };
        if let metric::Value::TemplateValue(t) = MetricValue::from(d).0 {
            rows.push(format!("  (false, {}, {})", lean_ob(t.is_definition), t.template_ref.is_some()));
        }
        for r in ["", "A"] {
            let i = TemplateInstance { template_ref: r.into(), version: version.clone(), metrics: metrics.clone(), parameters: params.clone() };
            if let metric::Value::TemplateValue(t) = MetricValue::from(i).0 {
                rows.push(format!("  (true, {}, {})", lean_ob(t.is_definition), t.template_ref.is_some()));
            }
        }
    }
    s.push_str(&rows.join(",\n"));
    s.push_str("\n]\n\nend Srad.Generated\n");
    s
}
