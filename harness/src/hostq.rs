//! Component `hostq` (C06, with the C05 / C07 / C14 clauses its oracles carry): the real
//! `srad_app::generic_app::Application` driven WITHOUT quiescence between events. A request is a
//! whole burst: every event is handed to the event loop before anything is handled, then the
//! runtime runs to quiescence (paused tokio time, mock clock frozen during the burst). Several
//! messages queue up in a node's bounded channel (the dispatcher blocks when it is full), reasons
//! `try_send`t by the dispatcher / the timeout task wait in the capacity-1 rebirth channel and are
//! consumed at a position the unbiased `select!` chooses. The line carries what every node's
//! stores / the client saw; the model driver answers whether SOME schedule of `Model/HostQ`
//! produces exactly that (trace admission), so the implementation's answer is always `ok`.
//!
//!   hostq new ip= bd= un= ud= um= rf= rs= to=<ms|-> cd=<ms> rq=<0|1> q=<n> now=<ms>
//!   hostq burst <ev>|<ev>|… now=<ms> => n1:[e;e;…] n2:[…]        (`-` when nothing happened)
//!   hostq adv <ms> now=<ms> => n1:[…]
//!   hostq cancel off=<0|1> now=<ms> => n1:[…] w=<ms>     `AppClient::cancel()` between two bursts (final Offline
//!                                                          delivered / withheld), w = ms until `run()` had returned;
//!                                                          every later burst must observe `-`
//! `<ev>` is a `host` request without the leading `host ` and without `now=`:
//! `ev <node> nbirth|ndeath|ndata|dbirth|ddeath|ddata k=v…`, `inv <node>`, `offline`, `online`.
use crate::common::*;
use crate::host::{cfg_random, displaced, session, FinalOffline, PMsg, Sess, HOST_STOP_BOUND_MS};
use std::collections::{BTreeMap, BTreeSet};

fn kv<'a>(w: &'a [&'a str], key: &str) -> Option<&'a str> {
    w.iter().find_map(|t| t.strip_prefix(key).and_then(|r| r.strip_prefix('=')))
}

fn render(by_node: &[(String, Vec<String>)]) -> String {
    if by_node.is_empty() {
        return "-".into();
    }
    by_node.iter().map(|(n, t)| format!("{}:[{}]", n, t.join(";"))).collect::<Vec<_>>().join(" ")
}

pub struct QSess {
    pub sess: Sess,
    host_online: bool,
    known: BTreeSet<String>,
    ip: bool,
    /// fault-free cases (`sess.clean`), per node: the sequence numbers of the current publisher session that have
    /// arrived (value: does applying the message call a store's birth / data method) and how many such calls the
    /// stores have seen since the session's NBIRTH was applied
    arrived: BTreeMap<String, BTreeMap<u64, bool>>,
    applied: BTreeMap<String, u64>,
    /// `with_node_queue_size` of the case
    q: u64,
    /// C14 (`every well-formed message is admitted`), fault-free cases, per node: the store call by which each
    /// message of the current publisher session that carries its id in a metric shows that it was admitted
    /// (by sequence number; removed once judged), and the store calls seen since the session's NBIRTH was applied
    expect_tok: BTreeMap<String, BTreeMap<u64, (String, &'static str)>>,
    seen_tok: BTreeMap<String, BTreeSet<String>>,
}

impl QSess {
    pub fn new(op: &str) -> QSess {
        let mut sess = Sess::new(op);
        sess.burst_mode = true;
        let w: Vec<&str> = op.split(' ').collect();
        QSess {
            sess,
            host_online: true,
            known: BTreeSet::new(),
            ip: kv(&w, "ip") == Some("1"),
            arrived: BTreeMap::new(),
            applied: BTreeMap::new(),
            q: kv(&w, "q").and_then(|x| x.parse().ok()).unwrap_or(1024),
            expect_tok: BTreeMap::new(),
            seen_tok: BTreeMap::new(),
        }
    }

    /// execute one request line (without its ` => …` part) on the real code; returns the complete
    /// op line (request + observation)
    pub fn exec(&mut self, req: &str, out: &mut Out) -> String {
        let w: Vec<&str> = req.split(' ').collect();
        let now: u64 = kv(&w, "now").expect("now=").parse().unwrap();
        match w[1] {
            "burst" => {
                let body = &req["hostq burst ".len()..req.rfind(" now=").unwrap()];
                let mut events = vec![];
                // what the burst must leave stale: the last lifecycle input per node
                let mut last_is_death: BTreeMap<String, bool> = BTreeMap::new();
                // C14: the NBIRTHs of this burst (node, id) and how many messages the burst holds per node
                let mut births_here: Vec<(String, i64)> = vec![];
                let mut per_node: BTreeMap<String, u64> = BTreeMap::new();
                for e in body.split('|') {
                    let mut ew: Vec<&str> = vec!["hostq"];
                    ew.extend(e.split(' '));
                    match ew[1] {
                        "ev" => {
                            let n = ew[2].to_string();
                            let id = kv(&ew, "id").and_then(|x| x.parse::<i64>().ok()).unwrap_or(0);
                            let ts = kv(&ew, "ts").and_then(|x| x.parse::<u64>().ok()).unwrap_or(0);
                            *per_node.entry(n.clone()).or_default() += 1;
                            match ew[3] {
                                "nbirth" => {
                                    self.sess.note_nbirth(&n, id, ts);
                                    self.known.insert(n.clone());
                                    self.arrived.insert(n.clone(), BTreeMap::new());
                                    self.expect_tok.insert(n.clone(), BTreeMap::new());
                                    births_here.push((n.clone(), id));
                                    last_is_death.insert(n, false);
                                }
                                "ndeath" => {
                                    self.arrived.remove(&n);
                                    self.expect_tok.remove(&n);
                                    if self.known.contains(&n) {
                                        last_is_death.insert(n, true);
                                    }
                                }
                                k => {
                                    self.sess.note_msg(&n, id, ts);
                                    if let (Some(a), Some(seq)) = (self.arrived.get_mut(&n), kv(&ew, "seq").and_then(|x| x.parse::<u64>().ok())) {
                                        a.insert(seq, k != "ddeath");
                                        // the store call that shows this very message (its id rides in a metric)
                                        let tok = match (k, kv(&ew, "m") == Some("0") || id <= 0) {
                                            ("ndata", false) => Some((format!("nodeData({})", id), "ndata")),
                                            ("dbirth", false) => Some((format!("devBirth({},{},1)", kv(&ew, "dev").unwrap_or("?"), id), "dbirth")),
                                            ("ddata", false) => Some((format!("devData({},{})", kv(&ew, "dev").unwrap_or("?"), id), "ddata")),
                                            _ => None,
                                        };
                                        if let (Some(t), Some(x)) = (tok, self.expect_tok.get_mut(&n)) {
                                            x.insert(seq, t);
                                        }
                                    }
                                    self.known.insert(n);
                                }
                            }
                        }
                        "inv" => {
                            if self.ip {
                                self.known.insert(ew[2].to_string());
                            }
                        }
                        "offline" => {
                            if self.host_online {
                                for n in &self.known {
                                    last_is_death.insert(n.clone(), true);
                                }
                            }
                            self.host_online = false;
                        }
                        "online" => self.host_online = true,
                        x => panic!("bad hostq event {}", x),
                    }
                    events.push(self.sess.build_event(&ew, now).unwrap());
                }
                self.sess.run_burst(events, now);
                let effs = self.sess.observe_burst(req, now, out);
                // C06 second sentence at the end of the burst (schedule-independent: the queue is FIFO,
                // so nothing handled after the last NDEATH / Offline of a node can birth it again)
                for (n, death) in last_is_death {
                    if self.sess.cancelled {
                        break; // the host has been stopped: nothing is marked, nothing is applied
                    }
                    if death && (self.sess.node_birthed(&n) || !self.sess.birthed_devices(&n).is_empty()) {
                        let coherent = self.sess.birth_ts_of(&n) <= now;
                        out.fail(
                            "C06:death-marks-stale",
                            if coherent { "burst-end" } else { "birth_ts>host_now" },
                            format!("{} => {:?}: {} still held birthed (devices {:?})", req, effs, n, self.sess.birthed_devices(&n)),
                        );
                    }
                }
                // C14, `... while every well-formed message is admitted`, on a FAULT-FREE history (every message well-formed,
                // delivered once; a new session's NBIRTH strictly newer than the previous one): however many messages of
                // a node wait at once and WHATEVER the node queue size, when the burst has been handled
                //  - every NBIRTH of the burst has been shown to the node's store (it changes the node's lifecycle), and
                //  - every message of the node's current session whose predecessors have all arrived (so that C05 lets
                //    it through) has reached its store: the store call carrying its id has been seen.
                // Nothing is demanded of a message still waiting for a predecessor, of payloads without metrics (no id
                // to recognise them by; the count of C05:prompt-apply covers them) or of DDEATHs.
                if self.sess.clean && !self.sess.cancelled {
                    for (n, e) in &effs {
                        if e.starts_with("nodeBirth(") && e.ends_with(",1)") {
                            self.seen_tok.insert(n.clone(), BTreeSet::new());
                        } else if e.starts_with("nodeData(") || e.starts_with("devData(") || e.starts_with("devBirth(") {
                            self.seen_tok.entry(n.clone()).or_default().insert(e.clone());
                        }
                    }
                    let over = |n: &str| if per_node.get(n).copied().unwrap_or(0) > self.q { ":more-messages-than-node-queue" } else { "" };
                    for (n, id) in &births_here {
                        if self.expect_tok.contains_key(n) && !effs.iter().any(|(m, e)| m == n && *e == format!("nodeBirth({},1)", id)) {
                            out.fail(
                                "C14:well-formed-admitted",
                                &format!("clean-burst:nbirth{}", over(n)),
                                format!("{} => {:?}: the NBIRTH id={} of node {} (well-formed, newer than the birth held; node queue size {}) was not shown to the node's store", req, effs, id, n, self.q),
                            );
                        }
                    }
                    for (n, a) in &self.arrived {
                        let mut mex = 1u64;
                        while a.contains_key(&mex) {
                            mex += 1;
                        }
                        if mex > 255 {
                            continue;
                        }
                        let seen = self.seen_tok.get(n).cloned().unwrap_or_default();
                        if let Some(x) = self.expect_tok.get_mut(n) {
                            let due: Vec<u64> = x.keys().copied().filter(|s| *s < mex).collect();
                            for s in due {
                                let (tok, kind) = x.remove(&s).unwrap();
                                if !seen.contains(&tok) {
                                    out.fail(
                                        "C14:well-formed-admitted",
                                        &format!("clean-burst:{}{}", kind, over(n)),
                                        format!("{} => {:?}: node {}'s well-formed {} seq={} never reached a store (expected {}; all of seq 1..{} of its session have arrived, no loss, no duplicate; node queue size {}, {} messages of the node in this burst)",
                                            req, effs, n, kind, s, tok, mex - 1, self.q, per_node.get(n).copied().unwrap_or(0)),
                                    );
                                }
                            }
                        }
                    }
                }
                // C05, last sentence, on a FAULT-FREE history (every message delivered once, sessions of fewer than 256
                // messages, no timer expiry): when the burst has been handled, every message whose predecessors have
                // all arrived has been applied - none is withheld or silently dropped
                if self.sess.clean && !self.sess.cancelled {
                    for (n, e) in &effs {
                        if e.starts_with("nodeBirth(") && e.ends_with(",1)") {
                            self.applied.insert(n.clone(), 0);
                        } else if e.starts_with("nodeData(") || e.starts_with("devData(") || e.starts_with("devBirth(") {
                            *self.applied.entry(n.clone()).or_default() += 1;
                        }
                    }
                    for (n, a) in &self.arrived {
                        let mut mex = 1u64;
                        while a.contains_key(&mex) {
                            mex += 1;
                        }
                        let want = a.iter().filter(|(s, data)| **s < mex && **data).count() as u64;
                        let got = self.applied.get(n).copied().unwrap_or(0);
                        if got != want && mex <= 255 {
                            out.fail(
                                "C05:prompt-apply",
                                "clean-burst",
                                format!("{} => {:?}: of node {}'s current session all of seq 1..{} have arrived, {} store calls expected since its NBIRTH, {} seen", req, effs, n, mex - 1, want, got),
                            );
                            self.applied.insert(n.clone(), want); // report once
                        }
                    }
                }
                format!("{} => {}", req, render(&Sess::canon_by_node(&effs)))
            }
            "adv" => {
                self.sess.run_adv(now, w[2].parse().unwrap());
                let effs = self.sess.observe_burst(req, now, out);
                format!("{} => {}", req, render(&Sess::canon_by_node(&effs)))
            }
            "cancel" => {
                let fin = match kv(&w, "off") {
                    Some("1") => FinalOffline::AfterStop,
                    Some("0") => FinalOffline::Withheld,
                    x => panic!("bad cancel off={:?}", x),
                };
                if self.sess.cancelled {
                    return format!("{} => -", req);
                }
                let rep = self.sess.cancel(req, now, fin, HOST_STOP_BOUND_MS + 5, true, out);
                self.sess.judge_run_returns(req, &rep, fin, out);
                format!(
                    "{} => {} w={}",
                    req,
                    render(&Sess::canon_by_node(&rep.effects)),
                    rep.returned_after.map(|x| x.to_string()).unwrap_or("never".into())
                )
            }
            x => panic!("bad hostq op {}", x),
        }
    }
}

struct QCase<'a> {
    q: QSess,
    out: &'a mut Out,
    now: u64,
    bursts: u64,
}

impl<'a> QCase<'a> {
    fn begin(out: &'a mut Out, cfg: &str, now: u64) -> QCase<'a> {
        let op = format!("hostq new {} now={}", cfg, now);
        let q = QSess::new(&op);
        out.begin_case(&op, "ok");
        QCase { q, out, now, bursts: 0 }
    }
    fn burst(&mut self, evs: &[String]) -> String {
        let req = format!("hostq burst {} now={}", evs.join("|"), self.now);
        let line = self.q.exec(&req, self.out);
        self.out.line(&line, "ok");
        self.out.count(&format!("burst-len:{:02}", evs.len()));
        self.out.count("bursts");
        if evs.len() >= 2 {
            self.out.nontrivial();
        }
        self.bursts += 1;
        self.now += 1;
        line
    }
    /// `AppClient::cancel()` between two bursts; the clock moves on by the request's millisecond plus the wait
    fn cancel(&mut self, off: u64) {
        let req = format!("hostq cancel off={} now={}", off, self.now);
        let line = self.q.exec(&req, self.out);
        let w = line.rsplit_once(" w=").and_then(|x| x.1.parse::<u64>().ok());
        self.out.line(&line, "ok");
        self.out.count(if off == 1 { "cancel:offline-delivered" } else { "cancel:offline-withheld" });
        self.now += 1 + w.unwrap_or(if line.ends_with("=> -") { 0 } else { HOST_STOP_BOUND_MS + 5 });
    }
    fn adv(&mut self, ms: u64) {
        let req = format!("hostq adv {} now={}", ms, self.now);
        let line = self.q.exec(&req, self.out);
        self.out.line(&line, "ok");
        self.out.count("adv");
        self.now += ms;
    }
}

struct NodeGen {
    name: String,
    bd: u64,
    birth: Option<String>,
    todo: Vec<PMsg>,         // delivery order, reversed (pop = next)
    recent: Vec<String>,     // bodies delivered lately
    born_in_burst: u64,      // burst index in which the current session's NBIRTH was sent
}

/// next message of the node's publisher session; a new session (optionally after an NDEATH) when the
/// current one is used up. At most one new session per node and burst (birth timestamps = host clock).
fn next_of_session(rng: &mut Rng, g: &mut NodeGen, now: u64, burst_ix: u64, next_id: &mut u64, evs: &mut Vec<String>, cap: usize, clean: bool, compressed: bool, stats: &mut Vec<&'static str>) {
    if evs.len() >= cap {
        return;
    }
    if g.todo.is_empty() {
        // an NDEATH and the NBIRTH of the next session go into the same burst
        if g.born_in_burst == burst_ix || evs.len() + 2 > cap {
            return;
        }
        if g.birth.is_some() && rng.chance(1, 2) {
            evs.push(format!("ev {} ndeath bd={}", g.name, g.bd));
            g.bd = (g.bd + 1) % 256;
            stats.push("in:ndeath-match");
        }
        let n = rng.range(1, 14) as usize;
        let ndev = rng.below(3);
        let (birth, mut msgs) = session(rng, g.bd, now, n, ndev, next_id);
        if compressed {
            // a burst compresses time: all messages of the session carry the birth's millisecond, so a
            // message of an earlier session is always older than the next session's NBIRTH
            for m in msgs.iter_mut() {
                let w: Vec<String> = m.body.split(' ').map(|t| if t.starts_with("ts=") { format!("ts={}", now) } else { t.to_string() }).collect();
                m.body = w.join(" ");
            }
        }
        let d = if clean { rng.range(0, 3) } else { rng.range(0, 5) };
        let mut q = displaced(rng, &msgs, d);
        q.reverse();
        g.todo = q;
        evs.push(format!("ev {} {}", g.name, birth));
        g.birth = Some(birth);
        g.born_in_burst = burst_ix;
        stats.push("in:nbirth");
    } else {
        let m = g.todo.pop().unwrap();
        evs.push(format!("ev {} {}", g.name, m.body));
        g.recent.push(m.body);
        if g.recent.len() > 6 {
            g.recent.remove(0);
        }
        stats.push("in:session-message");
    }
}

/// random bursts for 1–3 nodes: valid sessions with bounded reordering plus (unless `clean`)
/// duplicates, NDEATHs, data for a node the host has never seen immediately followed by its NBIRTH,
/// invalid payloads, host offline/online inside a burst, replayed NBIRTHs, unknown devices, store
/// rejections, late messages; between bursts sometimes time passes across the reorder timeout
fn random_case(out: &mut Out, rng: &mut Rng, clean: bool) {
    let (cfg, to) = if clean {
        let to = *rng.pick(&[None, Some(100u64), Some(3000)]);
        (
            format!(
                "ip=0 bd=1 un=1 ud=1 um=1 rf=1 rs=1 to={} cd={} rq=1 q={}",
                to.map(|x| x.to_string()).unwrap_or("-".into()),
                rng.pick(&[0u64, 5000]),
                rng.pick(&[1u64, 2, 1024])
            ),
            to,
        )
    } else {
        cfg_random(rng)
    };
    let mut c = QCase::begin(out, &cfg, 1_000_000 + rng.below(1000));
    // message timestamps: `compressed` = every message of a session carries its NBIRTH's millisecond
    // (publish-order ids are then meaningful across sessions: C05 oracle on); otherwise they run
    // 1 ms per message as in component `host`, i.e. ahead of the host clock inside a burst, and a
    // late message of an earlier session may be newer than the next NBIRTH (C05 oracle off)
    let compressed = clean || rng.chance(1, 2);
    c.out.set_desc(if clean { "clean".into() } else if compressed { "ordered".into() } else { "free".into() });
    c.q.sess.ordered_ids = compressed;
    c.q.sess.clean = clean;
    let nn = rng.range(1, 3);
    let mut gens: Vec<NodeGen> = (0..nn)
        .map(|k| NodeGen { name: format!("n{}", k + 1), bd: rng.below(256), birth: None, todo: vec![], recent: vec![], born_in_burst: u64::MAX })
        .collect();
    let mut next_id = 0u64;
    let mut fresh_node = 10u64;
    let mut old: Vec<(String, String)> = vec![];
    let bursts = rng.range(2, 9);
    // one case in three is cancelled: after its last burst, or somewhere before
    let cancel_after = if rng.chance(1, 3) { if rng.chance(2, 3) { bursts - 1 } else { rng.below(bursts) } } else { u64::MAX };
    for b in 0..bursts {
        let len = rng.range(2, 12) as usize;
        let mut evs: Vec<String> = vec![];
        let mut stats: Vec<&'static str> = vec![];
        let mut guard = 0;
        while evs.len() < len && guard < 100 {
            guard += 1;
            let k = rng.below(nn) as usize;
            let now = c.now;
            let roll = if clean { 0 } else { rng.below(100) };
            let name = gens[k].name.clone();
            match roll {
                0..=54 => next_of_session(rng, &mut gens[k], now, b, &mut next_id, &mut evs, len, clean, compressed, &mut stats),
                55..=61 => {
                    if let Some(m) = (!gens[k].recent.is_empty()).then(|| rng.pick(&gens[k].recent).clone()) {
                        evs.push(format!("ev {} {}", name, m));
                        stats.push("in:duplicate");
                    }
                }
                62..=66 => {
                    evs.push(format!("ev {} ndeath bd={}", name, gens[k].bd));
                    stats.push("in:ndeath-match");
                }
                67..=70 => {
                    evs.push(format!("ev {} ndeath bd={}", name, (gens[k].bd + rng.range(1, 255)) % 256));
                    stats.push("in:ndeath-mismatch");
                }
                71..=77 => {
                    // data for a node the host has never seen, its NBIRTH right behind
                    if evs.len() + 3 > len {
                        continue;
                    }
                    fresh_node += 1;
                    let f = format!("n{}", fresh_node);
                    next_id += 3;
                    if rng.chance(1, 2) {
                        evs.push(format!("ev {} ndata seq=1 ts={} id={} ans=ok", f, now, next_id - 2));
                    } else {
                        evs.push(format!("ev {} ddata dev=1 seq=1 ts={} id={} ans=ok", f, now, next_id - 2));
                    }
                    evs.push(format!("ev {} nbirth ts={} bd=1 id={} ans=ok", f, now, next_id - 1));
                    if rng.chance(1, 2) {
                        evs.push(format!("ev {} ndata seq=1 ts={} id={} ans=ok", f, now, next_id));
                    }
                    stats.push("in:unknown-node-then-nbirth");
                }
                78..=83 => {
                    evs.push(format!("inv {}", name));
                    stats.push("in:invalid-payload");
                }
                84..=87 => {
                    if evs.len() + 2 > len {
                        continue;
                    }
                    evs.push("offline".into());
                    if rng.chance(3, 4) {
                        // a few more events, then online again (possibly in a later burst)
                        for _ in 0..rng.below(3) {
                            let j = rng.below(nn) as usize;
                            next_of_session(rng, &mut gens[j], now, b, &mut next_id, &mut evs, len - 1, clean, compressed, &mut stats);
                        }
                        evs.push("online".into());
                    }
                    stats.push("in:host-offline");
                }
                88..=90 => {
                    if let Some(bi) = gens[k].birth.clone() {
                        evs.push(format!("ev {} {}", name, bi));
                        stats.push("in:nbirth-replayed");
                    }
                }
                91..=93 => {
                    evs.push(format!("ev {} ddata dev=7 seq={} ts={} id=0 ans=ok", name, rng.below(256), now));
                    stats.push("in:unknown-device");
                }
                94..=96 => {
                    if let Some(mut m) = gens[k].todo.pop() {
                        if !m.body.contains(" m=0") {
                            m.body = m.body.replace("ans=ok", if rng.chance(1, 2) { "ans=inv" } else { "ans=unk" });
                        }
                        evs.push(format!("ev {} {}", name, m.body));
                        stats.push("in:store-reject");
                    }
                }
                _ => {
                    if let Some((on, om)) = (!old.is_empty()).then(|| rng.pick(&old).clone()) {
                        evs.push(format!("ev {} {}", on, om));
                        stats.push("in:late-old-session");
                    } else if let Some(m) = gens[k].recent.last().cloned() {
                        old.push((name, m));
                    }
                }
            }
        }
        if evs.is_empty() {
            continue;
        }
        for s in stats {
            c.out.count(s);
        }
        for g in &gens {
            if let Some(m) = g.recent.last() {
                if rng.chance(1, 10) {
                    old.push((g.name.clone(), m.clone()));
                }
            }
        }
        c.burst(&evs);
        if !clean && rng.chance(1, 4) {
            let ms = match to {
                Some(t) => *rng.pick(&[t - 2, t + 1, 1, t / 2]),
                None => 500,
            };
            c.adv(ms);
        }
        // the application is stopped after this burst (gaps may be open, timers armed, the host offline); the
        // bursts that follow meet a host that is gone
        if b == cancel_after {
            c.cancel(if rng.chance(1, 8) { 0 } else { 1 });
        }
    }
    c.out.count(if clean { "case:clean" } else if compressed { "case:faulty-ordered" } else { "case:faulty-free-timestamps" });
    let qs = cfg.split(' ').find(|t| t.starts_with("q=")).unwrap().to_string();
    c.out.count(&format!("case:{}", qs));
}

const QSYMS: [&str; 11] = ["B", "D", "G", "X", "Xm", "I", "OFF", "ON", "DB", "DD", "De"];

/// one node, one device, small alphabet: an optional settled prefix burst, then ONE burst
fn small_case(out: &mut Out, syms: &[usize], q: u64, prefix: bool) {
    let cfg = format!("ip=1 bd=1 un=1 ud=1 um=1 rf=1 rs=1 to=100 cd=0 rq=1 q={}", q);
    let t0 = 1_000_000u64;
    let mut c = QCase::begin(out, &cfg, t0);
    let mut pubseq = 0u64;
    let mut id = 0u64;
    let mut render = |burst_ix: u64, now: u64, ss: &[&str], pubseq: &mut u64, id: &mut u64| -> Vec<String> {
        let mut evs = vec![];
        for (p, s) in ss.iter().enumerate() {
            *id += 1;
            let nx = (*pubseq + 1) % 256;
            evs.push(match *s {
                "B" => {
                    *pubseq = 0;
                    format!("ev n1 nbirth ts={} bd=7 id={} ans=ok", t0 - 1000 + 10 * burst_ix + p as u64, id)
                }
                "D" => {
                    *pubseq = nx;
                    format!("ev n1 ndata seq={} ts={} id={} ans=ok", nx, now, id)
                }
                "G" => format!("ev n1 ndata seq={} ts={} id={} ans=ok", (nx + 1) % 256, now, id),
                "X" => "ev n1 ndeath bd=7".to_string(),
                "Xm" => "ev n1 ndeath bd=8".to_string(),
                "I" => "inv n1".to_string(),
                "OFF" => "offline".to_string(),
                "ON" => "online".to_string(),
                "DB" => {
                    *pubseq = nx;
                    format!("ev n1 dbirth dev=1 seq={} ts={} id={} ans=ok", nx, now, id)
                }
                "DD" => {
                    *pubseq = nx;
                    format!("ev n1 ddata dev=1 seq={} ts={} id={} ans=ok", nx, now, id)
                }
                // the next message in sequence, a payload without metrics
                "De" => {
                    *pubseq = nx;
                    format!("ev n1 ndata seq={} ts={} id={} ans=ok m=0", nx, now, id)
                }
                _ => unreachable!(),
            });
        }
        evs
    };
    if prefix {
        let now = c.now;
        let evs = render(0, now, &["B", "DB"], &mut pubseq, &mut id);
        c.burst(&evs);
    }
    if !syms.is_empty() {
        let now = c.now;
        let ss: Vec<&str> = syms.iter().map(|&i| QSYMS[i]).collect();
        let evs = render(1, now, &ss, &mut pubseq, &mut id);
        c.burst(&evs);
    }
    c.out.count("small:exhaustive");
}

/// scripted witnesses: the situations the quiescent harness can never produce
fn scripted(out: &mut Out) {
    let t0 = 1_000_000u64;
    // (1) data for an unknown node, its NBIRTH right behind: the UnknownNode reason waits in the
    // rebirth channel while the NBIRTH waits in the queue; either may be taken first
    for q in [1u64, 2, 1024] {
        let cfg = format!("ip=1 bd=1 un=1 ud=1 um=1 rf=1 rs=1 to=100 cd=0 rq=1 q={}", q);
        let mut c = QCase::begin(out, &cfg, t0);
        c.out.set_desc("scripted unknown-node-then-nbirth".into());
        c.burst(&[
            format!("ev n1 ndata seq=1 ts={} id=1 ans=ok", t0),
            format!("ev n1 nbirth ts={} bd=3 id=2 ans=ok", t0),
            format!("ev n1 ndata seq=1 ts={} id=3 ans=ok", t0 + 1),
        ]);
        // (2) two invalid payloads in one burst: the second reason finds the channel occupied
        c.burst(&["inv n1".to_string(), "inv n1".to_string(), format!("ev n1 nbirth ts={} bd=3 id=4 ans=ok", t0 + 1)]);
        // (3) more messages than the queue holds: the dispatcher blocks
        let many: Vec<String> = (1..=6u64).map(|k| format!("ev n1 ndata seq={} ts={} id={} ans=ok", k, t0 + 2, 10 + k)).collect();
        c.burst(&many);
        // (4) host offline and online inside the burst, several nodes
        c.burst(&[
            format!("ev n2 nbirth ts={} bd=1 id=20 ans=ok", t0 + 3),
            "offline".to_string(),
            format!("ev n2 ndata seq=1 ts={} id=21 ans=ok", t0 + 3),
            "online".to_string(),
            format!("ev n1 nbirth ts={} bd=3 id=22 ans=ok", t0 + 3),
        ]);
        // (5) a gap, then time passes across the reorder timeout
        c.burst(&[format!("ev n1 ndata seq=2 ts={} id=23 ans=ok", t0 + 4), "inv n2".to_string()]);
        c.adv(98);
        c.adv(3);
        c.out.count("scripted");
    }
    // (7) cancel between bursts: with a gap open and the reorder timer armed (it fires while the host waits for the
    // final Offline that never comes), with the final Offline delivered, on an offline host; the bursts behind meet a
    // host that is gone
    for (q, variant) in [(1u64, "gap-withheld"), (2, "gap-delivered"), (1024, "host-offline"), (1, "quiet-withheld")] {
        let cfg = format!("ip=1 bd=1 un=1 ud=1 um=1 rf=1 rs=1 to=100 cd=0 rq=1 q={}", q);
        let mut c = QCase::begin(out, &cfg, t0);
        c.out.set_desc(format!("scripted cancel {}", variant));
        c.burst(&[format!("ev n1 nbirth ts={} bd=3 id=1 ans=ok", t0), format!("ev n1 dbirth dev=1 seq=1 ts={} id=2 ans=ok", t0)]);
        match variant {
            "gap-withheld" | "gap-delivered" => {
                c.burst(&[format!("ev n1 ndata seq=3 ts={} id=4 ans=ok", t0 + 1), format!("ev n1 ndata seq=4 ts={} id=5 ans=ok", t0 + 1)]);
            }
            "host-offline" => {
                c.burst(&["offline".to_string(), format!("ev n1 ndata seq=2 ts={} id=3 ans=ok", t0 + 1)]);
            }
            _ => {}
        }
        c.cancel(if variant == "gap-delivered" { 1 } else { 0 });
        c.burst(&[format!("ev n1 ndata seq=2 ts={} id=3 ans=ok", t0 + 1), format!("ev n2 ndata seq=1 ts={} id=9 ans=ok", t0 + 1), "offline".to_string()]);
        c.adv(101);
        c.cancel(1);
        c.out.count("scripted");
    }
    // (8) MORE MESSAGES OF ONE NODE THAN ITS QUEUE HOLDS, fault-free (C14 `every well-formed message is admitted`,
    // C05 prompt-apply): a whole session - NBIRTH, DBIRTH, data - of two nodes already waiting when the host gets to
    // it; a long in-order run of data for a settled node; NDEATH + the complete next session in one burst. The node
    // queue (`with_node_queue_size` 1, 2, 3, 1024) applies back-pressure to the dispatcher, it never sheds a message.
    for q in [1u64, 2, 3, 1024] {
        let cfg = format!("ip=0 bd=1 un=1 ud=1 um=1 rf=1 rs=1 to=100 cd=0 rq=1 q={}", q);
        let mut c = QCase::begin(out, &cfg, t0);
        c.out.set_desc("clean scripted burst-exceeds-node-queue".into());
        c.q.sess.ordered_ids = true;
        c.q.sess.clean = true;
        let mut evs = vec![format!("ev n1 nbirth ts={} bd=3 id=1 ans=ok", t0), format!("ev n2 nbirth ts={} bd=8 id=101 ans=ok", t0)];
        evs.push(format!("ev n1 dbirth dev=1 seq=1 ts={} id=2 ans=ok", t0));
        for k in 2..=9u64 {
            if k % 2 == 0 {
                evs.push(format!("ev n1 ddata dev=1 seq={} ts={} id={} ans=ok", k, t0, k + 1));
            } else {
                evs.push(format!("ev n1 ndata seq={} ts={} id={} ans=ok", k, t0, k + 1));
            }
            if k <= 5 {
                evs.push(format!("ev n2 ndata seq={} ts={} id={} ans=ok", k - 1, t0, 100 + k));
            }
        }
        c.burst(&evs);
        let now = c.now;
        let run: Vec<String> = (10..=21u64).map(|k| format!("ev n1 ndata seq={} ts={} id={} ans=ok", k, now, k + 1)).collect();
        c.burst(&run);
        let now = c.now;
        let mut evs = vec!["ev n1 ndeath bd=3".to_string(), format!("ev n1 nbirth ts={} bd=4 id=30 ans=ok", now)];
        evs.push(format!("ev n1 dbirth dev=2 seq=1 ts={} id=31 ans=ok", now));
        for k in 2..=6u64 {
            evs.push(format!("ev n1 ddata dev=2 seq={} ts={} id={} ans=ok", k, now, 30 + k));
        }
        c.burst(&evs);
        c.adv(101);
        c.out.count("scripted");
        c.out.count("scripted:burst-exceeds-node-queue");
    }
    // (6) payloads WITHOUT METRICS inside a burst (legal: seq and timestamp only): they take their sequence number
    // like any other message, so a fault-free burst stays fault-free (no NCMD, nothing left waiting when the reorder
    // timeout passes)
    for q in [1u64, 2, 1024] {
        let cfg = format!("ip=0 bd=1 un=1 ud=1 um=1 rf=1 rs=1 to=100 cd=0 rq=1 q={}", q);
        let mut c = QCase::begin(out, &cfg, t0);
        c.out.set_desc("clean scripted no-metrics".into());
        c.q.sess.ordered_ids = true;
        c.q.sess.clean = true;
        c.burst(&[
            format!("ev n1 nbirth ts={} bd=3 id=1 ans=ok", t0),
            format!("ev n1 ndata seq=1 ts={} id=2 ans=ok m=0", t0),
            format!("ev n1 dbirth dev=1 seq=2 ts={} id=3 ans=ok m=0", t0),
            format!("ev n1 ddata dev=1 seq=3 ts={} id=4 ans=ok", t0),
            format!("ev n1 ddata dev=1 seq=5 ts={} id=6 ans=ok", t0),
            format!("ev n1 ddata dev=1 seq=4 ts={} id=5 ans=ok m=0", t0),
            format!("ev n1 ddeath dev=1 seq=6 ts={} id=7", t0),
            format!("ev n1 ndata seq=7 ts={} id=8 ans=ok", t0),
        ]);
        c.adv(101);
        c.burst(&[format!("ev n1 ndata seq=8 ts={} id=9 ans=ok m=0", t0 + 102), format!("ev n1 ndata seq=9 ts={} id=10 ans=ok", t0 + 102)]);
        c.out.count("scripted");
    }
    // (7) a LONG reordering inside one window of 256, fault-free: message k+2 (k = 128 / 200 / 253) overtakes the k
    // messages before it and leads a burst, the overtaken ones follow in order in bursts of up to 12; every message
    // arrives, fewer than 256 numbers are outstanding, the whole history takes < 30 ms (reorder timeout 100 ms /
    // none): no NCMD (C07:no-spurious-rebirth), applied in publisher order, everything applied when the gap has
    // closed (C05:prompt-apply/clean-burst)
    for (j, (k, q)) in [(128u64, 1024u64), (128, 1), (200, 2), (253, 1024), (129, 2)].into_iter().enumerate() {
        let cfg = format!("ip=0 bd=1 un=1 ud=1 um=1 rf=1 rs=1 to={} cd=0 rq=1 q={}", if j % 2 == 0 { "100" } else { "-" }, q);
        let mut c = QCase::begin(out, &cfg, t0);
        c.out.set_desc(format!("clean scripted long-overtake k={}", k));
        c.q.sess.ordered_ids = true;
        c.q.sess.clean = true;
        let body = |i: u64| -> String {
            if i % 3 == 0 {
                format!("ev n1 ddata dev=1 seq={} ts={} id={} ans=ok", i, t0, i + 1)
            } else {
                format!("ev n1 ndata seq={} ts={} id={} ans=ok", i, t0, i + 1)
            }
        };
        c.burst(&[format!("ev n1 nbirth ts={} bd=3 id=1 ans=ok", t0), format!("ev n1 dbirth dev=1 seq=1 ts={} id=2 ans=ok", t0)]);
        let early = k + 2;
        let mut evs = vec![body(early)];
        for i in 2..early {
            evs.push(body(i));
            if evs.len() == 12 {
                c.burst(&evs);
                evs.clear();
            }
        }
        if !evs.is_empty() {
            c.burst(&evs);
        }
        c.adv(101);
        c.out.count("scripted");
        c.out.count("scripted:long-overtake");
    }
}

pub const RULE: &str = "bursts through the real Application without quiescence in between (paused tokio time, mock clock frozen during a burst, recording stores; every event of a burst is handed to the event loop before anything is handled): (a) random cases, configuration as component host incl. node queue sizes 1/2/1024, 2-9 bursts of 2-12 events for 1-3 nodes: valid sessions with bounded reordering, duplicates, NDEATHs matching/mismatching, data for a never-seen node immediately followed by its NBIRTH, invalid payloads, host offline/online inside a burst, replayed NBIRTHs, unknown devices, store rejections, late old messages, between bursts sometimes time advanced to just before/after the reorder timeout; (b) fault-free bursts (oracle: no NCMD); (c) every burst of length <= 3 over an 11-symbol single-node alphabet (incl. a payload without metrics), fresh and after a settled NBIRTH+DBIRTH, queue sizes 1 and 2; (d) scripted witnesses, incl. a fault-free LONG reordering inside one window of 256 (one message overtakes the 128/129/200/253 before it and leads a burst, the overtaken ones follow in bursts of 12; node queue 1/2/1024; oracles no NCMD, applied in order, all applied when the gap has closed); payloads without metrics (`m=0`) occur in every generated session (one message in eight), in the exhaustive alphabet and in a scripted fault-free burst (oracle C05:prompt-apply/clean-burst: on a fault-free history every message whose predecessors have arrived has been applied when the burst has been handled); one random case in three is cancelled (`AppClient::cancel()`) after its last burst or earlier, final Offline delivered or withheld, the bursts behind the cancel must observe nothing (C20:host-* clauses as in component host). Each line carries the per-node effect lists; the model answers whether some schedule of Model/HostQ produces exactly them. (8) bursts larger than the node queue (queue sizes 1/2/3/1024: two whole sessions waiting at once, 12 in-order NDATA, NDEATH plus the complete next session) with the clause C14:well-formed-admitted. Non-trivial = a case with a burst of at least two events; distinct = distinct request-line sequences (hashed).";

pub fn run(args: &Args, out: &mut Out) -> &'static str {
    let mut rng = Rng::new(args.seed);
    let th = args.thorough();
    scripted(out);
    // (c) exhaustive small bursts
    let l = 3;
    for q in [1u64, 2] {
        for prefix in [false, true] {
            for len in 0..=l {
                let mut idx = vec![0usize; len];
                loop {
                    small_case(out, &idx, q, prefix);
                    let mut k = 0;
                    loop {
                        if k == len {
                            break;
                        }
                        idx[k] += 1;
                        if idx[k] < QSYMS.len() {
                            break;
                        }
                        idx[k] = 0;
                        k += 1;
                    }
                    if k == len {
                        break;
                    }
                }
            }
        }
    }
    out.exhaustive.push(format!("all bursts of length 0..={} over an 11-symbol single-node alphabet x queue size 1,2 x (fresh | after a settled NBIRTH+DBIRTH)", l));
    for _ in 0..(if th { 400 } else { 40 }) {
        random_case(out, &mut rng, true);
    }
    for _ in 0..(if th { 4000 } else { 400 }) {
        random_case(out, &mut rng, false);
    }
    RULE
}

pub fn replay(desc: &str, lines: &[String], out: &mut Out) {
    let mut q: Option<QSess> = None;
    for l in lines {
        let req = l.split(" => ").next().unwrap();
        if req.starts_with("hostq new ") {
            let mut s = QSess::new(req);
            s.sess.clean = desc.starts_with("clean");
            s.sess.ordered_ids = desc.starts_with("clean") || desc.starts_with("ordered");
            q = Some(s);
            out.begin_case(req, "ok");
            out.set_desc(desc.to_string());
        } else if let Some(s) = q.as_mut() {
            let line = s.exec(req, out);
            out.line(&line, "ok");
        }
    }
}
