//! Component `hostloop` (C16; host half of C20): the real `srad_app::AppEventLoop` (via
//! `AppEventLoop::new` + `poll`, and via `ApplicationBuilder` / `Application::run`) driven through
//! the `Client` / `EventLoop` doubles of `mock.rs` on a paused current-thread runtime.
//!
//! Ops (strings are hex of their UTF-8 bytes, `-` = empty):
//!   hostloop new <loop|loopr|app> <cfg> <host> <now>     cfg = all | single:<g> | custom:<item>,..
//!                                                       item = g.<g> | n.<g>.<n>; custom:_ = empty
//!   hostloop ev online|offline|other <now>
//!   hostloop ev state <host> <0|1> <ts> <now>
//!   hostloop wire <topic> <payload> <now>   a received publish, as raw bytes (hex): the harness hands
//!                                    `srad_client::topic_and_payload_to_event(topic, payload)` to the loop,
//!                                    the way every client implementation turns a publish into an Event
//!   hostloop cancel <now>            `AppClient::cancel().await`
//!   hostloop timeout <now>           1.1 s of virtual time pass
//!   hostloop match <filter> <topic>  MQTT filter matching (harness matcher vs model matcher)
//!   hostloop valid <name>            `validate_name`
//!   hostloop topic state <h> | node <g> <v> <n> | device <g> <v> <n> <d>
//! `<now>` is the `timestamp()` reading during the step (mock clock). Mode `loopr` = the client
//! rejects every blocking call (srad ignores the results; the hand-overs are the same).
//! Answer of a step: effects joined by `;` (`-` if none), ` | `, returned AppEvents joined by `,`.
use crate::common::*;
use crate::mock::{self, Decision, Kind, Obs};
use srad_app::generic_app::ApplicationBuilder;
use srad_app::{AppEvent, AppEventLoop, NamespaceSubConfig, SubscriptionConfig};
use srad_client::{topic_and_payload_to_event, Event, LastWill, MessageError, StatePayload};
use srad_types::topic::{
    node_topic_raw, state_host_topic, DeviceMessage, DeviceTopic, NodeMessage, NodeTopic, QoS,
    StateTopic,
};
use std::time::Duration;

/// virtual time the `timeout` step lets pass: the property only asks for a BOUNDED shutdown wait, so the
/// step waits ten times the implementation's own second before the direct oracles expect `Cancelled`
/// (the exact constant is checked by the event-loop LTS, component `hll`)
const DRAIN_WAIT_MS: u64 = 1100;

#[derive(Clone, Debug, PartialEq)]
pub enum Ns {
    Group(String),
    Node(String, String),
}

#[derive(Clone, Debug, PartialEq)]
pub enum Cfg {
    All,
    Single(String),
    Custom(Vec<Ns>),
}

impl Cfg {
    fn kind(&self) -> &'static str {
        match self {
            Cfg::All => "all",
            Cfg::Single(_) => "single",
            Cfg::Custom(_) => "custom",
        }
    }
    fn to_srad(&self) -> SubscriptionConfig {
        match self {
            Cfg::All => SubscriptionConfig::AllGroups,
            Cfg::Single(g) => SubscriptionConfig::SingleGroup { group_id: g.clone() },
            Cfg::Custom(l) => SubscriptionConfig::Custom(
                l.iter()
                    .map(|x| match x {
                        Ns::Group(g) => NamespaceSubConfig::Group { group_id: g.clone() },
                        Ns::Node(g, n) => NamespaceSubConfig::Node { group_id: g.clone(), node_id: n.clone() },
                    })
                    .collect(),
            ),
        }
    }
    fn show(&self) -> String {
        match self {
            Cfg::All => "all".into(),
            Cfg::Single(g) => format!("single:{}", hx(g)),
            Cfg::Custom(l) => {
                if l.is_empty() {
                    "custom:_".into()
                } else {
                    format!(
                        "custom:{}",
                        l.iter()
                            .map(|x| match x {
                                Ns::Group(g) => format!("g.{}", hx(g)),
                                Ns::Node(g, n) => format!("n.{}.{}", hx(g), hx(n)),
                            })
                            .collect::<Vec<_>>()
                            .join(",")
                    )
                }
            }
        }
    }
    fn parse(s: &str) -> Cfg {
        if s == "all" {
            return Cfg::All;
        }
        if let Some(g) = s.strip_prefix("single:") {
            return Cfg::Single(unhx(g));
        }
        let l = s.strip_prefix("custom:").expect("cfg");
        if l == "_" {
            return Cfg::Custom(vec![]);
        }
        Cfg::Custom(
            l.split(',')
                .map(|it| {
                    let p: Vec<&str> = it.split('.').collect();
                    match p.as_slice() {
                        ["g", g] => Ns::Group(unhx(g)),
                        ["n", g, n] => Ns::Node(unhx(g), unhx(n)),
                        _ => panic!("cfg item"),
                    }
                })
                .collect(),
        )
    }
}

fn hx(s: &str) -> String {
    hex(s.as_bytes())
}
fn unhx(s: &str) -> String {
    String::from_utf8(unhex(s)).expect("utf8")
}

#[derive(Clone, Debug, PartialEq)]
pub enum Inp {
    Online,
    Offline,
    State { host: String, online: bool, ts: u64 },
    /// a publish as it arrives from the broker: topic bytes + payload bytes, decoded by the library's
    /// own `topic_and_payload_to_event` before it reaches the event loop
    Wire { topic: Vec<u8>, payload: Vec<u8> },
    Other,
    Cancel,
    Timeout,
}

impl Inp {
    fn kind(&self, own: &str) -> &'static str {
        match self {
            Inp::Online => "online",
            Inp::Offline => "offline",
            Inp::State { host, online, .. } => match (host == own, *online) {
                (true, true) => "own-online",
                (true, false) => "own-offline",
                (false, true) => "foreign-online",
                (false, false) => "foreign-offline",
            },
            Inp::Wire { topic, payload } => match wire_sem(own, topic, payload) {
                WireSem::OwnOffline => "wire-own-offline",
                WireSem::OwnOnline => "wire-own-online",
                WireSem::Foreign => "wire-foreign",
                WireSem::Unknown => "wire-other",
            },
            Inp::Other => "other",
            Inp::Cancel => "cancel",
            Inp::Timeout => "timeout",
        }
    }
}

/// What a received publish IS, read off its bytes by the harness alone (a general JSON reader, no srad
/// type involved): the property's sentence "an {online:false} STATE message seen for its own host id"
/// applied to a wire message. Deliberately conservative: only the Sparkplug STATE topic
/// `spBv1.0/STATE/<host>` with a JSON object that has a boolean `online` and an unsigned 64-bit integer
/// `timestamp`, each member name occurring once in the text, counts as a certificate; further members
/// (which other Sparkplug implementations add), member order and insignificant whitespace do not change
/// what the message says. Everything else is `Unknown`: no demand is made, the model decides.
#[derive(Clone, Copy, Debug, PartialEq)]
pub enum WireSem {
    OwnOffline,
    OwnOnline,
    Foreign,
    Unknown,
}

fn count_sub(hay: &[u8], needle: &[u8]) -> usize {
    if needle.is_empty() || hay.len() < needle.len() {
        return 0;
    }
    hay.windows(needle.len()).filter(|w| *w == needle).count()
}

pub fn wire_sem(own: &str, topic: &[u8], payload: &[u8]) -> WireSem {
    let Ok(t) = std::str::from_utf8(topic) else { return WireSem::Unknown };
    let Some(h) = t.strip_prefix("spBv1.0/STATE/") else { return WireSem::Unknown };
    if h.is_empty() || h.contains(['/', '+', '#']) {
        return WireSem::Unknown;
    }
    let Ok(serde_json::Value::Object(m)) = serde_json::from_slice::<serde_json::Value>(payload) else {
        return WireSem::Unknown;
    };
    let (Some(serde_json::Value::Bool(on)), Some(ts)) = (m.get("online"), m.get("timestamp")) else {
        return WireSem::Unknown;
    };
    // an unsigned integer literal that fits 64 bits (not a fraction, an exponent, a sign or a string)
    if !ts.is_u64() {
        return WireSem::Unknown;
    }
    if count_sub(payload, b"\"online\"") != 1 || count_sub(payload, b"\"timestamp\"") != 1 {
        return WireSem::Unknown; // repeated / nested member names: say nothing
    }
    if h != own {
        WireSem::Foreign
    } else if *on {
        WireSem::OwnOnline
    } else {
        WireSem::OwnOffline
    }
}

/// the discriminating trait of a certificate's text (feature string of the wire clauses)
fn wire_shape(payload: &[u8]) -> String {
    let n = match serde_json::from_slice::<serde_json::Value>(payload) {
        Ok(serde_json::Value::Object(m)) => m.len(),
        _ => 0,
    };
    let ws = payload.iter().any(|b| matches!(b, b' ' | b'\n' | b'\t' | b'\r'));
    format!("{}{}", if n > 2 { "extra-members" } else { "two-members" }, if ws { "+whitespace" } else { "" })
}

#[derive(Clone, Debug, PartialEq)]
pub struct Step {
    pub inp: Inp,
    pub now: u64,
}

impl Step {
    fn op(&self) -> String {
        match &self.inp {
            Inp::Online => format!("hostloop ev online {}", self.now),
            Inp::Offline => format!("hostloop ev offline {}", self.now),
            Inp::Other => format!("hostloop ev other {}", self.now),
            Inp::State { host, online, ts } => {
                format!("hostloop ev state {} {} {} {}", hx(host), *online as u8, ts, self.now)
            }
            Inp::Wire { topic, payload } => format!("hostloop wire {} {} {}", hex(topic), hex(payload), self.now),
            Inp::Cancel => format!("hostloop cancel {}", self.now),
            Inp::Timeout => format!("hostloop timeout {}", self.now),
        }
    }
}

#[derive(Clone, Copy, Debug, PartialEq)]
pub enum Mode {
    /// `AppEventLoop::new` + a task calling `poll` in a loop
    Loop,
    /// same, the client rejects all blocking calls
    LoopReject,
    /// `ApplicationBuilder::new(..).build()` + `Application::run`
    App,
}

impl Mode {
    fn name(self) -> &'static str {
        match self {
            Mode::Loop => "loop",
            Mode::LoopReject => "loopr",
            Mode::App => "app",
        }
    }
}

#[derive(Clone, Debug)]
pub struct Case {
    pub mode: Mode,
    pub cfg: Cfg,
    pub host: String,
    pub now0: u64,
    pub steps: Vec<Step>,
}

/// The property's own bookkeeping over the *inputs* (independent of srad and of the model):
/// is a session open, is a cancel being waited out.
#[derive(Clone, Debug, Default)]
struct Spec {
    connected: bool,
    draining: bool,
    pending: bool,
}

impl Spec {
    /// returns true if the step is one the harness must not issue (third outstanding cancel)
    fn forbidden(&self, i: &Inp) -> bool {
        matches!(i, Inp::Cancel) && self.draining && self.pending
    }
    /// advance; returns the number of `Cancelled` the property expects `poll` to return
    fn advance(&mut self, i: &Inp) -> usize {
        match i {
            Inp::Online => {
                if !self.draining {
                    self.connected = true;
                }
                0
            }
            Inp::Offline => {
                if self.connected {
                    self.connected = false;
                    if self.draining {
                        self.draining = false;
                        if self.pending {
                            self.pending = false;
                            return 2; // the second Shutdown is taken with the host offline
                        }
                        return 1;
                    }
                }
                0
            }
            Inp::Cancel => {
                if self.draining {
                    self.pending = true;
                    0
                } else if self.connected {
                    self.draining = true;
                    0
                } else {
                    1
                }
            }
            Inp::Timeout => {
                if self.draining {
                    if self.pending {
                        self.pending = false; // connected: the next drain starts at once
                    } else {
                        self.draining = false;
                    }
                    1
                } else {
                    0
                }
            }
            _ => 0,
        }
    }
}

impl Case {
    /// Drop steps the harness cannot issue, close an open drain with Timeout steps, and (mode
    /// `app`) stop after the step at which `run` is expected to return.
    pub fn normalize(&mut self) {
        let mut spec = Spec::default();
        let mut steps = vec![];
        let mut last_now = self.now0;
        let all: Vec<Step> = std::mem::take(&mut self.steps);
        for s in all {
            if spec.forbidden(&s.inp) {
                continue;
            }
            let c = spec.advance(&s.inp);
            last_now = s.now;
            steps.push(s);
            if c > 0 && self.mode == Mode::App {
                self.steps = steps;
                return; // `run` has returned: nothing is polled any more
            }
        }
        let mut guard = 0;
        while spec.draining && guard < 3 {
            guard += 1;
            last_now += DRAIN_WAIT_MS;
            let s = Step { inp: Inp::Timeout, now: last_now };
            spec.advance(&s.inp);
            steps.push(s);
            if self.mode == Mode::App {
                break;
            }
        }
        self.steps = steps;
    }

    fn new_op(&self) -> String {
        format!("hostloop new {} {} {} {}", self.mode.name(), self.cfg.show(), hx(&self.host), self.now0)
    }
}

/// One observed effect at the doubles.
#[derive(Clone, Debug)]
pub enum E {
    Will(LastWill),
    Sub(Vec<String>),
    Pub { topic: String, state: StatePayload, is_try: bool },
    Disc,
    Unexpected(String),
}

fn qos_n(q: &QoS) -> u8 {
    match q {
        QoS::AtMostOnce => 0,
        QoS::AtLeastOnce => 1,
    }
}

impl E {
    fn show(&self) -> String {
        match self {
            E::Will(w) => format!(
                "will {} {} q{} r{}",
                hx(&w.topic),
                hex(&w.payload),
                qos_n(&w.qos),
                w.retain as u8
            ),
            E::Sub(fs) => {
                if fs.is_empty() {
                    "sub _".into()
                } else {
                    format!("sub {}", fs.iter().map(|f| hx(f)).collect::<Vec<_>>().join(","))
                }
            }
            E::Pub { topic, state, is_try } => {
                let (q, r) = state.get_publish_quality_retain();
                let bytes: Vec<u8> = state.clone().into();
                format!(
                    "pub {} {} q{} r{} {}",
                    hx(topic),
                    hex(&bytes),
                    qos_n(&q),
                    r as u8,
                    if *is_try { "try" } else { "blk" }
                )
            }
            E::Disc => "disc".into(),
            E::Unexpected(s) => format!("unexpected:{}", s),
        }
    }
}

#[derive(Clone, Debug, Default)]
pub struct StepObs {
    pub effs: Vec<E>,
    pub rets: Vec<String>,
    /// `cancel()` did not complete within 5 ms of virtual time (parked in `Sender::send`)
    pub blocked: bool,
    /// mode `app`: `Application::run` has returned
    pub finished: bool,
    /// a `timeout` step with a cancel outstanding returned no `Cancelled` within the implementation's
    /// own second, but one arrived when the harness went on waiting up to ten times as long: the shutdown
    /// wait is still BOUNDED (all C20 asks); the step's answer differs from the model's, and the rest of
    /// the case has diverged in time
    pub late_cancelled: bool,
    /// a `wire` step: `topic_and_payload_to_event` panicked (nothing was handed to the loop)
    pub decode_panic: bool,
    /// a `wire` step: what the library's decoder made of the publish (diagnostics only)
    pub decoded: Option<String>,
}

impl StepObs {
    fn answer(&self) -> String {
        let e = if self.effs.is_empty() {
            "-".to_string()
        } else {
            self.effs.iter().map(|e| e.show()).collect::<Vec<_>>().join(";")
        };
        let r = if self.rets.is_empty() { "-".to_string() } else { self.rets.join(",") };
        format!(
            "{} | {}{}{}",
            e,
            r,
            if self.blocked { " !blocked" } else { "" },
            if self.decode_panic { " !panic" } else { "" }
        )
    }
}

fn app_event_name(e: &AppEvent) -> &'static str {
    match e {
        AppEvent::Online => "Online",
        AppEvent::Offline => "Offline",
        AppEvent::Cancelled => "Cancelled",
        AppEvent::Node(_) => "Node",
        AppEvent::Device(_) => "Device",
        AppEvent::InvalidPayload(_) => "InvalidPayload",
    }
}

fn collect(hub: &mock::Hub, from: usize) -> StepObs {
    let mut o = StepObs::default();
    for x in hub.trace_from(from) {
        match x {
            Obs::Call(id) => {
                let c = hub.call(id);
                match c.kind {
                    Kind::State => o.effs.push(E::Pub {
                        topic: c.topic.clone(),
                        state: c.state.clone().unwrap(),
                        is_try: c.is_try,
                    }),
                    Kind::Subscribe => o.effs.push(E::Sub(c.filters.clone())),
                    Kind::Disconnect => o.effs.push(E::Disc),
                    k => o.effs.push(E::Unexpected(k.name().to_string())),
                }
            }
            Obs::SetWill(w) => o.effs.push(E::Will(w)),
            Obs::Note(s) => {
                if let Some(r) = s.strip_prefix("ret ") {
                    o.rets.push(r.to_string());
                }
            }
            Obs::Resolved(..) | Obs::Poll | Obs::Polled(_) => {}
        }
    }
    o
}

/// Run one case on the real code. `None` = the constructor panicked. Index 0 of the result is the
/// construction, index k the k-th step.
pub fn drive(c: &Case) -> Option<Vec<StepObs>> {
    let rt = mock::runtime();
    rt.block_on(async {
        mock::set_clocks(c.now0);
        let (hub, client, el, feeder) = mock::mock_pair();
        if c.mode == Mode::LoopReject {
            hub.default_blocking(Some(Decision::Reject));
        }
        let mut res = vec![];
        let app_client;
        let jh;
        match c.mode {
            Mode::Loop | Mode::LoopReject => {
                let r = catch(std::panic::AssertUnwindSafe(|| {
                    AppEventLoop::new(c.host.clone(), c.cfg.to_srad(), el, client)
                }));
                let (mut app_el, cl) = match r {
                    Ok(v) => v,
                    Err(_) => return None,
                };
                app_client = cl;
                let h = hub.clone();
                jh = tokio::spawn(async move {
                    loop {
                        let ev = app_el.poll().await;
                        h.note(format!("ret {}", app_event_name(&ev)));
                    }
                });
            }
            Mode::App => {
                let r = catch(std::panic::AssertUnwindSafe(|| {
                    ApplicationBuilder::new(c.host.clone(), el, client, c.cfg.to_srad())
                }));
                let b = match r {
                    Ok(v) => v,
                    Err(_) => return None,
                };
                let (h1, h2, h3) = (hub.clone(), hub.clone(), hub.clone());
                let (app, cl) = b
                    .on_online(move || h1.note("ret Online"))
                    .on_offline(move || h2.note("ret Offline"))
                    .build();
                app_client = cl;
                jh = tokio::spawn(async move {
                    app.run().await;
                    h3.note("ret Cancelled");
                });
            }
        }
        mock::settle().await;
        res.push(collect(&hub, 0));
        let mut pending_cancels: usize = 0;
        for s in &c.steps {
            let n = hub.trace_len();
            mock::set_clocks(s.now);
            let mut blocked = false;
            let mut decode_panic = false;
            let mut decoded = None;
            match &s.inp {
                Inp::Online => {
                    feeder.push(Event::Online);
                }
                Inp::Offline => {
                    feeder.push(Event::Offline);
                }
                Inp::State { host, online, ts } => {
                    feeder.push(Event::State {
                        host_id: host.clone(),
                        payload: if *online {
                            StatePayload::Online { timestamp: *ts }
                        } else {
                            StatePayload::Offline { timestamp: *ts }
                        },
                    });
                }
                Inp::Wire { topic, payload } => {
                    let (t, p) = (topic.clone(), payload.clone());
                    match catch(move || topic_and_payload_to_event(t, p)) {
                        Ok(ev) => {
                            decoded = Some(match &ev {
                                Event::State { host_id, payload } => format!("State {{ {:?}, {:?} }}", host_id, payload),
                                Event::InvalidPublish { reason, .. } => format!("InvalidPublish {{ {:?} }}", reason),
                                Event::Node(_) => "Node".to_string(),
                                Event::Device(_) => "Device".to_string(),
                                Event::Online => "Online".to_string(),
                                Event::Offline => "Offline".to_string(),
                            });
                            feeder.push(ev);
                        }
                        Err(_) => decode_panic = true,
                    }
                }
                Inp::Other => {
                    feeder.push(Event::InvalidPublish {
                        reason: MessageError::InvalidSparkplugTopic,
                        topic: b"junk".to_vec(),
                        payload: vec![1, 2, 3],
                    });
                }
                Inp::Cancel => {
                    if tokio::time::timeout(Duration::from_millis(5), app_client.cancel()).await.is_err() {
                        blocked = true;
                    }
                }
                Inp::Timeout => {
                    tokio::time::sleep(Duration::from_millis(DRAIN_WAIT_MS)).await;
                }
            }
            mock::settle().await;
            let mut o = collect(&hub, n);
            o.blocked = blocked;
            o.decode_panic = decode_panic;
            o.decoded = decoded;
            o.finished = jh.is_finished();
            if matches!(s.inp, Inp::Cancel) {
                pending_cancels += 1;
            }
            let got = o.rets.iter().filter(|r| *r == "Cancelled").count();
            if matches!(s.inp, Inp::Timeout) && got == 0 && pending_cancels > 0 {
                // look ahead: is the wait merely longer than one second?
                let m = hub.trace_len();
                tokio::time::sleep(Duration::from_millis(9 * DRAIN_WAIT_MS)).await;
                mock::settle().await;
                o.late_cancelled = collect(&hub, m).rets.iter().any(|r| r == "Cancelled");
            }
            pending_cancels = pending_cancels.saturating_sub(got);
            res.push(o);
        }
        jh.abort();
        Some(res)
    })
}

// ---------------------------------------------------------------------------------------------
// oracle

/// MQTT topic-filter matching: `+` one level, a final `#` the remaining levels (also none).
pub fn mqtt_match(filter: &str, topic: &str) -> bool {
    fn rec(f: &[&str], t: &[&str]) -> bool {
        match f {
            [] => t.is_empty(),
            [h, rest @ ..] => {
                if *h == "#" && rest.is_empty() {
                    return true;
                }
                match t {
                    [] => false,
                    [x, ts @ ..] => (*h == "+" || h == x) && rec(rest, ts),
                }
            }
        }
    }
    let f: Vec<&str> = filter.split('/').collect();
    let t: Vec<&str> = topic.split('/').collect();
    rec(&f, &t)
}

fn json_state(payload: &[u8]) -> Option<(bool, u64)> {
    let v: serde_json::Value = serde_json::from_slice(payload).ok()?;
    Some((v.get("online")?.as_bool()?, v.get("timestamp")?.as_u64()?))
}

/// topics of the configured namespace, built with srad's own topic constructors
fn namespace_samples(cfg: &Cfg) -> Vec<String> {
    let mut pairs: Vec<(String, String)> = vec![];
    let nodes = ["N1", "node two", "n/x"];
    match cfg {
        Cfg::All => {
            for g in ["G1", "any group", "STATE", "Ünï"] {
                for n in nodes {
                    pairs.push((g.to_string(), n.to_string()));
                }
            }
        }
        Cfg::Single(g) => {
            for n in nodes {
                pairs.push((g.clone(), n.to_string()));
            }
        }
        Cfg::Custom(l) => {
            for x in l {
                match x {
                    Ns::Group(g) => {
                        for n in nodes {
                            pairs.push((g.clone(), n.to_string()));
                        }
                    }
                    Ns::Node(g, n) => pairs.push((g.clone(), n.clone())),
                }
            }
        }
    }
    let mut v = vec![];
    for (g, n) in pairs {
        for m in [NodeMessage::NBirth, NodeMessage::NDeath, NodeMessage::NData, NodeMessage::NCmd] {
            v.push(NodeTopic::new(&g, m, &n).topic);
        }
        for m in [DeviceMessage::DBirth, DeviceMessage::DDeath, DeviceMessage::DData, DeviceMessage::DCmd] {
            for d in ["D1", "dev/sub"] {
                v.push(DeviceTopic::new(&g, m.clone(), &n, d).topic);
            }
        }
    }
    v
}

/// The property, stated over what the implementation did (inputs + observed effects only).
fn oracle(out: &mut Out, c: &Case, obs: &[StepObs]) {
    let own = format!("spBv1.0/STATE/{}", c.host);
    let ck = c.cfg.kind();
    let mut spec = Spec::default();
    let mut will: Option<u64> = None;
    let mut will_since_session = false;
    let mut sessions = 0u32;
    let mut coverage_done = false;
    let mut session_open = false; // a subscribe was seen since the last will registration
    for (k, o) in obs.iter().enumerate() {
        if k > 0 && obs[..k].iter().any(|p| p.late_cancelled) {
            // the implementation's shutdown wait is longer than the model's second (a correspondence
            // difference, reported by the diff); from there on the step-by-step expectations of the
            // direct oracles no longer apply to this case
            out.count("oracle:skipped-after-late-cancelled");
            break;
        }
        let (inp, now) = if k == 0 { (None, c.now0) } else { (Some(&c.steps[k - 1].inp), c.steps[k - 1].now) };
        let ik = inp.map(|i| i.kind(&c.host)).unwrap_or("new");
        let feat = format!("{}:{}", ck, ik);
        let before = spec.clone();
        let will_before = will;
        if o.blocked {
            out.fail("C16:cancel-publishes-offline-then-disconnects", &feat, format!("step {}: cancel() did not complete", k));
        }
        // clauses that hold for every effect wherever it occurs
        for e in &o.effs {
            match e {
                E::Will(w) => {
                    let js = json_state(&w.payload);
                    let good = w.topic == own && w.retain && w.qos == QoS::AtLeastOnce && matches!(js, Some((false, _)));
                    if !good {
                        out.fail("C16:will-is-own-offline-state", &feat, format!("step {}: {:?}", k, w));
                    }
                    if let Some((_, t)) = js {
                        if t != now {
                            out.fail("C16:will-is-fresh", &feat, format!("step {}: will timestamp {} but the clock reads {}", k, t, now));
                        }
                        will = Some(t);
                    }
                    will_since_session = true;
                    session_open = false;
                }
                E::Sub(fs) => {
                    if sessions > 0 && !will_since_session {
                        out.fail("C16:will-refreshed-before-reconnect", &feat, format!("step {}: session {} opened on the previous session's will", k, sessions + 1));
                    }
                    sessions += 1;
                    will_since_session = false;
                    session_open = true;
                    // "each time the host application comes online it subscribes to filters covering its
                    // configured namespace and its own STATE topic": every session, not only the first
                    // (a clean session loses its subscriptions with the connection)
                    {
                        coverage_done = true;
                        for t in namespace_samples(&c.cfg) {
                            if !fs.iter().any(|f| mqtt_match(f, &t)) {
                                out.fail("C16:filters-cover-namespace", ck, format!("topic {:?} matched by none of {:?}", t, fs));
                                break;
                            }
                        }
                        let st = StateTopic::new_host(&c.host).topic;
                        if !fs.iter().any(|f| mqtt_match(f, &st)) {
                            out.fail("C16:filters-cover-own-state", ck, format!("{:?} matched by none of {:?}", st, fs));
                        }
                    }
                }
                E::Pub { topic, state, is_try } => {
                    let bytes: Vec<u8> = state.clone().into();
                    let js = json_state(&bytes);
                    let (q, r) = state.get_publish_quality_retain();
                    match js {
                        Some((true, t)) => {
                            if !session_open {
                                out.fail("C16:birth-only-after-subscribe", &feat, format!("step {}: birth published with no session open on the registered will", k));
                            }
                            if Some(t) != will || topic != &own || *is_try || q != QoS::AtLeastOnce || !r {
                                out.fail(
                                    "C16:birth-timestamp-equals-will",
                                    &feat,
                                    format!("step {}: birth on {:?} with timestamp {} (try={}), registered will {:?}", k, topic, t, is_try, will),
                                );
                            }
                        }
                        Some((false, _)) => {
                            if topic != &own || q != QoS::AtLeastOnce || !r {
                                out.fail("C16:cancel-publishes-offline-then-disconnects", &feat, format!("step {}: offline STATE on {:?}", k, topic));
                            }
                            if !*is_try {
                                out.fail("C20:cancel-offline-state-uses-try-publish", &feat, format!("step {}: blocking publish", k));
                            }
                        }
                        None => out.fail("C16:state-payload-is-json", &feat, format!("step {}: {:?}", k, String::from_utf8_lossy(&bytes))),
                    }
                }
                E::Disc => {}
                E::Unexpected(s) => out.fail("C16:no-other-calls", &feat, format!("step {}: {}", k, s)),
            }
        }
        let is_birth = |e: &E| matches!(e, E::Pub { state: StatePayload::Online { .. }, .. });
        let is_death = |e: &E| matches!(e, E::Pub { state: StatePayload::Offline { .. }, .. });
        let silent = o.effs.is_empty();
        // responses
        let Some(inp) = inp else {
            if !(o.effs.len() == 1 && matches!(o.effs[0], E::Will(_))) {
                out.fail("C16:construction-registers-will", &feat, format!("{:?}", o.effs));
            }
            continue;
        };
        let expect_cancelled = spec.advance(inp);
        match inp {
            Inp::Online if !before.draining => {
                if !before.connected {
                    let good = o.effs.len() == 2 && matches!(o.effs[0], E::Sub(_)) && is_birth(&o.effs[1]);
                    if !good {
                        out.fail("C16:online-subscribes-then-births", &feat, format!("step {}: {}", k, o.answer()));
                    }
                    if o.rets != ["Online"] {
                        out.fail("C16:online-subscribes-then-births", &format!("{}:ret", feat), format!("step {}: {:?}", k, o.rets));
                    }
                } else if !silent || !o.rets.is_empty() {
                    out.fail("C16:duplicate-silent", &feat, format!("step {}: {}", k, o.answer()));
                }
            }
            Inp::Offline => {
                if before.connected {
                    let good = o.effs.len() == 1 && matches!(o.effs[0], E::Will(_));
                    if !good {
                        out.fail("C16:offline-registers-fresh-will-first", &feat, format!("step {}: {}", k, o.answer()));
                    }
                    if !before.draining && o.rets != ["Offline"] {
                        out.fail("C16:offline-registers-fresh-will-first", &format!("{}:ret", feat), format!("step {}: {:?}", k, o.rets));
                    }
                } else if !silent || !o.rets.is_empty() {
                    out.fail("C16:duplicate-silent", &feat, format!("step {}: {}", k, o.answer()));
                }
            }
            Inp::State { host, online, .. } if !before.draining => {
                if host == &c.host && !*online && before.connected {
                    let good = o.effs.len() == 1 && is_birth(&o.effs[0]) && will == will_before;
                    if !good {
                        out.fail("C16:own-offline-answered", &feat, format!("step {}: {}", k, o.answer()));
                    }
                } else if (host != &c.host || *online) && !silent {
                    out.fail("C16:other-state-silent", &feat, format!("step {}: {}", k, o.answer()));
                }
            }
            Inp::Wire { topic, payload } if !before.draining => {
                let text = || {
                    format!(
                        "topic {:?} payload {:?} (library decoded it as {})",
                        String::from_utf8_lossy(topic),
                        String::from_utf8_lossy(payload),
                        o.decoded.as_deref().unwrap_or("<panic>")
                    )
                };
                if o.decode_panic {
                    out.fail("C16:wire-decode-no-panic", &feat, format!("step {}: {}", k, text()));
                }
                match wire_sem(&c.host, topic, payload) {
                    WireSem::OwnOffline if before.connected => {
                        // "Once its birth has gone out, an {online:false} STATE message seen for its own host
                        // id is answered by republishing the birth with the session's timestamp" (that the
                        // birth carries the session's timestamp is clause birth-timestamp-equals-will above)
                        let good = o.effs.len() == 1 && is_birth(&o.effs[0]) && will == will_before;
                        if !good {
                            out.fail(
                                "C16:own-offline-from-wire-answered",
                                &format!("{}:{}", feat, wire_shape(payload)),
                                format!("step {}: {} ; {}", k, o.answer(), text()),
                            );
                        }
                    }
                    WireSem::OwnOnline | WireSem::Foreign if !silent => {
                        out.fail(
                            "C16:other-state-from-wire-silent",
                            &format!("{}:{}", feat, wire_shape(payload)),
                            format!("step {}: {} ; {}", k, o.answer(), text()),
                        );
                    }
                    _ => {}
                }
            }
            Inp::Cancel => {
                let good = o.effs.len() == 2 && is_death(&o.effs[0]) && matches!(o.effs[1], E::Disc);
                if !good {
                    out.fail("C16:cancel-publishes-offline-then-disconnects", &feat, format!("step {}: {}", k, o.answer()));
                }
                if !(o.effs.first().map(|e| matches!(e, E::Pub { is_try: true, .. })).unwrap_or(false)) {
                    out.fail("C20:cancel-offline-state-uses-try-publish", &feat, format!("step {}: {}", k, o.answer()));
                }
            }
            _ => {}
        }
        if expect_cancelled > 0 {
            let how = match inp {
                Inp::Cancel => "while-offline",
                Inp::Offline => "offline-delivered",
                _ => "no-offline-within-1s",
            };
            let got = o.rets.iter().filter(|r| *r == "Cancelled").count();
            let want = if c.mode == Mode::App { 1 } else { expect_cancelled };
            if o.late_cancelled {
                // returned within ten seconds instead of one: bounded, so no direct-oracle failure
                out.count("oracle:late-cancelled-within-bound");
            } else if got != want {
                out.fail("C16:cancel-returns", how, format!("step {}: returned {:?}, expected {} x Cancelled", k, o.rets, want));
            }
            if c.mode == Mode::App && !o.late_cancelled {
                if !o.finished {
                    out.fail("C20:run-returns-after-cancel", how, format!("step {}: Application::run still running", k));
                }
                out.count(&format!("C20:run-returned:{}", how));
            }
        } else if o.rets.iter().any(|r| r == "Cancelled") {
            out.fail("C16:cancel-returns", "spurious", format!("step {}: {:?}", k, o.rets));
        }
    }
}

// ---------------------------------------------------------------------------------------------
// cases

pub fn run_case(out: &mut Out, c: &Case, kind: &str) {
    let new_op = c.new_op();
    let valid = !c.host.is_empty() && !c.host.contains(['+', '/', '#']);
    match drive(c) {
        None => {
            out.begin_case(&new_op, "panic");
            if valid {
                out.fail("C16:construction-registers-will", "panic", format!("host {:?}", c.host));
            }
            out.count("new:panic");
        }
        Some(obs) => {
            out.begin_case(&new_op, &obs[0].answer());
            for (s, o) in c.steps.iter().zip(obs[1..].iter()) {
                out.line(&s.op(), &o.answer());
                out.count(&format!("step:{}", s.inp.kind(&c.host)));
            }
            oracle(out, c, &obs);
            let births = obs.iter().flat_map(|o| o.effs.iter()).filter(|e| matches!(e, E::Sub(_))).count();
            if births >= 1 {
                out.nontrivial();
            }
            if births >= 2 {
                out.count("cases:reconnect");
            }
        }
    }
    out.count(&format!("case:{}:{}:{}", kind, c.mode.name(), c.cfg.kind()));
}

const HOST: &str = "H1";
const FOREIGN: &str = "H2";

fn fixed_cfgs() -> [Cfg; 3] {
    [
        Cfg::All,
        Cfg::Single("G1".into()),
        Cfg::Custom(vec![Ns::Group("G1".into()), Ns::Node("G2".into(), "N1".into())]),
    ]
}

fn sym(i: usize) -> Inp {
    match i {
        0 => Inp::Online,
        1 => Inp::Offline,
        2 => Inp::State { host: HOST.into(), online: true, ts: 7 },
        3 => Inp::State { host: HOST.into(), online: false, ts: 7 },
        4 => Inp::State { host: FOREIGN.into(), online: false, ts: 7 },
        5 => Inp::State { host: FOREIGN.into(), online: true, ts: 7 },
        6 => Inp::Other,
        7 => Inp::Cancel,
        _ => Inp::Timeout,
    }
}

/// steps from symbols; the mock clock steps by 10 ms (+ the index, so readings differ in shape)
fn steps_of(idx: &[usize], now0: u64) -> Vec<Step> {
    let mut now = now0;
    idx.iter()
        .enumerate()
        .map(|(k, &i)| {
            now += 10 + k as u64;
            Step { inp: sym(i), now }
        })
        .collect()
}

fn for_all_seqs(alphabet: usize, len: usize, f: &mut dyn FnMut(&[usize])) {
    let mut idx = vec![0usize; len];
    loop {
        f(&idx);
        let mut k = 0;
        loop {
            if k == len {
                return;
            }
            idx[k] += 1;
            if idx[k] < alphabet {
                break;
            }
            idx[k] = 0;
            k += 1;
        }
    }
}

fn weird_name(rng: &mut Rng) -> String {
    const POOL: [&str; 14] = ["G1", "G2", "N1", "a b", "Ünï", "STATE", "", "+", "#", "a/b", "x+y", "spBv1.0", "日本", "g#"];
    if rng.chance(3, 4) {
        rng.pick(&POOL).to_string()
    } else {
        let n = rng.range(1, 6);
        (0..n).map(|_| *rng.pick(&['a', 'B', '7', '_', '-', '.', ' ', 'é'])).collect()
    }
}

fn random_cfg(rng: &mut Rng) -> Cfg {
    match rng.below(3) {
        0 => Cfg::All,
        1 => Cfg::Single(weird_name(rng)),
        _ => {
            let n = rng.below(5);
            Cfg::Custom(
                (0..n)
                    .map(|_| {
                        if rng.chance(1, 2) {
                            Ns::Group(weird_name(rng))
                        } else {
                            Ns::Node(weird_name(rng), weird_name(rng))
                        }
                    })
                    .collect(),
            )
        }
    }
}

fn random_case(rng: &mut Rng, maxlen: u64) -> Case {
    let host = match rng.below(10) {
        0 => weird_name(rng), // possibly invalid: the constructor panics
        1 => "host é".to_string(),
        _ => HOST.to_string(),
    };
    let other = if rng.chance(1, 2) { FOREIGN.to_string() } else { format!("{}x", host) };
    let mode = match rng.below(6) {
        0 => Mode::App,
        1 => Mode::LoopReject,
        _ => Mode::Loop,
    };
    let now0 = rng.range(0, 1 << 41);
    let mut now = now0;
    let n = rng.range(1, maxlen);
    let mut steps = vec![];
    for _ in 0..n {
        // the clock: usually forward, sometimes frozen, rarely backwards
        match rng.below(10) {
            0 => {}
            1 => now = now.saturating_sub(rng.range(1, 5000)),
            _ => now += rng.range(1, 5000),
        }
        let inp = match rng.below(23) {
            0..=5 => Inp::Online,
            6..=10 => Inp::Offline,
            11..=13 => Inp::State { host: host.clone(), online: false, ts: rng.below(1 << 40) },
            14 => Inp::State { host: host.clone(), online: true, ts: rng.below(1 << 40) },
            15 => Inp::State { host: other.clone(), online: false, ts: rng.below(1 << 40) },
            16 => Inp::State { host: other.clone(), online: true, ts: u64::MAX },
            17 => Inp::Other,
            18 => Inp::Cancel,
            19 => Inp::Timeout,
            _ => random_wire(rng, &host, &other),
        };
        steps.push(Step { inp, now });
    }
    let mut c = Case { mode, cfg: random_cfg(rng), host, now0, steps };
    c.normalize();
    c
}

// ---------------------------------------------------------------------------------------------
// STATE messages from the wire

fn state_topic_bytes(host: &str) -> Vec<u8> {
    format!("spBv1.0/STATE/{}", host).into_bytes()
}

fn wire(host: &str, json: &str) -> Inp {
    Inp::Wire { topic: state_topic_bytes(host), payload: json.as_bytes().to_vec() }
}

/// further members other implementations put into the certificate object
const EXTRA_MEMBERS: [&str; 16] = [
    r#""bdSeq":7"#,
    r#""bdSeq":0"#,
    r#""seq":255"#,
    r#""uuid":"7d5f0c1e""#,
    r#""version":"3.0.0""#,
    r#""primary":true"#,
    r#""note":null"#,
    r#""load":0.25"#,
    r#""offset":-3"#,
    r#""big":1e300"#,
    r#""tags":[]"#,
    r#""tags":[1,"a",{"k":[null]}]"#,
    r#""meta":{}"#,
    r#""meta":{"vendor":"x","build":{"n":1}}"#,
    r#""text":"a \"quoted\" \\ \u00e9 é { } [ ] , :""#,
    "\"\":0",
];

/// JSON texts of ONE certificate {online, timestamp} as a foreign implementation may legally write it:
/// member order, further members before / between / after, insignificant whitespace.
fn cert_texts(online: bool, ts: u64) -> Vec<(String, String)> {
    let on = format!(r#""online":{}"#, online);
    let t = format!(r#""timestamp":{}"#, ts);
    let mut v: Vec<(String, String)> = vec![];
    v.push(("srad-order".into(), format!("{{{},{}}}", t, on)));
    v.push(("spec-order".into(), format!("{{{},{}}}", on, t)));
    for x in EXTRA_MEMBERS {
        v.push((format!("extra-after {}", x), format!("{{{},{},{}}}", on, t, x)));
    }
    for x in [EXTRA_MEMBERS[0], EXTRA_MEMBERS[3], EXTRA_MEMBERS[6], EXTRA_MEMBERS[11], EXTRA_MEMBERS[13], EXTRA_MEMBERS[14]] {
        v.push((format!("extra-before {}", x), format!("{{{},{},{}}}", x, on, t)));
        v.push((format!("extra-between {}", x), format!("{{{},{},{}}}", t, x, on)));
    }
    v.push((
        "extra-many".into(),
        format!("{{{},{},{},{},{},{}}}", EXTRA_MEMBERS[0], on, EXTRA_MEMBERS[3], EXTRA_MEMBERS[13], t, EXTRA_MEMBERS[5]),
    ));
    v.push((
        "extra-similar-names".into(),
        format!(r#"{{"Online":true,"online2":true,{},"time":1,"timestamp ":2,{}}}"#, on, t),
    ));
    v.push(("ws-spaces".into(), format!(r#"{{ "online" : {} , "timestamp" : {} }}"#, online, ts)));
    v.push(("ws-pretty".into(), format!("{{\n  \"online\": {},\n  \"timestamp\": {}\n}}\n", online, ts)));
    v.push((
        "ws-tabs-crlf".into(),
        format!("\t{{\r\n\t\"timestamp\":\t{}\t,\r\n\t\"online\":\t{}\r\n}}\r\n", ts, online),
    ));
    v.push((
        "ws-pretty-extra".into(),
        format!("{{\n  \"online\": {},\n  \"timestamp\": {},\n  \"bdSeq\": 7\n}}", online, ts),
    ));
    v
}

/// texts that are NOT a plain certificate by the harness's reading (`wire_sem` = Unknown): the oracle
/// demands nothing, implementation and model must agree on what the host does
fn odd_texts() -> Vec<String> {
    [
        "",
        "{}",
        "[]",
        "null",
        "false",
        r#"{"online":false}"#,
        r#"{"timestamp":5}"#,
        r#"{"online":false,"timestamp":5"#,
        r#"{"online":false,"timestamp":5,}"#,
        r#"{"online":false,"timestamp":5}x"#,
        r#"{"online":false,"timestamp":5}{}"#,
        r#"{"online":false,"timestamp":5.0}"#,
        r#"{"online":false,"timestamp":5e0}"#,
        r#"{"online":false,"timestamp":-5}"#,
        r#"{"online":false,"timestamp":"5"}"#,
        r#"{"online":false,"timestamp":18446744073709551616}"#,
        r#"{"online":false,"timestamp":null}"#,
        r#"{"online":0,"timestamp":5}"#,
        r#"{"online":"false","timestamp":5}"#,
        r#"{"online":null,"timestamp":5}"#,
        r#"{"online":false,"online":false,"timestamp":5}"#,
        r#"{"online":false,"timestamp":5,"timestamp":6}"#,
        r#"{"online":false,"timestamp":5,"meta":{"online":true}}"#,
        r#"{"\u006fnline":false,"timestamp":5}"#,
        r#"[false,5]"#,
        r#"[5,false]"#,
        r#"{"online":false,"timestamp":5,"bdSeq":}"#,
        r#"{"online":false,"timestamp":5,"bdSeq":7"#,
        "\u{feff}{\"online\":false,\"timestamp\":5}",
    ]
    .iter()
    .map(|s| s.to_string())
    .collect()
}

fn random_ws(rng: &mut Rng) -> String {
    if rng.chance(2, 3) {
        return String::new();
    }
    (0..rng.range(1, 3)).map(|_| *rng.pick(&[' ', '\n', '\t', '\r'])).collect()
}

/// one random received STATE publish: usually a certificate with random further members, order,
/// whitespace and timestamp on the own / another host's STATE topic, sometimes an odd text or topic
fn random_wire(rng: &mut Rng, host: &str, other: &str) -> Inp {
    let h = match rng.below(8) {
        0 | 1 => other.to_string(),
        _ => host.to_string(),
    };
    let mut topic = state_topic_bytes(&h);
    match rng.below(30) {
        0 => topic.extend_from_slice(b"/x"),
        1 => topic = b"spBv1.0/STATE".to_vec(),
        2 => topic = format!("STATE/{}", h).into_bytes(),
        3 => topic = format!("spBv1.0/state/{}", h).into_bytes(),
        _ => {}
    }
    if rng.chance(1, 10) {
        let odd = odd_texts();
        return Inp::Wire { topic, payload: rng.pick(&odd).as_bytes().to_vec() };
    }
    let online = rng.chance(1, 5);
    let ts = match rng.below(6) {
        0 => 0,
        1 => u64::MAX,
        2 => rng.below(10),
        _ => rng.below(1 << 41),
    };
    let mut members = vec![
        format!("\"online\"{}:{}{}", random_ws(rng), random_ws(rng), online),
        format!("\"timestamp\"{}:{}{}", random_ws(rng), random_ws(rng), ts),
    ];
    if rng.chance(1, 2) {
        members.swap(0, 1);
    }
    let n_extra = match rng.below(4) {
        0 => 0,
        1 | 2 => 1,
        _ => rng.range(2, 4),
    };
    let mut used: Vec<String> = vec![];
    for _ in 0..n_extra {
        let x = *rng.pick(&EXTRA_MEMBERS);
        let key = x.split(':').next().unwrap().to_string();
        if used.contains(&key) {
            continue; // a member name twice: not what this generator is for
        }
        used.push(key);
        let at = rng.below(members.len() as u64 + 1) as usize;
        members.insert(at, x.to_string());
    }
    let mut s = random_ws(rng);
    s.push('{');
    for (i, m) in members.iter().enumerate() {
        if i > 0 {
            s.push(',');
        }
        s.push_str(&random_ws(rng));
        s.push_str(m);
        s.push_str(&random_ws(rng));
    }
    s.push('}');
    s.push_str(&random_ws(rng));
    let mut payload = s.into_bytes();
    if rng.chance(1, 25) {
        let cut = rng.below(payload.len() as u64) as usize;
        payload.truncate(cut);
    }
    Inp::Wire { topic, payload }
}

/// (f) scripted: every certificate text at every point of the session life cycle where the property
/// speaks about an own {online:false} message
fn wire_scenarios(out: &mut Out, thorough: bool) {
    let cfgs = fixed_cfgs();
    let st = |inp: Inp, now: u64| Step { inp, now };
    let own_off = cert_texts(false, 2);
    let run = |out: &mut Out, mode: Mode, cfg: &Cfg, host: &str, steps: Vec<Step>, kind: &str| {
        let mut c = Case { mode, cfg: cfg.clone(), host: host.into(), now0: 1000, steps };
        c.normalize();
        run_case(out, &c, kind);
    };
    for (ci, cfg) in cfgs.iter().enumerate() {
        let modes: &[Mode] = if ci == 0 || thorough { &[Mode::Loop, Mode::App, Mode::LoopReject] } else { &[Mode::Loop] };
        for &mode in modes {
            for (_, j) in &own_off {
                // in the first session: answered with the session's will timestamp, also the second time,
                // after a plain certificate and after a hand-built event
                run(
                    out,
                    mode,
                    cfg,
                    HOST,
                    vec![
                        st(Inp::Online, 1010),
                        st(wire(HOST, j), 1020),
                        st(wire(HOST, r#"{"online":false,"timestamp":1}"#), 1030),
                        st(wire(HOST, j), 1040),
                        st(Inp::State { host: HOST.into(), online: false, ts: 3 }, 1050),
                        st(wire(HOST, j), 1060),
                    ],
                    "wire:first-session",
                );
                // after a reconnect: answered with the NEW session's timestamp; not while offline, not
                // before the first session
                run(
                    out,
                    mode,
                    cfg,
                    HOST,
                    vec![
                        st(wire(HOST, j), 1005),
                        st(Inp::Online, 1010),
                        st(Inp::Offline, 1500),
                        st(wire(HOST, j), 1600),
                        st(Inp::Online, 2000),
                        st(wire(HOST, j), 2100),
                        st(Inp::Online, 2200),
                        st(wire(HOST, j), 2300),
                    ],
                    "wire:reconnect",
                );
                // during the shutdown wait nothing is answered; the cancel still completes
                run(
                    out,
                    mode,
                    cfg,
                    HOST,
                    vec![
                        st(Inp::Online, 1010),
                        st(wire(HOST, j), 1020),
                        st(Inp::Cancel, 1030),
                        st(wire(HOST, j), 1040),
                        st(Inp::Offline, 1050),
                    ],
                    "wire:cancel",
                );
            }
        }
        // the same texts saying something else: own {online:true}, another host's certificates, odd texts
        // and odd topics - nothing is published
        let mut steps = vec![st(Inp::Online, 1010)];
        let mut now = 1010;
        let mut push = |steps: &mut Vec<Step>, i: Inp| {
            now += 7;
            steps.push(Step { inp: i, now });
        };
        for (_, j) in cert_texts(true, 9) {
            push(&mut steps, wire(HOST, &j));
        }
        for (_, j) in &own_off {
            push(&mut steps, wire(FOREIGN, j));
            push(&mut steps, wire("H1x", j));
            push(&mut steps, wire("H", j));
        }
        for j in odd_texts() {
            push(&mut steps, wire(HOST, &j));
            push(&mut steps, wire(FOREIGN, &j));
        }
        for t in ["spBv1.0/STATE", "spBv1.0/STATE/", "spBv1.0/STATE/H1/x", "spBv1.0/STATE/H1/", "STATE/H1", "spBv1.0/state/H1", "", "/", "spBv1.0"] {
            for (_, j) in own_off.iter().take(3) {
                push(&mut steps, Inp::Wire { topic: t.as_bytes().to_vec(), payload: j.as_bytes().to_vec() });
            }
        }
        // and the session is still answered afterwards
        push(&mut steps, wire(HOST, &own_off[2].1));
        run(out, Mode::Loop, cfg, HOST, steps, "wire:not-an-own-death");
    }
    // timestamps of the received certificate: the answer never depends on it
    for ts in [0u64, 1, 999, 1010, 1011, u64::MAX - 1, u64::MAX] {
        for (_, j) in cert_texts(false, ts).into_iter().take(6) {
            run(
                out,
                Mode::Loop,
                &cfgs[0],
                "host é",
                vec![st(Inp::Online, 1010), st(wire("host é", &j), 1020)],
                "wire:timestamps",
            );
        }
    }
    out.exhaustive.push(format!(
        "wire: {} texts of one own {{online:false}} certificate (member order, 16 kinds of further members after / before / between, whitespace) x {{first session three times, after a reconnect, before the first session, while offline, during the shutdown wait}} x 3 configurations (loop; configuration 1 also app and rejecting client); the same texts as own online / foreign certificates, {} odd texts and 9 odd topics",
        own_off.len(),
        odd_texts().len()
    ));
}

fn aux_line(out: &mut Out, op: &str) {
    let a = exec_aux(op);
    out.line(op, &a);
}

/// the stateless requests: matcher, name validation, topic strings
fn exec_aux(op: &str) -> String {
    let w: Vec<&str> = op.split_whitespace().collect();
    match w.as_slice() {
        ["hostloop", "match", f, t] => (mqtt_match(&unhx(f), &unhx(t)) as u8).to_string(),
        ["hostloop", "valid", n] => (srad_types::utils::validate_name(&unhx(n)).is_ok() as u8).to_string(),
        ["hostloop", "topic", "state", h] => {
            let h = unhx(h);
            let a = state_host_topic(&h);
            assert_eq!(a, StateTopic::new_host(&h).topic);
            hx(&a)
        }
        ["hostloop", "topic", "node", g, v, n] => {
            let (g, v, n) = (unhx(g), unhx(v), unhx(n));
            let a = node_topic_raw(&g, &v, &n);
            let m = match v.as_str() {
                "NBIRTH" => Some(NodeMessage::NBirth),
                "NDEATH" => Some(NodeMessage::NDeath),
                "NDATA" => Some(NodeMessage::NData),
                "NCMD" => Some(NodeMessage::NCmd),
                _ => None,
            };
            if let Some(m) = m {
                assert_eq!(a, NodeTopic::new(&g, m, &n).topic);
            }
            hx(&a)
        }
        ["hostloop", "topic", "device", g, v, n, d] => {
            let (g, v, n, d) = (unhx(g), unhx(v), unhx(n), unhx(d));
            let m = match v.as_str() {
                "DBIRTH" => DeviceMessage::DBirth,
                "DDEATH" => DeviceMessage::DDeath,
                "DDATA" => DeviceMessage::DData,
                "DCMD" => DeviceMessage::DCmd,
                _ => panic!("device verb"),
            };
            hx(&DeviceTopic::new(&g, m, &n, &d).topic)
        }
        _ => panic!("bad op {}", op),
    }
}

fn aux_cases(out: &mut Out, rng: &mut Rng, thorough: bool) {
    // matcher: every filter of length <= Lf over {a,b,+,#,/} against every topic of length <= Lt over {a,b,/}
    let (lf, lt) = if thorough { (5, 4) } else { (4, 3) };
    let mut filters = vec![];
    for l in 0..=lf {
        for_all_seqs(5, l, &mut |ix| filters.push(ix.iter().map(|&i| ['a', 'b', '+', '#', '/'][i]).collect::<String>()));
    }
    let mut topics = vec![];
    for l in 0..=lt {
        for_all_seqs(3, l, &mut |ix| topics.push(ix.iter().map(|&i| ['a', 'b', '/'][i]).collect::<String>()));
    }
    out.begin_case("hostloop valid -", &exec_aux("hostloop valid -"));
    for f in &filters {
        for t in &topics {
            aux_line(out, &format!("hostloop match {} {}", hx(f), hx(t)));
        }
        out.count_n("aux:match", topics.len() as u64);
    }
    out.exhaustive.push(format!(
        "filter matching: all filters of length <={} over {{a,b,+,#,/}} x all topics of length <={} over {{a,b,/}}",
        lf, lt
    ));
    for f in &filters {
        aux_line(out, &format!("hostloop valid {}", hx(f)));
        out.count("aux:valid");
    }
    // topic strings for odd names
    for _ in 0..(if thorough { 3000 } else { 300 }) {
        let (g, n, d, h) = (weird_name(rng), weird_name(rng), weird_name(rng), weird_name(rng));
        aux_line(out, &format!("hostloop topic state {}", hx(&h)));
        aux_line(out, &format!("hostloop valid {}", hx(&h)));
        let v = *rng.pick(&["NBIRTH", "NDEATH", "NDATA", "NCMD", "STATE", "x"]);
        aux_line(out, &format!("hostloop topic node {} {} {}", hx(&g), hx(v), hx(&n)));
        let v = *rng.pick(&["DBIRTH", "DDEATH", "DDATA", "DCMD"]);
        aux_line(out, &format!("hostloop topic device {} {} {} {}", hx(&g), hx(v), hx(&n), hx(&d)));
        // the filters of a configuration naming these ids match the topics built from them
        let nt = node_topic_raw(&g, "NDATA", &n);
        let dt = DeviceTopic::new(&g, DeviceMessage::DData, &n, &d).topic;
        for f in [
            String::from(srad_types::topic::Topic::Group { id: g.clone() }),
            String::from(srad_types::topic::Topic::Node { group_id: g.clone(), node_id: n.clone() }),
            String::from(srad_types::topic::Topic::FullNamespace),
        ] {
            for t in [&nt, &dt] {
                aux_line(out, &format!("hostloop match {} {}", hx(&f), hx(t)));
                if !mqtt_match(&f, t) {
                    out.fail("C16:filters-cover-namespace", "aux", format!("{:?} does not match {:?}", f, t));
                }
            }
        }
        out.count("aux:topics");
    }
}

pub const RULE: &str = "cases = (a) every event sequence of length <=L over {Online, Offline, own STATE online, own STATE offline, foreign STATE offline} optionally followed by Cancel (then closed once by a delivered Offline and once by the 1 s timeout), x {AllGroups, SingleGroup, Custom[group, group+node]}, through AppEventLoop::new + poll; (b) the same through ApplicationBuilder/Application::run for length <=La; (c) every sequence of length <=Lx over the 9-symbol alphabet that adds foreign STATE online, a non-STATE event, Cancel anywhere and the 1 s timeout (a third outstanding cancel is skipped); (d) random sequences up to 60 steps with random configurations (odd group/node ids incl. '/', '+', '#', empty, non-ASCII), odd and invalid host ids (constructor panic), non-monotone clock, rejecting client, all three drive modes; (e) filter matcher / name validation / topic strings differentially; (f) STATE messages FROM THE WIRE: topic bytes + JSON text handed to srad_client::topic_and_payload_to_event and the resulting Event to the loop (`hostloop wire`): scripted - every text of one own {online:false} certificate (member order, further members as other Sparkplug implementations add them before/between/after, insignificant whitespace) in the first session (three times, mixed with plain and hand-built ones), after a reconnect, before the first session, while offline and during the shutdown wait, the same texts as own {online:true} / other hosts' certificates, odd texts and odd topics - and about 1 in 8 steps of the random sequences (random members, order, whitespace, timestamps 0..u64::MAX, other host ids, truncation). The mock clock is set before every step. A case is non-trivial if at least one session was opened (a subscribe was observed); distinct = distinct op-line sequences (hashed).";

pub fn run(args: &Args, out: &mut Out) -> &'static str {
    let mut rng = Rng::new(args.seed);
    let (l, la, lx, nrand) = if args.thorough() { (7usize, 5usize, 5usize, 20000u64) } else { (6, 4, 4, 2000) };
    let cfgs = fixed_cfgs();
    // (a), (b)
    for (mode, maxlen) in [(Mode::Loop, l), (Mode::App, la)] {
        for cfg in &cfgs {
            for len in 0..=maxlen {
                for_all_seqs(5, len, &mut |ix| {
                    let base = steps_of(ix, 1000);
                    let mk = |steps: Vec<Step>| {
                        let mut c = Case { mode, cfg: cfg.clone(), host: HOST.into(), now0: 1000, steps };
                        c.normalize();
                        c
                    };
                    run_case(out, &mk(base.clone()), "exhaustive5");
                    if len < maxlen {
                        let t = base.last().map(|s| s.now).unwrap_or(1000);
                        let mut s1 = base.clone();
                        s1.push(Step { inp: Inp::Cancel, now: t + 20 });
                        let mut s2 = s1.clone();
                        s2.push(Step { inp: Inp::Offline, now: t + 50 });
                        run_case(out, &mk(s1), "exhaustive5+cancel+timeout");
                        run_case(out, &mk(s2), "exhaustive5+cancel+offline");
                    }
                });
            }
        }
        out.exhaustive.push(format!(
            "mode {}: all sequences of length 0..={} over 5 events, each also with Cancel as last event (length <= {}) closed by Offline and by timeout, x 3 configurations",
            mode.name(),
            maxlen,
            maxlen
        ));
    }
    // (c)
    for cfg in &cfgs {
        for len in 0..=lx {
            for_all_seqs(9, len, &mut |ix| {
                let mut c = Case { mode: Mode::Loop, cfg: cfg.clone(), host: HOST.into(), now0: 500, steps: steps_of(ix, 500) };
                c.normalize();
                run_case(out, &c, "exhaustive9");
            });
        }
    }
    out.exhaustive.push(format!("mode loop: all sequences of length 0..={} over 9 inputs (cancel anywhere, timeout) x 3 configurations", lx));
    // (f) (before the random cases: the scripted scenarios give the shortest failing inputs)
    wire_scenarios(out, args.thorough());
    // (d)
    for _ in 0..nrand {
        let c = random_case(&mut rng, 60);
        run_case(out, &c, "random");
    }
    // malformed host ids
    for h in ["", "+", "#", "/", "a+b", "a/b", "a#", "ok", "sp ace", "Ünï", " "] {
        let c = Case { mode: Mode::Loop, cfg: Cfg::All, host: h.into(), now0: 5, steps: steps_of(&[0, 3, 1], 5) };
        run_case(out, &c, "hostid");
        let c = Case { mode: Mode::App, cfg: Cfg::Single("G".into()), host: h.into(), now0: 5, steps: steps_of(&[0, 3, 1], 5) };
        run_case(out, &c, "hostid");
    }
    // (e)
    aux_cases(out, &mut rng, args.thorough());
    RULE
}

/// Re-run from op lines (the op lines are the replay).
pub fn replay(_desc: &str, lines: &[String], out: &mut Out) {
    let mut cur: Option<Case> = None;
    let mut aux: Vec<String> = vec![];
    let flush = |cur: &mut Option<Case>, out: &mut Out| {
        if let Some(c) = cur.take() {
            run_case(out, &c, "replay");
        }
    };
    for l in lines {
        let w: Vec<&str> = l.split_whitespace().collect();
        match w.as_slice() {
            ["hostloop", "new", mode, cfg, host, now] => {
                flush(&mut cur, out);
                let mode = match *mode {
                    "loop" => Mode::Loop,
                    "loopr" => Mode::LoopReject,
                    _ => Mode::App,
                };
                cur = Some(Case { mode, cfg: Cfg::parse(cfg), host: unhx(host), now0: now.parse().unwrap(), steps: vec![] });
            }
            ["hostloop", "ev", "online", now] => cur.as_mut().unwrap().steps.push(Step { inp: Inp::Online, now: now.parse().unwrap() }),
            ["hostloop", "ev", "offline", now] => cur.as_mut().unwrap().steps.push(Step { inp: Inp::Offline, now: now.parse().unwrap() }),
            ["hostloop", "ev", "other", now] => cur.as_mut().unwrap().steps.push(Step { inp: Inp::Other, now: now.parse().unwrap() }),
            ["hostloop", "ev", "state", h, on, ts, now] => cur.as_mut().unwrap().steps.push(Step {
                inp: Inp::State { host: unhx(h), online: *on == "1", ts: ts.parse().unwrap() },
                now: now.parse().unwrap(),
            }),
            ["hostloop", "wire", t, p, now] => cur.as_mut().unwrap().steps.push(Step {
                inp: Inp::Wire { topic: unhex(t), payload: unhex(p) },
                now: now.parse().unwrap(),
            }),
            ["hostloop", "cancel", now] => cur.as_mut().unwrap().steps.push(Step { inp: Inp::Cancel, now: now.parse().unwrap() }),
            ["hostloop", "timeout", now] => cur.as_mut().unwrap().steps.push(Step { inp: Inp::Timeout, now: now.parse().unwrap() }),
            _ => aux.push(l.clone()),
        }
    }
    flush(&mut cur, out);
    if !aux.is_empty() {
        out.begin_case("hostloop valid -", &exec_aux("hostloop valid -"));
        for l in aux {
            aux_line(out, &l);
        }
    }
}

// ---------------------------------------------------------------------------------------------
// T-table

const TABLE_PREFIXES: [&[usize]; 12] = [
    &[],
    &[0],
    &[0, 1],
    &[0, 1, 0],
    &[0, 3],
    &[7],
    &[0, 7],
    &[0, 7, 7],
    &[0, 7, 1],
    &[0, 7, 8],
    &[0, 7, 7, 8],
    &[0, 7, 7, 1],
];

fn ink(i: usize) -> &'static str {
    ["online", "offline", "ownOn", "ownOff", "foreignOff", "foreignOn", "other", "cancel", "timeout"][i]
}

/// recognise a filter by its text (literal strings, not srad's formatting code)
fn classify(f: &str) -> String {
    match f {
        "spBv1.0/#" => "FK.full".into(),
        "spBv1.0/G1/+/#" => "FK.group 1".into(),
        "spBv1.0/G2/+/#" => "FK.group 2".into(),
        "spBv1.0/G2/+/N1/#" => "FK.node 2 1".into(),
        "spBv1.0/STATE/H1" => "FK.ownState".into(),
        _ => "FK.unknown".into(),
    }
}

/// `srad-verif table HostLoopTable`: every (configuration, prefix, input) cell executed on the
/// compiled crate; the shape of what the last input caused.
pub fn table_hostloop() -> String {
    let mut s = String::from("-- GENERATED by `srad-verif table HostLoopTable` from the compiled srad-app; do not edit.\n-- rows: configuration, inputs before, last input, shape of the effects and AppEvents of the last input\nimport SradModel.Model.HostLoopSpec\nnamespace Srad.Generated\nopen Srad.HostLoop\n\ndef hostLoopTable : List Row := [\n");
    let own = "spBv1.0/STATE/H1";
    let lb = |b: bool| if b { "true" } else { "false" };
    let mut rows = vec![];
    for (ci, cfg) in fixed_cfgs().iter().enumerate() {
        for pre in TABLE_PREFIXES {
            for inp in 0..9usize {
                let mut ix: Vec<usize> = pre.to_vec();
                ix.push(inp);
                let mut spec = Spec::default();
                let mut bad = false;
                for &i in &ix {
                    if spec.forbidden(&sym(i)) {
                        bad = true;
                    }
                    spec.advance(&sym(i));
                }
                if bad {
                    continue; // a third outstanding cancel parks in `Sender::send`
                }
                let steps: Vec<Step> =
                    ix.iter().enumerate().map(|(k, &i)| Step { inp: sym(i), now: 1000 + 10 * (k as u64 + 1) }).collect();
                let c = Case { mode: Mode::Loop, cfg: cfg.clone(), host: HOST.into(), now0: 1000, steps };
                let obs = drive(&c).expect("constructor");
                let mut will: Option<u64> = None;
                let mut shapes = vec![];
                for (k, o) in obs.iter().enumerate() {
                    let now = 1000 + 10 * k as u64;
                    let last = k + 1 == obs.len();
                    for e in &o.effs {
                        let sh = match e {
                            E::Will(w) => {
                                let t = json_state(&w.payload).map(|x| x.1);
                                let r = format!("Sh.will {} {}", lb(w.topic == own), lb(t == Some(now)));
                                will = t;
                                r
                            }
                            E::Sub(fs) => format!("Sh.sub [{}]", fs.iter().map(|f| classify(f)).collect::<Vec<_>>().join(", ")),
                            E::Pub { topic, state, is_try } => {
                                let (on, t) = match state {
                                    StatePayload::Online { timestamp } => (true, *timestamp),
                                    StatePayload::Offline { timestamp } => (false, *timestamp),
                                };
                                format!(
                                    "Sh.pub {} {} {} {} {}",
                                    lb(topic == own),
                                    lb(on),
                                    lb(will == Some(t)),
                                    lb(t == now),
                                    lb(*is_try)
                                )
                            }
                            E::Disc => "Sh.disc".to_string(),
                            E::Unexpected(_) => "Sh.sub [FK.unknown, FK.unknown, FK.unknown, FK.unknown]".to_string(),
                        };
                        if last {
                            shapes.push(sh);
                        }
                    }
                }
                let o = obs.last().unwrap();
                let rets: Vec<String> = o
                    .rets
                    .iter()
                    .map(|r| match r.as_str() {
                        "Online" => "Ret.online".to_string(),
                        "Offline" => "Ret.offline".to_string(),
                        _ => "Ret.cancelled".to_string(),
                    })
                    .collect();
                rows.push(format!(
                    "  ⟨{}, [{}], .{}, [{}], [{}]⟩",
                    ci,
                    pre.iter().map(|&i| format!(".{}", ink(i))).collect::<Vec<_>>().join(", "),
                    ink(inp),
                    shapes.join(", "),
                    rets.join(", ")
                ));
            }
        }
    }
    s.push_str(&rows.join(",\n"));
    s.push_str("\n]\n\nend Srad.Generated\n");
    s
}
