//! Shared harness plumbing: PRNG, line-protocol writer, statistics, oracle failure records.
use std::collections::{BTreeMap, HashSet};
use std::fs::File;
use std::hash::{Hash, Hasher};
use std::io::{BufWriter, Write};
use std::path::{Path, PathBuf};

/// SplitMix64: one `u64` of state reproduces a run.
#[derive(Clone)]
pub struct Rng(pub u64);

impl Rng {
    pub fn new(seed: u64) -> Self {
        Rng(seed ^ 0x9E37_79B9_7F4A_7C15)
    }
    pub fn next(&mut self) -> u64 {
        self.0 = self.0.wrapping_add(0x9E37_79B9_7F4A_7C15);
        let mut z = self.0;
        z = (z ^ (z >> 30)).wrapping_mul(0xBF58_476D_1CE4_E5B9);
        z = (z ^ (z >> 27)).wrapping_mul(0x94D0_49BB_1331_11EB);
        z ^ (z >> 31)
    }
    pub fn below(&mut self, n: u64) -> u64 {
        if n == 0 {
            0
        } else {
            self.next() % n
        }
    }
    pub fn range(&mut self, lo: u64, hi_incl: u64) -> u64 {
        lo + self.below(hi_incl - lo + 1)
    }
    pub fn chance(&mut self, num: u64, den: u64) -> bool {
        self.below(den) < num
    }
    pub fn pick<'a, T>(&mut self, xs: &'a [T]) -> &'a T {
        &xs[self.below(xs.len() as u64) as usize]
    }
    pub fn shuffle<T>(&mut self, xs: &mut [T]) {
        for i in (1..xs.len()).rev() {
            let j = self.below(i as u64 + 1) as usize;
            xs.swap(i, j);
        }
    }
    pub fn fork(&mut self) -> Rng {
        Rng(self.next())
    }
}

pub fn hex(b: &[u8]) -> String {
    if b.is_empty() {
        return "-".to_string();
    }
    let mut s = String::with_capacity(b.len() * 2);
    for x in b {
        s.push_str(&format!("{:02x}", x));
    }
    s
}

pub fn unhex(s: &str) -> Vec<u8> {
    if s == "-" {
        return vec![];
    }
    (0..s.len() / 2)
        .map(|i| u8::from_str_radix(&s[2 * i..2 * i + 2], 16).unwrap())
        .collect()
}

/// One oracle failure: which clause of the property failed on which case.
#[derive(Clone, Debug)]
pub struct OracleFail {
    pub case: u64,
    pub line: u64,
    pub desc: String,
    pub origin: String,
    pub clause: String,
    pub feature: String,
    pub detail: String,
}

/// Writer for one component run: `ops.txt` (requests for the model driver), `impl.txt`
/// (the implementation's answer to the same request, line for line), `oracle.txt`,
/// `stats.json`.
pub struct Out {
    dir: PathBuf,
    ops: BufWriter<File>,
    imp: BufWriter<File>,
    idx: BufWriter<File>,
    cur_desc: String,
    cur_origin: String,
    cur_start: u64,
    /// "gen" for generated cases, "corpus:<file>" while replaying a corpus file
    pub origin: String,
    pub lines: u64,
    pub cases: u64,
    pub stats: BTreeMap<String, u64>,
    pub fails: Vec<OracleFail>,
    distinct: HashSet<u64>,
    pub nontrivial_distinct: u64,
    cur_hash: std::collections::hash_map::DefaultHasher,
    cur_nontrivial: bool,
    cur_text: String,
    pub samples: Vec<String>,
    pub exhaustive: Vec<String>,
    sample_every: u64,
}

impl Out {
    pub fn new(dir: &Path) -> Self {
        std::fs::create_dir_all(dir).unwrap();
        Out {
            dir: dir.to_path_buf(),
            ops: BufWriter::new(File::create(dir.join("ops.txt")).unwrap()),
            imp: BufWriter::new(File::create(dir.join("impl.txt")).unwrap()),
            idx: BufWriter::new(File::create(dir.join("cases.txt")).unwrap()),
            cur_desc: String::new(),
            cur_origin: "gen".into(),
            cur_start: 0,
            origin: "gen".into(),
            lines: 0,
            cases: 0,
            stats: BTreeMap::new(),
            fails: vec![],
            distinct: HashSet::new(),
            nontrivial_distinct: 0,
            cur_hash: Default::default(),
            cur_nontrivial: false,
            cur_text: String::new(),
            samples: vec![],
            exhaustive: vec![],
            sample_every: 1,
        }
    }

    /// Start a new case. The line is sent to the model as well (it resets the component).
    pub fn begin_case(&mut self, op: &str, answer: &str) {
        self.end_case();
        self.cases += 1;
        self.cur_hash = Default::default();
        self.cur_nontrivial = false;
        self.cur_text.clear();
        self.cur_desc.clear();
        self.cur_origin = self.origin.clone();
        self.cur_start = self.lines + 1;
        self.line(op, answer);
    }

    /// A compact, replayable description of the current case (understood by the component's
    /// `replay`); when absent the op lines themselves are the replay.
    pub fn set_desc(&mut self, d: String) {
        self.cur_desc = d;
    }

    /// One request and the implementation's answer.
    pub fn line(&mut self, op: &str, answer: &str) {
        debug_assert!(!op.contains('\n') && !answer.contains('\n'));
        writeln!(self.ops, "{}", op).unwrap();
        writeln!(self.imp, "{}", answer).unwrap();
        self.lines += 1;
        op.hash(&mut self.cur_hash);
        if self.cur_text.len() < 400 {
            self.cur_text.push_str(op);
            self.cur_text.push_str(" => ");
            self.cur_text.push_str(answer);
            self.cur_text.push_str(" ; ");
        }
    }

    /// Mark the current case as non-trivial by the component's stated rule.
    pub fn nontrivial(&mut self) {
        self.cur_nontrivial = true;
    }

    pub fn end_case(&mut self) {
        if self.cases == 0 {
            return;
        }
        writeln!(self.idx, "{}\t{}\t{}", self.cur_start, self.cur_origin, self.cur_desc).unwrap();
        let h = std::mem::take(&mut self.cur_hash).finish();
        if self.cur_nontrivial && self.distinct.insert(h) {
            self.nontrivial_distinct += 1;
            // keep a thin, deterministic sample of actual cases
            if self.nontrivial_distinct % self.sample_every == 0 && self.samples.len() < 12 {
                self.samples.push(self.cur_text.clone());
                self.sample_every *= 4;
            }
        }
        self.cur_nontrivial = false;
    }

    pub fn count(&mut self, key: &str) {
        *self.stats.entry(key.to_string()).or_insert(0) += 1;
    }
    pub fn count_n(&mut self, key: &str, n: u64) {
        *self.stats.entry(key.to_string()).or_insert(0) += n;
    }

    pub fn fail(&mut self, clause: &str, feature: &str, detail: String) {
        let key = format!("oracle_fail:{}:{}", clause, feature);
        // keep at most 5 witnesses per signature
        if self.stats.get(&key).copied().unwrap_or(0) < 5 {
            self.fails.push(OracleFail {
                case: self.cases,
                line: self.cur_start,
                desc: self.cur_desc.clone(),
                origin: self.cur_origin.clone(),
                clause: clause.to_string(),
                feature: feature.to_string(),
                detail,
            });
        }
        self.count(&format!("oracle_fail:{}:{}", clause, feature));
    }

    pub fn finish(mut self, rule: &str) {
        self.end_case();
        self.ops.flush().unwrap();
        self.imp.flush().unwrap();
        self.idx.flush().unwrap();
        let mut f = BufWriter::new(File::create(self.dir.join("oracle.txt")).unwrap());
        for x in &self.fails {
            writeln!(
                f,
                "{}\t{}\t{}\t{}\t{}\t{}\t{}",
                x.case,
                x.line,
                x.desc,
                x.origin,
                x.clause,
                x.feature,
                x.detail.replace('\n', " ")
            )
            .unwrap();
        }
        f.flush().unwrap();
        let j = serde_json::json!({
            "lines": self.lines,
            "cases": self.cases,
            "distinct_nontrivial": self.nontrivial_distinct,
            "rule": rule,
            "samples": self.samples,
            "stats": self.stats,
            "exhaustive_spaces": self.exhaustive,
            "oracle_failures": self.fails.len(),
        });
        std::fs::write(
            self.dir.join("stats.json"),
            serde_json::to_string_pretty(&j).unwrap(),
        )
        .unwrap();
    }
}

/// Run `f` catching panics; the panic message is returned as `Err`.
pub fn catch<T>(f: impl FnOnce() -> T + std::panic::UnwindSafe) -> Result<T, String> {
    match std::panic::catch_unwind(f) {
        Ok(v) => Ok(v),
        Err(e) => {
            let msg = if let Some(s) = e.downcast_ref::<&str>() {
                s.to_string()
            } else if let Some(s) = e.downcast_ref::<String>() {
                s.clone()
            } else {
                "panic".to_string()
            };
            Err(msg)
        }
    }
}

pub struct Args {
    pub tier: String,
    pub seed: u64,
    pub out: PathBuf,
    pub replay: Option<PathBuf>,
    pub rest: Vec<String>,
}

impl Args {
    pub fn thorough(&self) -> bool {
        self.tier == "thorough"
    }
}
