//! Shared harness plumbing: PRNG, line-protocol writer, statistics, oracle failure records.
use std::collections::{BTreeMap, HashSet};
use std::fs::File;
use std::hash::{Hash, Hasher};
use std::io::{BufWriter, Write};
use std::path::{Path, PathBuf};

/// SplitMix64: one `u64` of state reproduces a run.
#[derive(Clone)]
pub struct Rng(pub u64);

impl Rng {
    pub fn new(seed: u64) -> Self {
        Rng(seed ^ 0x9E37_79B9_7F4A_7C15)
    }
    pub fn next(&mut self) -> u64 {
        self.0 = self.0.wrapping_add(0x9E37_79B9_7F4A_7C15);
        let mut z = self.0;
        z = (z ^ (z >> 30)).wrapping_mul(0xBF58_476D_1CE4_E5B9);
        z = (z ^ (z >> 27)).wrapping_mul(0x94D0_49BB_1331_11EB);
        z ^ (z >> 31)
    }
    pub fn below(&mut self, n: u64) -> u64 {
        if n == 0 {
            0
        } else {
            self.next() % n
        }
    }
    pub fn range(&mut self, lo: u64, hi_incl: u64) -> u64 {
        lo + self.below(hi_incl - lo + 1)
    }
    pub fn chance(&mut self, num: u64, den: u64) -> bool {
        self.below(den) < num
    }
    pub fn pick<'a, T>(&mut self, xs: &'a [T]) -> &'a T {
        &xs[self.below(xs.len() as u64) as usize]
    }
    pub fn shuffle<T>(&mut self, xs: &mut [T]) {
        for i in (1..xs.len()).rev() {
            let j = self.below(i as u64 + 1) as usize;
            xs.swap(i, j);
        }
    }
    pub fn fork(&mut self) -> Rng {
        Rng(self.next())
    }
}

pub fn hex(b: &[u8]) -> String {
    if b.is_empty() {
        return "-".to_string();
    }
    let mut s = String::with_capacity(b.len() * 2);
    for x in b {
        s.push_str(&format!("{:02x}", x));
    }
    s
}

pub fn unhex(s: &str) -> Vec<u8> {
    if s == "-" {
        return vec![];
    }
    (0..s.len() / 2)
        .map(|i| u8::from_str_radix(&s[2 * i..2 * i + 2], 16).unwrap())
        .collect()
}

/// One oracle failure: which clause of the property failed on which case.
#[derive(Clone, Debug)]
pub struct OracleFail {
    pub case: u64,
    pub line: u64,
    pub desc: String,
    pub origin: String,
    pub clause: String,
    pub feature: String,
    pub detail: String,
}

/// Writer for one component run: `ops.txt` (requests for the model driver), `impl.txt`
/// (the implementation's answer to the same request, line for line), `oracle.txt`,
/// `stats.json`.
pub struct Out {
    dir: PathBuf,
    ops: BufWriter<File>,
    imp: BufWriter<File>,
    idx: BufWriter<File>,
    cur_desc: String,
    cur_origin: String,
    cur_start: u64,
    /// "gen" for generated cases, "corpus:<file>" while replaying a corpus file
    pub origin: String,
    pub lines: u64,
    pub cases: u64,
    pub stats: BTreeMap<String, u64>,
    pub fails: Vec<OracleFail>,
    distinct: HashSet<u64>,
    pub nontrivial_distinct: u64,
    cur_hash: std::collections::hash_map::DefaultHasher,
    cur_nontrivial: bool,
    cur_text: String,
    pub samples: Vec<String>,
    pub exhaustive: Vec<String>,
    sample_every: u64,
}

impl Out {
    pub fn new(dir: &Path) -> Self {
        std::fs::create_dir_all(dir).unwrap();
        Out {
            dir: dir.to_path_buf(),
            ops: BufWriter::new(File::create(dir.join("ops.txt")).unwrap()),
            imp: BufWriter::new(File::create(dir.join("impl.txt")).unwrap()),
            idx: BufWriter::new(File::create(dir.join("cases.txt")).unwrap()),
            cur_desc: String::new(),
            cur_origin: "gen".into(),
            cur_start: 0,
            origin: "gen".into(),
            lines: 0,
            cases: 0,
            stats: BTreeMap::new(),
            fails: vec![],
            distinct: HashSet::new(),
            nontrivial_distinct: 0,
            cur_hash: Default::default(),
            cur_nontrivial: false,
            cur_text: String::new(),
            samples: vec![],
            exhaustive: vec![],
            sample_every: 1,
        }
    }

    /// Start a new case. The line is sent to the model as well (it resets the component).
    pub fn begin_case(&mut self, op: &str, answer: &str) {
        self.end_case();
        self.cases += 1;
        self.cur_hash = Default::default();
        self.cur_nontrivial = false;
        self.cur_text.clear();
        self.cur_desc.clear();
        self.cur_origin = self.origin.clone();
        self.cur_start = self.lines + 1;
        self.line(op, answer);
    }

    /// A compact, replayable description of the current case (understood by the component's
    /// `replay`); when absent the op lines themselves are the replay.
    pub fn set_desc(&mut self, d: String) {
        self.cur_desc = d;
    }

    /// One request and the implementation's answer.
    pub fn line(&mut self, op: &str, answer: &str) {
        debug_assert!(!op.contains('\n') && !answer.contains('\n'));
        writeln!(self.ops, "{}", op).unwrap();
        writeln!(self.imp, "{}", answer).unwrap();
        self.lines += 1;
        op.hash(&mut self.cur_hash);
        if self.cur_text.len() < 400 {
            self.cur_text.push_str(op);
            self.cur_text.push_str(" => ");
            self.cur_text.push_str(answer);
            self.cur_text.push_str(" ; ");
        }
    }

    /// Mark the current case as non-trivial by the component's stated rule.
    pub fn nontrivial(&mut self) {
        self.cur_nontrivial = true;
    }

    pub fn end_case(&mut self) {
        if self.cases == 0 {
            return;
        }
        writeln!(self.idx, "{}\t{}\t{}", self.cur_start, self.cur_origin, self.cur_desc).unwrap();
        let h = std::mem::take(&mut self.cur_hash).finish();
        if self.cur_nontrivial && self.distinct.insert(h) {
            self.nontrivial_distinct += 1;
            // keep a thin, deterministic sample of actual cases
            if self.nontrivial_distinct % self.sample_every == 0 && self.samples.len() < 12 {
                self.samples.push(self.cur_text.clone());
                self.sample_every *= 4;
            }
        }
        self.cur_nontrivial = false;
    }

    pub fn count(&mut self, key: &str) {
        *self.stats.entry(key.to_string()).or_insert(0) += 1;
    }
    pub fn count_n(&mut self, key: &str, n: u64) {
        *self.stats.entry(key.to_string()).or_insert(0) += n;
    }

    pub fn fail(&mut self, clause: &str, feature: &str, detail: String) {
        let key = format!("oracle_fail:{}:{}", clause, feature);
        // keep at most 5 witnesses per signature
        if self.stats.get(&key).copied().unwrap_or(0) < 5 {
            self.fails.push(OracleFail {
                case: self.cases,
                line: self.cur_start,
                desc: self.cur_desc.clone(),
                origin: self.cur_origin.clone(),
                clause: clause.to_string(),
                feature: feature.to_string(),
                detail,
            });
        }
        self.count(&format!("oracle_fail:{}:{}", clause, feature));
    }

    pub fn finish(mut self, rule: &str) {
        self.end_case();
        self.ops.flush().unwrap();
        self.imp.flush().unwrap();
        self.idx.flush().unwrap();
        let mut f = BufWriter::new(File::create(self.dir.join("oracle.txt")).unwrap());
        for x in &self.fails {
            writeln!(
                f,
                "{}\t{}\t{}\t{}\t{}\t{}\t{}",
                x.case,
                x.line,
                x.desc,
                x.origin,
                x.clause,
                x.feature,
                x.detail.replace('\n', " ")
            )
            .unwrap();
        }
        f.flush().unwrap();
        let j = serde_json::json!({
            "lines": self.lines,
            "cases": self.cases,
            "distinct_nontrivial": self.nontrivial_distinct,
            "rule": rule,
            "samples": self.samples,
            "stats": self.stats,
            "exhaustive_spaces": self.exhaustive,
            "oracle_failures": self.fails.len(),
        });
        std::fs::write(
            self.dir.join("stats.json"),
            serde_json::to_string_pretty(&j).unwrap(),
        )
        .unwrap();
    }
}

/// Run `f` catching panics; the panic message is returned as `Err`.
pub fn catch<T>(f: impl FnOnce() -> T + std::panic::UnwindSafe) -> Result<T, String> {
    match std::panic::catch_unwind(f) {
        Ok(v) => Ok(v),
        Err(e) => {
            let msg = if let Some(s) = e.downcast_ref::<&str>() {
                s.to_string()
            } else if let Some(s) = e.downcast_ref::<String>() {
                s.clone()
            } else {
                "panic".to_string()
            };
            Err(msg)
        }
    }
}

pub struct Args {
    pub tier: String,
    pub seed: u64,
    pub out: PathBuf,
    pub replay: Option<PathBuf>,
    pub rest: Vec<String>,
}

impl Args {
    pub fn thorough(&self) -> bool {
        self.tier == "thorough"
    }
}

/// Breadcrumb + crash/hang reporter + allocation watch.
///
/// `catch` turns a panic into an outcome, but an abort (a failed huge allocation, a stack overflow, `abort()`)
/// or an endless loop inside the library kills or stalls the whole component, and all `check` could say was
/// "harness crashed". A component's `exec` now holds a `crumb::guard(op)` while the library runs the request: a
/// signal handler (SIGABRT / SIGSEGV / SIGBUS / SIGILL) and a watchdog thread print
/// `CRASH-INPUT\t<component>\t<signal>\t<op>` / `HANG-INPUT\t<component>\t<seconds>\t<op>` to stderr and end
/// the process (exit 70 / 71); `check` turns that line into a violation with the request as its replay.
pub mod crumb {
    use std::alloc::{GlobalAlloc, Layout, System};
    use std::cell::Cell;
    use std::sync::atomic::{AtomicBool, AtomicU64, AtomicUsize, Ordering};

    const CAP: usize = 1 << 22;
    static mut BUF: [u8; CAP] = [0; CAP];
    static LEN: AtomicUsize = AtomicUsize::new(0);
    static ACTIVE: AtomicBool = AtomicBool::new(false);
    static SEQ: AtomicU64 = AtomicU64::new(0);
    static mut COMP: [u8; 32] = [0; 32];
    static COMP_LEN: AtomicUsize = AtomicUsize::new(0);

    fn wr(b: &[u8]) {
        unsafe {
            libc::write(2, b.as_ptr() as *const libc::c_void, b.len());
        }
    }

    fn report(kind: &[u8], what: &[u8]) {
        wr(b"\n");
        wr(kind);
        wr(b"\t");
        unsafe {
            let c = std::ptr::addr_of!(COMP) as *const u8;
            wr(std::slice::from_raw_parts(c, COMP_LEN.load(Ordering::Relaxed)));
        }
        wr(b"\t");
        wr(what);
        wr(b"\t");
        if ACTIVE.load(Ordering::SeqCst) {
            unsafe {
                let p = std::ptr::addr_of!(BUF) as *const u8;
                wr(std::slice::from_raw_parts(p, LEN.load(Ordering::SeqCst)));
            }
        } else {
            wr(b"-");
        }
        wr(b"\n");
    }

    extern "C" fn on_signal(sig: libc::c_int) {
        let name: &[u8] = match sig {
            libc::SIGABRT => b"SIGABRT",
            libc::SIGSEGV => b"SIGSEGV",
            libc::SIGBUS => b"SIGBUS",
            libc::SIGILL => b"SIGILL",
            _ => b"signal",
        };
        report(b"CRASH-INPUT", name);
        unsafe { libc::_exit(70) }
    }

    /// install the handlers and the watchdog (an op that runs longer than `hang_secs` of wall time while a
    /// guard is held is reported as a hang)
    pub fn install(comp: &str, hang_secs: u64) {
        unsafe {
            let n = comp.len().min(32);
            let c = std::ptr::addr_of_mut!(COMP) as *mut u8;
            std::ptr::copy_nonoverlapping(comp.as_ptr(), c, n);
            COMP_LEN.store(n, Ordering::Relaxed);
            for s in [libc::SIGABRT, libc::SIGSEGV, libc::SIGBUS, libc::SIGILL] {
                let mut sa: libc::sigaction = std::mem::zeroed();
                sa.sa_sigaction = on_signal as usize;
                sa.sa_flags = libc::SA_ONSTACK;
                libc::sigemptyset(&mut sa.sa_mask);
                libc::sigaction(s, &sa, std::ptr::null_mut());
            }
        }
        std::thread::spawn(move || {
            let mut last = (0u64, std::time::Instant::now());
            loop {
                std::thread::sleep(std::time::Duration::from_millis(500));
                let s = SEQ.load(Ordering::SeqCst);
                if !ACTIVE.load(Ordering::SeqCst) || s != last.0 {
                    last = (s, std::time::Instant::now());
                    continue;
                }
                if last.1.elapsed().as_secs() >= hang_secs {
                    report(b"HANG-INPUT", format!("{}s", hang_secs).as_bytes());
                    unsafe { libc::_exit(71) }
                }
            }
        });
    }

    pub struct Guard;
    impl Drop for Guard {
        fn drop(&mut self) {
            ACTIVE.store(false, Ordering::SeqCst);
        }
    }

    /// hold while the library executes request `op`
    pub fn guard(op: &str) -> Guard {
        let n = op.len().min(CAP);
        unsafe {
            let p = std::ptr::addr_of_mut!(BUF) as *mut u8;
            std::ptr::copy_nonoverlapping(op.as_ptr(), p, n);
        }
        LEN.store(n, Ordering::SeqCst);
        SEQ.fetch_add(1, Ordering::SeqCst);
        ACTIVE.store(true, Ordering::SeqCst);
        Guard
    }

    // ---- allocation watch: the largest single request and the sum of all requests on this thread ----
    thread_local! {
        static MAX_REQ: Cell<usize> = const { Cell::new(0) };
        static SUM_REQ: Cell<usize> = const { Cell::new(0) };
    }
    pub struct WatchAlloc;
    unsafe impl GlobalAlloc for WatchAlloc {
        unsafe fn alloc(&self, l: Layout) -> *mut u8 {
            note(l.size());
            System.alloc(l)
        }
        unsafe fn dealloc(&self, p: *mut u8, l: Layout) {
            System.dealloc(p, l)
        }
        unsafe fn alloc_zeroed(&self, l: Layout) -> *mut u8 {
            note(l.size());
            System.alloc_zeroed(l)
        }
        unsafe fn realloc(&self, p: *mut u8, l: Layout, n: usize) -> *mut u8 {
            note(n);
            System.realloc(p, l, n)
        }
    }
    fn note(n: usize) {
        let _ = MAX_REQ.try_with(|m| {
            if n > m.get() {
                m.set(n)
            }
        });
        let _ = SUM_REQ.try_with(|s| s.set(s.get().saturating_add(n)));
    }
    /// run `f`; returns its result, the largest single allocation request and the sum of all requests made on
    /// this thread meanwhile
    pub fn watch<T>(f: impl FnOnce() -> T) -> (T, usize, usize) {
        let (m0, s0) = (MAX_REQ.with(|m| m.replace(0)), SUM_REQ.with(|s| s.replace(0)));
        let r = f();
        let (m, s) = (MAX_REQ.with(|m| m.get()), SUM_REQ.with(|s| s.get()));
        MAX_REQ.with(|x| x.set(m0.max(m)));
        SUM_REQ.with(|x| x.set(s0.saturating_add(s)));
        (r, m, s)
    }
}
