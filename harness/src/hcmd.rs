//! Component `hcmd` (M15; host side of C15): the HOST side of the command path and its
//! end-to-end composition with the node side. The real `srad_app::AppClient` (obtained from
//! `AppEventLoop::new`) publishes through a recording mock `Client`; the recorded call (topic
//! string + prost-encoded payload) goes through a broker double (MQTT filter matching against the
//! filters a REAL edge node subscribed with), `srad_client::topic_and_payload_to_event` and the
//! real edge node (`EoNBuilder`, recording Node/DeviceMetricManager).
//! Ops (strings are hex of their UTF-8 bytes, `-` = empty):
//!   hcmd new <ghex> <nhex> <devhex,..|_> <cooldown_ms> <clock_ms>
//!        build the node, register + enable the devices, take it online (everything accepted)
//!        -> `err` | `ok <filterhex,..> | <effects>`
//!   hcmd pub <blk|try>.<a|r> n <ghex> <nhex> <clock> <pm>*
//!   hcmd pub <blk|try>.<a|r> d <ghex> <nhex> <dhex> <clock> <pm>*
//!        `publish_metrics` (blk) / `try_publish_metrics` (try); a|r = the client accepts / rejects
//!        pm = <id>,<ts|~>,<variant>,<field>
//!        id = n<namehex> | a<alias> | b<namehex>:<alias|~> (via `MetricBirthDetails::get_metric_id`)
//!        variant,field = a protobuf value variant as in `cmd` (sent through a transparent
//!        `traits::MetricValue` type) | t.<rusttype>,<bits|0/1|hex> (`PublishMetric::new::<T>`)
//!   hcmd rebirth <a|r> <ghex> <nhex> <clock>        `publish_node_rebirth`
//!        -> `<client method> <VERB> <topichex> <ok|err> <ts|~> seq=<..> uuid=<..> body=<..> <metric>*`
//!           metric = <cmd metric token>;<datatype|~>;<historical>;<transient>;<metadata 0|1>;<properties 0|1>
//!   hcmd deliver
//!        the last accepted call on its way to the node
//!        -> `unsent` | `unrouted` | `ignored` | effects in the format of `cmd`
use crate::c10::build_metric;
use crate::cmd::{metric_tok, value_tok, Item, PANICS};
use crate::common::*;
use crate::hostloop::mqtt_match;
use crate::mock::{self, Decision, EventFeeder, Hub, Kind, Obs};
use async_trait::async_trait;
use prost::Message as _;
use srad_app::{AppClient, AppEventLoop, MetricBirthDetails, PublishMetric, PublishTopic, SubscriptionConfig};
use srad_client::{topic_and_payload_to_event, Event};
use srad_eon::{
    BirthInitializer, DeviceHandle, DeviceMetricManager, EoNBuilder, MessageMetrics, MetricManager, NodeHandle,
    NodeMetricManager,
};
use srad_types::payload::{metric, DataType, Metric, Payload};
use srad_types::traits::HasDataType;
use srad_types::{DateTime, MetricId, MetricValue};
use std::panic::AssertUnwindSafe;
use std::sync::atomic::Ordering;
use std::sync::{Arc, Mutex};
use std::time::Duration;

pub const RULE: &str = "host command path, real AppClient -> recording client -> prost bytes + topic string -> broker double (filters the real node subscribed with) -> topic_and_payload_to_event -> real edge node with recording managers. Exhaustive: 27 value forms (every protobuf value variant raw, every scalar Rust type through PublishMetric::new::<T>) x 4 id forms (name, alias, birth details with / without alias) x metric timestamp present/absent x node/device topic x try/blocking, each published and delivered; client answer x try/blocking x node/device; every pair of 9 target forms (own node, own devices, unregistered device, other group / node, ids with '/', '+', '#', empty, STATE) x 3 batch shapes; publish_node_rebirth x cooldown {0, 5000 ms at offsets 4999 / 5000} x own / other node. Random: node configurations (ASCII, Unicode, long ids, 0-3 devices) with batches of 0-8 metrics (random ids incl. Unicode, 300-byte names, empty name, the rebirth name, alias 0 / 2^64-1; random values; timestamps 0 / 2^64-1), random targets (mostly the node and its devices, else odd ids), interleaved rebirth requests (also for pairs whose concatenation equals the node's ids split elsewhere). Confusable ids (D2): 12 (group, node) pairs with equal concatenations / swapped / prefix-related ids, every ordered pair as rebirth p - q - p and mixed with NCMD / DCMD publishes on one AppClient; C13:publish-topic-decodes-to-its-ids: the topic handed to the client splits at '/' into exactly the ids and verb the call was made for (valid ids). Non-trivial = the case delivers at least one accepted call; distinct = distinct op lines (hashed).";

// ---------- a transparent MetricValue type: lets the public API carry any protobuf variant ----------
struct Raw(metric::Value);
impl From<Raw> for MetricValue {
    fn from(r: Raw) -> MetricValue {
        MetricValue::new(r.0)
    }
}
impl TryFrom<MetricValue> for Raw {
    type Error = ();
    fn try_from(v: MetricValue) -> Result<Raw, ()> {
        Ok(Raw(v.0))
    }
}
impl HasDataType for Raw {
    fn supported_datatypes() -> &'static [DataType] {
        &[DataType::Unknown]
    }
}
impl srad_types::traits::MetricValue for Raw {}

// ---------- tokens ----------
fn opt_num(s: &str) -> Option<Option<u64>> {
    if s == "~" {
        Some(None)
    } else {
        s.parse().ok().map(Some)
    }
}
fn num_tok(v: Option<u64>) -> String {
    v.map(|x| x.to_string()).unwrap_or("~".into())
}
fn unhex_checked(s: &str) -> Option<Vec<u8>> {
    if s == "-" {
        return Some(vec![]);
    }
    if s.len() % 2 != 0 || !s.bytes().all(|c| c.is_ascii_digit() || (b'a'..=b'f').contains(&c)) {
        return None;
    }
    Some(unhex(s))
}
fn utf8(s: &str) -> Option<String> {
    String::from_utf8(unhex_checked(s)?).ok()
}
fn hx(s: &str) -> String {
    hex(s.as_bytes())
}

/// one host metric as requested: how to build it and what the wire / the manager must show
#[derive(Clone, Debug)]
struct PmSpec {
    id: MetricId,
    /// built through `MetricBirthDetails::get_metric_id`
    via_birth: Option<(String, Option<u64>)>,
    ts: Option<u64>,
    variant: String,
    field: String,
    /// the protobuf value the property demands on the wire and at the manager
    expect: metric::Value,
}

fn parse_id(s: &str) -> Option<(MetricId, Option<(String, Option<u64>)>)> {
    let (k, rest) = s.split_at(s.char_indices().nth(1).map(|x| x.0).unwrap_or(s.len()));
    match k {
        "n" => Some((MetricId::Name(utf8(rest)?), None)),
        "a" => Some((MetricId::Alias(rest.parse().ok()?), None)),
        "b" => {
            let p: Vec<&str> = rest.split(':').collect();
            if p.len() != 2 {
                return None;
            }
            let name = utf8(p[0])?;
            let alias = opt_num(p[1])?;
            let id = match alias {
                Some(a) => MetricId::Alias(a),
                None => MetricId::Name(name.clone()),
            };
            Some((id, Some((name, alias))))
        }
        _ => None,
    }
}

fn mask_ok(ty: &str, bits: u64) -> bool {
    match ty {
        "u8" | "i8" => bits <= 0xff,
        "u16" | "i16" => bits <= 0xffff,
        "u32" | "i32" | "f32" => bits <= 0xffff_ffff,
        _ => true,
    }
}

/// the wire value the property demands for `PublishMetric::new::<T>(_, v)` (Sparkplug: 8/16/32 bit
/// integers travel as `int_value` bit patterns, 64 bit and DateTime as `long_value`)
fn typed_expect(ty: &str, field: &str) -> Option<metric::Value> {
    Some(match ty {
        "bool" => match field {
            "1" => metric::Value::BooleanValue(true),
            "0" => metric::Value::BooleanValue(false),
            _ => return None,
        },
        "string" => metric::Value::StringValue(utf8(field)?),
        _ => {
            let bits: u64 = field.parse().ok()?;
            if !mask_ok(ty, bits) {
                return None;
            }
            match ty {
                "u8" | "u16" | "u32" | "i8" | "i16" | "i32" => metric::Value::IntValue(bits as u32),
                "u64" | "i64" | "datetime" => metric::Value::LongValue(bits),
                "f32" => metric::Value::FloatValue(f32::from_bits(bits as u32)),
                "f64" => metric::Value::DoubleValue(f64::from_bits(bits)),
                _ => return None,
            }
        }
    })
}

fn parse_pm(tok: &str) -> Option<PmSpec> {
    let f: Vec<&str> = tok.split(',').collect();
    if f.len() != 4 {
        return None;
    }
    let (id, via_birth) = parse_id(f[0])?;
    let ts = opt_num(f[1])?;
    let expect = if let Some(ty) = f[2].strip_prefix("t.") {
        typed_expect(ty, f[3])?
    } else {
        match f[2] {
            "int" | "long" | "float" | "double" => {
                f[3].parse::<u64>().ok()?;
            }
            "str" | "bytes" => {
                if f[2] == "str" {
                    utf8(f[3])?;
                } else {
                    unhex_checked(f[3])?;
                }
            }
            "template" => {
                if f[3].len() != 2 {
                    return None;
                }
            }
            "bool" | "dataset" | "ext" => {}
            _ => return None,
        }
        if (f[2] == "int" || f[2] == "float") && f[3].parse::<u64>().ok()? > u32::MAX as u64 {
            return None;
        }
        build_metric(f[2], f[3])?
    };
    Some(PmSpec { id, via_birth, ts, variant: f[2].to_string(), field: f[3].to_string(), expect })
}

/// build the `PublishMetric` through the public API
fn build_pm(s: &PmSpec) -> PublishMetric {
    let id = match &s.via_birth {
        Some((name, alias)) => {
            MetricBirthDetails { name: name.clone(), alias: *alias, datatype: DataType::Unknown }.get_metric_id()
        }
        None => s.id.clone(),
    };
    let f = s.field.as_str();
    let bits = || f.parse::<u64>().unwrap();
    let pm = match s.variant.strip_prefix("t.") {
        Some("bool") => PublishMetric::new(id, f == "1"),
        Some("u8") => PublishMetric::new(id, bits() as u8),
        Some("u16") => PublishMetric::new(id, bits() as u16),
        Some("u32") => PublishMetric::new(id, bits() as u32),
        Some("u64") => PublishMetric::new(id, bits()),
        Some("i8") => PublishMetric::new(id, bits() as u8 as i8),
        Some("i16") => PublishMetric::new(id, bits() as u16 as i16),
        Some("i32") => PublishMetric::new(id, bits() as u32 as i32),
        Some("i64") => PublishMetric::new(id, bits() as i64),
        Some("f32") => PublishMetric::new(id, f32::from_bits(bits() as u32)),
        Some("f64") => PublishMetric::new(id, f64::from_bits(bits())),
        Some("string") => PublishMetric::new(id, utf8(f).unwrap()),
        Some("datetime") => PublishMetric::new(id, DateTime::new(bits())),
        Some(_) => unreachable!(),
        None => PublishMetric::new(id, Raw(build_metric(&s.variant, f).unwrap())),
    };
    match s.ts {
        Some(t) => pm.timestamp(t),
        None => pm,
    }
}

fn wire_metric_tok(m: &Metric) -> String {
    let ob = |b: Option<bool>| match b {
        None => "~",
        Some(true) => "1",
        Some(false) => "0",
    };
    format!(
        "{};{};{};{};{};{}",
        metric_tok(m),
        num_tok(m.datatype.map(|d| d as u64)),
        ob(m.is_historical),
        ob(m.is_transient),
        m.metadata.is_some() as u8,
        m.properties.is_some() as u8
    )
}

fn payload_tok(p: &Payload) -> String {
    let mut v = vec![
        num_tok(p.timestamp),
        format!("seq={}", num_tok(p.seq)),
        format!("uuid={}", p.uuid.as_ref().map(|u| hx(u)).unwrap_or("~".into())),
        format!("body={}", p.body.as_ref().map(|b| hex(b)).unwrap_or("~".into())),
    ];
    v.extend(p.metrics.iter().map(wire_metric_tok));
    v.join(" ")
}

fn val_bytes(v: &Option<metric::Value>) -> Vec<u8> {
    let mut m = Metric::new();
    m.value = v.clone();
    m.encode_to_vec()
}

// ---------- recording managers ----------
#[derive(Clone, Debug)]
struct RecCmd {
    target: Option<usize>,
    ts: u64,
    items: Vec<Item>,
}

#[derive(Clone)]
struct Log {
    recs: Arc<Mutex<Vec<RecCmd>>>,
    hub: Hub,
}
impl Log {
    fn push(&self, r: RecCmd) {
        let mut g = self.recs.lock().unwrap();
        let idx = g.len();
        g.push(r);
        drop(g);
        self.hub.note(format!("rec {}", idx));
    }
}
fn collect_items(metrics: MessageMetrics) -> Vec<Item> {
    metrics
        .into_iter()
        .map(|m| Item { id: m.id, ts: m.timestamp, value: m.value.map(|v| v.0), props: m.properties.is_some() })
        .collect()
}
struct RecMgr {
    target: Option<usize>,
    log: Log,
}
impl MetricManager for RecMgr {
    fn initialise_birth(&self, _bi: &mut BirthInitializer) {}
}
#[async_trait]
impl NodeMetricManager for RecMgr {
    async fn on_ncmd(&self, _n: NodeHandle, metrics: MessageMetrics) {
        let ts = metrics.timestamp;
        self.log.push(RecCmd { target: self.target, ts, items: collect_items(metrics) });
    }
}
#[async_trait]
impl DeviceMetricManager for RecMgr {
    async fn on_dcmd(&self, _d: DeviceHandle, metrics: MessageMetrics) {
        let ts = metrics.timestamp;
        self.log.push(RecCmd { target: self.target, ts, items: collect_items(metrics) });
    }
}

fn item_tok(i: &Item) -> String {
    format!(
        "{},{},{}{}",
        match &i.id {
            MetricId::Alias(a) => format!("a{}", a),
            MetricId::Name(n) => format!("n{}", hex(n.as_bytes())),
        },
        num_tok(i.ts),
        value_tok(&i.value),
        if i.props { ",props" } else { "" }
    )
}
fn items_tok(v: &[Item]) -> String {
    format!("[{}]", v.iter().map(item_tok).collect::<Vec<_>>().join("+"))
}

// ---------- what the node did in one step ----------
#[derive(Clone, Debug)]
enum Ev {
    Sub(Vec<String>),
    NBirth { seq: Option<u64>, bdseq: Option<u64> },
    Rec(RecCmd),
    DBirth { dev: usize, seq: Option<u64> },
    DDeath { dev: usize, seq: Option<u64> },
    Other(String),
    Panic,
}

fn bdseq_of(p: &Payload) -> Option<u64> {
    p.metrics.iter().find(|m| m.name.as_deref() == Some("bdSeq")).and_then(|m| match &m.value {
        Some(metric::Value::LongValue(v)) => Some(*v),
        _ => None,
    })
}

fn canon(evs: &[Ev]) -> String {
    let mut node: Vec<String> = vec![];
    let mut dev: Vec<(usize, String)> = vec![];
    let mut seqs: Vec<String> = vec![];
    for e in evs {
        match e {
            Ev::Sub(_) => node.push("SUB".into()),
            Ev::NBirth { seq, bdseq } => node.push(format!("NBIRTH s{} b{}", num_tok(*seq), num_tok(*bdseq))),
            Ev::Rec(RecCmd { target: None, ts, items }) => node.push(format!("NCMD {} {}", ts, items_tok(items))),
            Ev::Rec(RecCmd { target: Some(k), ts, items }) => dev.push((*k, format!("DCMD d{} {} {}", k, ts, items_tok(items)))),
            Ev::DBirth { dev: d, seq } => {
                dev.push((*d, format!("DBIRTH d{}", d)));
                seqs.push(num_tok(*seq));
            }
            Ev::DDeath { dev: d, seq } => {
                dev.push((*d, format!("DDEATH d{}", d)));
                seqs.push(num_tok(*seq));
            }
            Ev::Other(k) => node.push(format!("OTHER {}", k)),
            Ev::Panic => node.push("PANIC".into()),
        }
    }
    dev.sort_by_key(|x| x.0);
    let mut parts = node;
    parts.extend(dev.into_iter().map(|x| x.1));
    if !seqs.is_empty() {
        parts.push(format!("seqs={}", seqs.join(",")));
    }
    if parts.is_empty() {
        "-".into()
    } else {
        parts.join(" | ")
    }
}

// ---------- session ----------
#[derive(Clone, Debug, PartialEq)]
enum Target {
    Node(String, String),
    Device(String, String, String),
}

fn target_concat(t: &Target) -> String {
    match t {
        Target::Node(g, n) => [g.as_str(), n.as_str()].concat(),
        Target::Device(g, n, d) => [g.as_str(), n.as_str(), d.as_str()].concat(),
    }
}

struct Sent {
    topic: String,
    payload: Payload,
    ok: bool,
    spec: Vec<PmSpec>,
    target: Target,
    clock: u64,
    rebirth: bool,
}

struct Sess {
    rt: tokio::runtime::Runtime,
    hub_n: Hub,
    feeder: EventFeeder,
    log: Log,
    _node: NodeHandle,
    devs: Vec<(String, DeviceHandle)>,
    filters: Vec<String>,
    group: String,
    node_id: String,
    cooldown: u64,
    hub_h: Hub,
    app: AppClient,
    _app_loop: AppEventLoop,
    last: Option<Sent>,
    /// the ids the previous host call was made for (C13: feature of a topic built for other ids)
    last_target: Option<Target>,
    /// wall time of the last rebirth request that was answered with an NBIRTH
    last_honoured: Option<u64>,
}

async fn settle() {
    tokio::time::sleep(Duration::from_nanos(1)).await;
}

fn name_ok(s: &str) -> bool {
    !s.is_empty() && !s.contains(['/', '+', '#'])
}

impl Sess {
    /// None = the node (or one of its devices) could not be built
    fn new(group: &str, node_id: &str, dev_names: &[String], cooldown: u64, clock: u64) -> Option<(Sess, Vec<Ev>)> {
        let rt = mock::runtime();
        mock::set_clocks(clock);
        let (hub_n, client, el, feeder) = mock::mock_pair();
        let log = Log { recs: Arc::new(Mutex::new(vec![])), hub: hub_n.clone() };
        let built = rt.block_on(async {
            let b = EoNBuilder::new(el, client)
                .with_group_id(group)
                .with_node_id(node_id)
                .with_rebirth_cmd_cooldown(Duration::from_millis(cooldown))
                .with_metric_manager(RecMgr { target: None, log: log.clone() });
            let (eon, node) = b.build().ok()?;
            let mut devs = vec![];
            for (k, name) in dev_names.iter().enumerate() {
                let h = node.register_device(name.clone(), RecMgr { target: Some(k), log: log.clone() }).ok()?;
                devs.push((name.clone(), h));
            }
            tokio::spawn(eon.run());
            settle().await;
            Some((node, devs))
        });
        let (node, devs) = built?;
        let (hub_h, hclient, hel, _hfeeder) = mock::mock_pair();
        let (app_loop, app) = AppEventLoop::new("host", SubscriptionConfig::AllGroups, hel, hclient);
        let mut s = Sess {
            rt,
            hub_n,
            feeder,
            log,
            _node: node,
            devs,
            filters: vec![],
            group: group.to_string(),
            node_id: node_id.to_string(),
            cooldown,
            hub_h,
            app,
            _app_loop: app_loop,
            last: None,
            last_target: None,
            last_honoured: Some(0),
        };
        let evs = s.observe(|s| {
            for (_, h) in &s.devs {
                h.enable();
            }
            s.feeder.push(Event::Online);
        });
        for e in &evs {
            if let Ev::Sub(f) = e {
                s.filters = f.clone();
            }
        }
        Some((s, evs))
    }

    fn dev_index(&self, topic: &str) -> usize {
        let prefix = format!("spBv1.0/{}/", self.group);
        let rest = topic.strip_prefix(&prefix).unwrap_or("");
        // <verb>/<node>/<device>
        let mut it = rest.splitn(2, '/');
        let _verb = it.next();
        let tail = it.next().unwrap_or("");
        let d = tail.strip_prefix(&format!("{}/", self.node_id)).unwrap_or("");
        self.devs.iter().position(|x| x.0 == d).unwrap_or(9999)
    }

    /// run `f` (which applies the stimulus), wait for quiescence, return what the node did
    fn observe(&mut self, f: impl FnOnce(&mut Sess)) -> Vec<Ev> {
        let from = self.hub_n.trace_len();
        let p0 = PANICS.load(Ordering::SeqCst);
        f(self);
        self.rt.block_on(settle());
        let trace = self.hub_n.trace_from(from);
        let recs = self.log.recs.lock().unwrap().clone();
        let mut evs = vec![];
        for o in trace.iter() {
            match o {
                Obs::Call(id) => {
                    let c = self.hub_n.call(*id);
                    match c.kind {
                        Kind::Subscribe => evs.push(Ev::Sub(c.filters.clone())),
                        Kind::NBirth => {
                            let p = c.payload.clone().unwrap();
                            evs.push(Ev::NBirth { seq: p.seq, bdseq: bdseq_of(&p) })
                        }
                        Kind::DBirth => evs.push(Ev::DBirth {
                            dev: self.dev_index(&c.topic),
                            seq: c.payload.as_ref().and_then(|p| p.seq),
                        }),
                        Kind::DDeath => evs.push(Ev::DDeath {
                            dev: self.dev_index(&c.topic),
                            seq: c.payload.as_ref().and_then(|p| p.seq),
                        }),
                        k => evs.push(Ev::Other(k.name().to_string())),
                    }
                }
                Obs::Note(s) => {
                    if let Some(idx) = s.strip_prefix("rec ") {
                        evs.push(Ev::Rec(recs[idx.parse::<usize>().unwrap()].clone()))
                    }
                }
                _ => {}
            }
        }
        if PANICS.load(Ordering::SeqCst) > p0 {
            evs.push(Ev::Panic);
        }
        evs
    }
}

thread_local! {
    static SESS: std::cell::RefCell<Option<Sess>> = const { std::cell::RefCell::new(None) };
}

fn drop_session() {
    SESS.with(|c| *c.borrow_mut() = None);
}

/// oracle failures are reported under the property (C15) and under the pseudo-property the
/// component is registered as (M15): `./check` only looks at the clauses of the id it decides
fn fail(out: &mut Out, clause: &str, feature: &str, detail: String) {
    out.fail(&format!("C15:host-cmd-{}", clause), feature, detail.clone());
    out.fail(&format!("M15:host-cmd-{}", clause), feature, detail);
}

/// execute one request line on the real code; returns the canonical answer
pub fn exec(op: &str, out: &mut Out) -> String {
    let w: Vec<&str> = op.split(' ').filter(|s| !s.is_empty()).collect();
    if w.len() < 2 || w[0] != "hcmd" {
        return "bad-op".into();
    }
    if w[1] == "new" {
        if w.len() != 7 {
            return "bad-op".into();
        }
        let (g, n) = match (utf8(w[2]), utf8(w[3])) {
            (Some(g), Some(n)) => (g, n),
            _ => return "bad-op".into(),
        };
        let devs: Option<Vec<String>> = if w[4] == "_" { Some(vec![]) } else { w[4].split(',').map(utf8).collect() };
        let (devs, cd, clock) = match (devs, w[5].parse::<u64>(), w[6].parse::<u64>()) {
            (Some(d), Ok(cd), Ok(c)) => (d, cd, c),
            _ => return "bad-op".into(),
        };
        drop_session();
        return match Sess::new(&g, &n, &devs, cd, clock) {
            None => {
                let valid = name_ok(&g)
                    && name_ok(&n)
                    && devs.iter().enumerate().all(|(i, d)| name_ok(d) && !devs[..i].contains(d));
                if valid {
                    fail(out, "node-built", "valid-ids-refused", op.to_string());
                }
                "err".into()
            }
            Some((s, evs)) => {
                let filters = s.filters.iter().map(|f| hx(f)).collect::<Vec<_>>().join(",");
                let a = format!("ok {} | {}", filters, canon(&evs));
                SESS.with(|c| *c.borrow_mut() = Some(s));
                a
            }
        };
    }
    SESS.with(|c| {
        let mut g = c.borrow_mut();
        let s = match g.as_mut() {
            Some(s) => s,
            None => return "bad-op".to_string(),
        };
        exec_on(s, &w, op, out)
    })
}

fn parse_mode(s: &str) -> Option<(bool, bool)> {
    let (m, a) = s.split_once('.')?;
    let ok = match a {
        "a" => true,
        "r" => false,
        _ => return None,
    };
    match m {
        "blk" => Some((false, ok)),
        "try" => Some((true, ok)),
        _ => None,
    }
}

enum Api {
    Publish { try_: bool },
    Rebirth,
}

fn exec_on(s: &mut Sess, w: &[&str], op: &str, out: &mut Out) -> String {
    match w[1] {
        "pub" => {
            if w.len() < 3 {
                return "bad-op".into();
            }
            let (try_, ok) = match parse_mode(w[2]) {
                Some(x) => x,
                None => return "bad-op".into(),
            };
            let (target, rest) = match w.get(3) {
                Some(&"n") if w.len() >= 7 => match (utf8(w[4]), utf8(w[5])) {
                    (Some(g), Some(n)) => (Target::Node(g, n), &w[6..]),
                    _ => return "bad-op".into(),
                },
                Some(&"d") if w.len() >= 8 => match (utf8(w[4]), utf8(w[5]), utf8(w[6])) {
                    (Some(g), Some(n), Some(d)) => (Target::Device(g, n, d), &w[7..]),
                    _ => return "bad-op".into(),
                },
                _ => return "bad-op".into(),
            };
            let clock: u64 = match rest[0].parse() {
                Ok(c) => c,
                Err(_) => return "bad-op".into(),
            };
            let spec: Option<Vec<PmSpec>> = rest[1..].iter().map(|t| parse_pm(t)).collect();
            let spec = match spec {
                Some(x) => x,
                None => return "bad-op".into(),
            };
            host_call(s, Api::Publish { try_ }, ok, target, clock, spec, op, out)
        }
        "rebirth" => {
            if w.len() != 6 {
                return "bad-op".into();
            }
            let ok = match w[2] {
                "a" => true,
                "r" => false,
                _ => return "bad-op".into(),
            };
            let (g, n, clock) = match (utf8(w[3]), utf8(w[4]), w[5].parse::<u64>()) {
                (Some(g), Some(n), Ok(c)) => (g, n, c),
                _ => return "bad-op".into(),
            };
            // what the property demands of the request: the rebirth metric by name, boolean true
            let spec = vec![PmSpec {
                id: MetricId::Name("Node Control/Rebirth".into()),
                via_birth: None,
                ts: None,
                variant: "bool".into(),
                field: "1".into(),
                expect: metric::Value::BooleanValue(true),
            }];
            host_call(s, Api::Rebirth, ok, Target::Node(g, n), clock, spec, op, out)
        }
        "deliver" => {
            if w.len() != 2 {
                return "bad-op".into();
            }
            deliver(s, op, out)
        }
        // the BYTES of the payload the last `pub` handed to the client (prost `encode_to_vec`), against
        // `encWC (metricsToPayload clock pms)` of Model/HostCmdWire.lean: ties the record -> wire-tree map of
        // the C15HW theorems byte for byte (emitted right behind the `pub` line it repeats)
        "wbytes" => {
            use prost::Message as _;
            match (&s.last, w.get(2).and_then(|c| c.parse::<u64>().ok())) {
                (Some(sent), Some(clock)) if sent.clock == clock => format!("ok {}", hex(&sent.payload.encode_to_vec())),
                _ => "bad-op".into(),
            }
        }
        _ => "bad-op".into(),
    }
}

/// call the real `AppClient`, record what reached the client, state the host-side clauses
#[allow(clippy::too_many_arguments)]
fn host_call(s: &mut Sess, api: Api, client_ok: bool, target: Target, clock: u64, spec: Vec<PmSpec>, op: &str, out: &mut Out) -> String {
    mock::set_clocks(clock);
    let d = if client_ok { Decision::Accept } else { Decision::Reject };
    s.hub_h.default_blocking(Some(d));
    s.hub_h.default_try(Some(d));
    let before = s.hub_h.calls().len();
    let app = s.app.clone();
    let is_try = matches!(api, Api::Publish { try_: true });
    let rebirth = matches!(api, Api::Rebirth);
    let res = {
        let rt = &s.rt;
        let target = target.clone();
        let spec = &spec;
        catch(AssertUnwindSafe(move || {
            rt.block_on(async move {
                match api {
                    Api::Rebirth => match &target {
                        Target::Node(g, n) => app.publish_node_rebirth(g, n).await,
                        _ => unreachable!(),
                    },
                    Api::Publish { try_ } => {
                        let topic = match &target {
                            Target::Node(g, n) => PublishTopic::new_node_cmd(g, n),
                            Target::Device(g, n, d) => PublishTopic::new_device_cmd(g, n, d),
                        };
                        let metrics: Vec<PublishMetric> = spec.iter().map(build_pm).collect();
                        if try_ {
                            app.try_publish_metrics(topic, metrics).await
                        } else {
                            app.publish_metrics(topic, metrics).await
                        }
                    }
                }
            })
        }))
    };
    let calls: Vec<mock::Call> = s.hub_h.calls()[before..].to_vec();
    let res = match res {
        Ok(r) => r,
        Err(_) => {
            fail(out, "no-panic", "host-call", op.to_string());
            s.last = None;
            return "panic".into();
        }
    };
    if calls.len() != 1 {
        fail(out, "one-client-call", &format!("calls={}", calls.len()), op.to_string());
        s.last = None;
        return format!("calls={}", calls.len());
    }
    let c = &calls[0];
    let device = matches!(target, Target::Device(..));
    let feature = format!("{}:{}", if rebirth { "rebirth" } else if is_try { "try" } else { "blocking" }, if device { "device" } else { "node" });
    // try_ variants use only non-blocking client calls, blocking variants only blocking ones
    if c.is_try != is_try {
        fail(out, if is_try { "try-uses-nonblocking-client-call" } else { "blocking-uses-blocking-client-call" }, &feature, op.to_string());
    }
    // NCMD for node topics, DCMD for device topics, with the ids passed
    let (want_kind, want_topic) = match &target {
        Target::Node(g, n) => (Kind::NCmd, format!("spBv1.0/{}/NCMD/{}", g, n)),
        Target::Device(g, n, d) => (Kind::DCmd, format!("spBv1.0/{}/DCMD/{}/{}", g, n, d)),
    };
    if c.kind != want_kind || c.topic != want_topic {
        fail(out, "topic", &feature, format!("{} -> {} {}", op, c.kind.name(), c.topic));
    }
    // C13's own sentence, for ids accepted by name validation: the topic of every publish decodes (split at '/',
    // done here, not by the library) to exactly the ids and the kind this call was made for - whatever the
    // same client published before
    {
        let ids: Vec<&str> = match &target {
            Target::Node(g, n) => vec![g.as_str(), n.as_str()],
            Target::Device(g, n, d) => vec![g.as_str(), n.as_str(), d.as_str()],
        };
        if ids.iter().all(|i| name_ok(i)) {
            let seg: Vec<&str> = c.topic.split('/').collect();
            let verb = if device { "DCMD" } else { "NCMD" };
            let decodes = seg.len() == ids.len() + 2 && seg[0] == "spBv1.0" && seg[1] == ids[0] && seg[2] == verb && seg[3..] == ids[1..] && c.kind == want_kind;
            out.count("C13:publish-topic-checked");
            if !decodes {
                let prev = match &s.last_target {
                    Some(p) if *p == target => "same-target-as-previous-call",
                    Some(p) if target_concat(p) == target_concat(&target) => "previous-call-ids-concatenate-equally",
                    Some(_) => "after-call-for-other-ids",
                    None => "first-call",
                };
                out.fail("C13:publish-topic-decodes-to-its-ids", &format!("{}:{}", feature, prev), format!("{} -> {} {} (built for {:?})", op, c.kind.name(), c.topic, ids));
            }
        }
        s.last_target = Some(target.clone());
    }
    // the caller sees the client's answer
    if res.is_ok() != client_ok {
        fail(out, "result-is-client-answer", &feature, op.to_string());
    }
    let payload = c.payload.clone().unwrap_or_default();
    // payload: timestamp = clock, no seq / uuid / body, one metric per publish metric, in order
    if payload.timestamp != Some(clock) || payload.seq.is_some() || payload.uuid.is_some() || payload.body.is_some() {
        fail(out, "payload-frame", &feature, format!("{} -> {}", op, payload_tok(&payload)));
    }
    // same metrics in another order?
    let reordered = {
        let key = |id: &MetricId, ts: Option<u64>, v: &Option<metric::Value>| format!("{:?}|{:?}|{}", id, ts, hex(&val_bytes(v)));
        let mut a: Vec<String> = payload
            .metrics
            .iter()
            .map(|m| {
                let id = match (&m.alias, &m.name) {
                    (Some(a), _) => MetricId::Alias(*a),
                    (None, Some(n)) => MetricId::Name(n.clone()),
                    _ => MetricId::Name("<none>".into()),
                };
                key(&id, m.timestamp, &m.value)
            })
            .collect();
        let mut b: Vec<String> = spec.iter().map(|sp| key(&sp.id, sp.ts, &Some(sp.expect.clone()))).collect();
        let differs = a != b;
        a.sort();
        b.sort();
        differs && a == b
    };
    if payload.metrics.len() != spec.len() {
        fail(out, "payload-metrics", "count", format!("{} -> {}", op, payload_tok(&payload)));
    } else if reordered {
        fail(out, "payload-metrics", "order", format!("{} -> {}", op, payload_tok(&payload)));
    } else {
        for (m, sp) in payload.metrics.iter().zip(spec.iter()) {
            let id_ok = match &sp.id {
                MetricId::Name(n) => m.name.as_ref() == Some(n) && m.alias.is_none(),
                MetricId::Alias(a) => m.alias == Some(*a) && m.name.is_none(),
            };
            let clean = m.is_null.is_none() && m.is_historical.is_none() && m.is_transient.is_none() && m.metadata.is_none() && m.properties.is_none();
            if !id_ok {
                fail(out, "payload-metrics", "id", format!("{} -> {}", op, wire_metric_tok(m)));
            }
            if m.timestamp != sp.ts {
                fail(out, "payload-metrics", "timestamp", format!("{} -> {}", op, wire_metric_tok(m)));
            }
            if val_bytes(&m.value) != val_bytes(&Some(sp.expect.clone())) {
                fail(out, "payload-metrics", &format!("value:{}", sp.variant), format!("{} -> {}", op, wire_metric_tok(m)));
            }
            if !clean {
                fail(out, "payload-metrics", "extra-fields", format!("{} -> {}", op, wire_metric_tok(m)));
            }
        }
    }
    let method = match (c.kind.name().starts_with('D'), c.is_try) {
        (false, false) => "publish_node_message",
        (false, true) => "try_publish_node_message",
        (true, false) => "publish_device_message",
        (true, true) => "try_publish_device_message",
    };
    let answer = format!("{} {} {} {} {}", method, c.kind.name(), hx(&c.topic), if res.is_ok() { "ok" } else { "err" }, payload_tok(&payload));
    out.count(&format!("call:{}:{}", feature, if client_ok { "accepted" } else { "rejected" }));
    s.last = Some(Sent { topic: c.topic.clone(), payload, ok: res.is_ok() && client_ok, spec, target, clock, rebirth });
    answer
}

/// the last call on its way: broker double -> topic_and_payload_to_event -> the real node
fn deliver(s: &mut Sess, op: &str, out: &mut Out) -> String {
    let sent = match s.last.take() {
        Some(x) if x.ok => x,
        _ => return "unsent".into(),
    };
    let bytes = sent.payload.encode_to_vec();
    // the claim is made for valid ids and a group other than the reserved word STATE
    let (tg, tn, td) = match &sent.target {
        Target::Node(g, n) => (g.clone(), n.clone(), None),
        Target::Device(g, n, d) => (g.clone(), n.clone(), Some(d.clone())),
    };
    let in_claim = name_ok(&tg) && name_ok(&tn) && td.as_ref().map(|d| name_ok(d)).unwrap_or(true) && tg != "STATE";
    let to_this_node = tg == s.group && tn == s.node_id;
    let want_target: Option<Option<usize>> = if !to_this_node {
        None
    } else {
        match &td {
            None => Some(None),
            Some(d) => s.devs.iter().position(|x| &x.0 == d).map(Some),
        }
    };
    let describe = format!("{} [topic {} to node {}/{}]", op, sent.topic, s.group, s.node_id);
    let routed = s.filters.iter().any(|f| mqtt_match(f, &sent.topic));
    let (answer, evs) = if !routed {
        ("unrouted".to_string(), vec![])
    } else {
        let ev = match catch(AssertUnwindSafe(|| topic_and_payload_to_event(sent.topic.clone().into_bytes(), bytes.clone()))) {
            Ok(e) => e,
            Err(_) => {
                fail(out, "no-panic", "topic_and_payload_to_event", describe);
                return "panic".into();
            }
        };
        let handled = match &ev {
            Event::Node(_) => true,
            Event::Device(d) => s.devs.iter().any(|x| x.0 == d.device_id),
            _ => false,
        };
        // wire fidelity: the decoded payload is the published one
        match &ev {
            Event::Node(m) if m.message.payload != sent.payload && m.message.payload.encode_to_vec() != bytes => {
                fail(out, "wire-roundtrip", "node", describe.clone())
            }
            Event::Device(m) if m.message.payload != sent.payload && m.message.payload.encode_to_vec() != bytes => {
                fail(out, "wire-roundtrip", "device", describe.clone())
            }
            _ => {}
        }
        let evs = s.observe(|s| {
            s.feeder.push(ev);
        });
        if handled {
            (canon(&evs), evs)
        } else {
            if !evs.is_empty() {
                fail(out, "ignored-event-has-no-effect", "effects", format!("{} -> {}", describe, canon(&evs)));
            }
            ("ignored".to_string(), evs)
        }
    };
    // ---- fidelity, stated over what the managers saw ----
    let recs: Vec<&RecCmd> = evs.iter().filter_map(|e| if let Ev::Rec(r) = e { Some(r) } else { None }).collect();
    if evs.iter().any(|e| matches!(e, Ev::Panic)) {
        fail(out, "no-panic", "node", describe.clone());
    }
    match want_target {
        Some(t) if in_claim => {
            out.count(if t.is_some() { "deliver:to-own-device" } else { "deliver:to-own-node" });
            if recs.len() != 1 {
                fail(out, "fidelity", &format!("manager-calls={}", recs.len()), format!("{} -> {}", describe, answer));
            } else {
                let r = recs[0];
                if r.target != t {
                    fail(out, "fidelity", "wrong-manager", format!("{} -> {}", describe, answer));
                }
                if r.ts != sent.clock {
                    fail(out, "fidelity", "payload-timestamp", format!("{} -> {}", describe, answer));
                }
                if r.items.len() != sent.spec.len() {
                    // which kind of metric went missing?
                    let f = sent
                        .spec
                        .iter()
                        .find(|sp| !r.items.iter().any(|i| i.id == sp.id))
                        .map(|sp| format!("dropped:{}:{}", if sp.ts.is_some() { "ts" } else { "no-ts" }, sp.variant))
                        .unwrap_or("count".into());
                    fail(out, "fidelity", &f, format!("{} -> {}", describe, answer));
                } else if {
                    let key = |id: &MetricId, ts: Option<u64>, v: &Option<metric::Value>| format!("{:?}|{:?}|{}", id, ts, hex(&val_bytes(v)));
                    let mut a: Vec<String> = r.items.iter().map(|i| key(&i.id, i.ts, &i.value)).collect();
                    let mut b: Vec<String> = sent.spec.iter().map(|sp| key(&sp.id, sp.ts, &Some(sp.expect.clone()))).collect();
                    let differs = a != b;
                    a.sort();
                    b.sort();
                    differs && a == b
                } {
                    fail(out, "fidelity", "order", format!("{} -> {}", describe, answer));
                } else {
                    for (i, sp) in r.items.iter().zip(sent.spec.iter()) {
                        if i.id != sp.id {
                            fail(out, "fidelity", "id", format!("{} -> {}", describe, answer));
                        }
                        if i.ts != sp.ts {
                            fail(out, "fidelity", "metric-timestamp", format!("{} -> {}", describe, answer));
                        }
                        if val_bytes(&i.value) != val_bytes(&Some(sp.expect.clone())) {
                            fail(out, "fidelity", &format!("value:{}", sp.variant), format!("{} -> {}", describe, answer));
                        }
                        if i.props {
                            fail(out, "fidelity", "properties", format!("{} -> {}", describe, answer));
                        }
                    }
                }
            }
        }
        Some(_) => out.count("deliver:outside-claim(invalid id or group STATE)"),
        None => {
            out.count(if to_this_node { "deliver:unregistered-device" } else { "deliver:other-address" });
            // exactly that node (device): nobody else's manager is called
            if in_claim && !recs.is_empty() {
                fail(out, "only-the-addressed", if to_this_node { "unregistered-device" } else { "other-node" }, format!("{} -> {}", describe, answer));
            }
        }
    }
    // publish_node_rebirth is honoured by a birthed node outside the cooldown: NBIRTH + one DBIRTH per device
    let nbirths = evs.iter().filter(|e| matches!(e, Ev::NBirth { .. })).count();
    let dbirths = evs.iter().filter(|e| matches!(e, Ev::DBirth { .. })).count();
    let requests = sent.target == Target::Node(s.group.clone(), s.node_id.clone())
        && in_claim
        && crate::cmd::spec_requested(&sent.payload.metrics);
    if sent.rebirth && to_this_node && in_claim && !requests {
        fail(out, "rebirth-request-valid", "not-a-valid-request", describe.clone());
    }
    if requests {
        let outside = s.last_honoured.map(|l| sent.clock >= l && sent.clock - l >= s.cooldown).unwrap_or(true);
        if outside {
            out.count("deliver:rebirth-outside-cooldown");
            if nbirths != 1 || dbirths != s.devs.len() {
                fail(out, "rebirth-honoured", if sent.rebirth { "publish_node_rebirth" } else { "publish_metrics" }, format!("{} -> {}", describe, answer));
            }
            s.last_honoured = Some(sent.clock);
        } else {
            out.count("deliver:rebirth-inside-cooldown");
            if nbirths != 0 {
                fail(out, "rebirth-cooldown", "birth-inside-cooldown", format!("{} -> {}", describe, answer));
            }
        }
    } else if nbirths != 0 || dbirths != 0 {
        fail(out, "no-birth-without-request", "birth", format!("{} -> {}", describe, answer));
    }
    answer
}

// ---------- generators ----------
const RB: &str = "Node Control/Rebirth";

/// the 27 value forms: every protobuf variant raw, every scalar Rust type typed
pub const VALUE_FORMS: [&str; 27] = [
    "bool,1", "bool,0", "int,1", "int,4294967295", "long,18446744073709551615", "float,1065353216", "double,4607182418800017408",
    "str,74727565", "str,-", "bytes,01ff", "dataset,-", "template,n-", "template,tr", "ext,-",
    "t.bool,1", "t.u8,255", "t.u16,65535", "t.u32,4294967295", "t.u64,18446744073709551615", "t.i8,128", "t.i16,32768",
    "t.i32,2147483648", "t.i64,9223372036854775808", "t.f32,2143289344", "t.f64,9221120237041090560", "t.string,c3a9", "t.datetime,1727600000000",
];

fn run_case(out: &mut Out, ops: &[String], stat: &str) {
    let mut nontrivial = false;
    for (i, o) in ops.iter().enumerate() {
        let a = exec(o, out);
        if i == 0 {
            out.begin_case(o, &a);
        } else {
            out.line(o, &a);
        }
        let w: Vec<&str> = o.split(' ').collect();
        out.count(&format!("op:{}", w.get(1).unwrap_or(&"?")));
        if w.get(1) == Some(&"deliver") && a != "unsent" {
            nontrivial = true;
        }
        if w.get(1) == Some(&"pub") && (a.starts_with("publish") || a.starts_with("try_publish")) {
            let from = match w.get(3) {
                Some(&"n") => 6,
                _ => 7,
            };
            if w.len() > from {
                let wb = format!("hcmd wbytes {}", w[from..].join(" "));
                let b = exec(&wb, out);
                out.line(&wb, &b);
                out.count("op:wbytes");
            }
        }
    }
    if nontrivial {
        out.nontrivial();
    }
    out.count(stat);
    drop_session();
}

fn random_name(rng: &mut Rng) -> String {
    match rng.below(12) {
        0 => RB.to_string(),
        1 => String::new(),
        2 => "x".repeat(300),
        3 => "é日本語 ü".to_string(),
        4 => "bdSeq".to_string(),
        5 => "a/b".to_string(),
        6 => crate::c10::random_string(rng, true),
        _ => (*rng.pick(&["x", "m1", "Node Control/Next Server", "temp", "Ünïcode/π"])).to_string(),
    }
}

fn random_id(rng: &mut Rng) -> String {
    let alias = |rng: &mut Rng| *rng.pick(&[0u64, 1, 7, 255, 4294967296, u64::MAX]);
    match rng.below(6) {
        0 | 1 => format!("n{}", hx(&random_name(rng))),
        2 => format!("a{}", alias(rng)),
        3 => format!("b{}:{}", hx(&random_name(rng)), alias(rng)),
        4 => format!("b{}:~", hx(&random_name(rng))),
        _ => format!("n{}", hx(RB)),
    }
}

fn random_value(rng: &mut Rng) -> String {
    match rng.below(8) {
        0 => format!("t.u8,{}", rng.below(256)),
        1 => format!("t.i32,{}", rng.next() as u32),
        2 => format!("t.string,{}", hx(&crate::c10::random_string(rng, true))),
        3 => format!("str,{}", hx(&random_name(rng))),
        4 => format!("bytes,{}", hex(&(0..rng.below(5)).map(|_| rng.next() as u8).collect::<Vec<u8>>())),
        5 => format!("t.f64,{}", rng.next()),
        6 => format!("bool,{}", rng.below(2)),
        _ => (*rng.pick(&VALUE_FORMS)).to_string(),
    }
}

fn random_pm(rng: &mut Rng) -> String {
    let ts = match rng.below(5) {
        0 | 1 => "~".to_string(),
        2 => "0".into(),
        3 => u64::MAX.to_string(),
        _ => (rng.below(4_000_000)).to_string(),
    };
    format!("{},{},{}", random_id(rng), ts, random_value(rng))
}

fn odd_id(rng: &mut Rng) -> String {
    (*rng.pick(&["", "/", "+", "#", "a/b", "STATE", "x", "g", "n", "日本", "NCMD", "g/DCMD"])).to_string()
}

fn valid_id(rng: &mut Rng) -> String {
    match rng.below(8) {
        0 => "グループ é".to_string(),
        1 => "y".repeat(200),
        2 => "NCMD".to_string(),
        3 => "spBv1.0".to_string(),
        4 => "state".to_string(),
        _ => (*rng.pick(&["g", "n", "G1", "node 1", "d", "edge-7"])).to_string(),
    }
}

fn target_tok(t: &Target) -> String {
    match t {
        Target::Node(g, n) => format!("n {} {}", hx(g), hx(n)),
        Target::Device(g, n, d) => format!("d {} {} {}", hx(g), hx(n), hx(d)),
    }
}

pub fn run(args: &Args, out: &mut Out) -> &'static str {
    crate::cmd::install_hook();
    let mut rng = Rng::new(args.seed);
    let th = args.thorough();
    let (g, n) = (hx("g"), hx("n"));
    let devs = format!("{},{}", hx("d0"), hx("d1"));
    let newline_at = |cd: u64, clock: u64| format!("hcmd new {} {} {} {} {}", g, n, devs, cd, clock);
    let newline = |cd: u64| newline_at(cd, 1_000_000);

    // (A) every value form x id form x metric timestamp x node/device x try/blocking
    {
        let ids = [format!("n{}", hx("x")), "a7".to_string(), format!("b{}:9", hx("m")), format!("b{}:~", hx("m"))];
        let mut ops = vec![newline(0)];
        let mut clock = 1_000_000u64;
        for v in VALUE_FORMS {
            for id in &ids {
                for ts in ["~", "123"] {
                    for tgt in [format!("n {} {}", g, n), format!("d {} {} {}", g, n, hx("d1"))] {
                        for mode in ["blk.a", "try.a"] {
                            clock += 1;
                            ops.push(format!("hcmd pub {} {} {} {},{},{}", mode, tgt, clock, id, ts, v));
                            ops.push("hcmd deliver".into());
                        }
                    }
                }
            }
        }
        run_case(out, &ops, "A:forms");
        out.exhaustive.push("27 value forms (14 raw protobuf variants incl. dataset / template / extension, 13 scalar Rust types through PublishMetric::new::<T> at their extreme bit patterns) x 4 id forms (name, alias, MetricBirthDetails::get_metric_id with and without alias) x metric timestamp {absent, present} x {node, device} topic x {publish_metrics, try_publish_metrics}, each published and delivered to the real node".into());
    }
    // (B) client answer x try/blocking x node/device, empty batch and one metric
    {
        let mut ops = vec![newline(0)];
        for mode in ["blk.a", "blk.r", "try.a", "try.r"] {
            for tgt in [format!("n {} {}", g, n), format!("d {} {} {}", g, n, hx("d0"))] {
                for batch in ["", " a1,~,t.u8,1"] {
                    ops.push(format!("hcmd pub {} {} 1000005{}", mode, tgt, batch));
                    ops.push("hcmd deliver".into());
                    ops.push("hcmd deliver".into());
                }
            }
        }
        for a in ["a", "r"] {
            ops.push(format!("hcmd rebirth {} {} {} 1000006", a, g, n));
            ops.push("hcmd deliver".into());
        }
        run_case(out, &ops, "B:answers");
        out.exhaustive.push("client answer {accept, reject} x {blocking, try_} x {node, device} x {empty batch, one metric}, publish_node_rebirth x {accept, reject}".into());
    }
    // (C) target forms: pairs (node config fixed g/n/d0,d1) x 3 batch shapes
    {
        let targets: Vec<Target> = vec![
            Target::Node("g".into(), "n".into()),
            Target::Device("g".into(), "n".into(), "d0".into()),
            Target::Device("g".into(), "n".into(), "d1".into()),
            Target::Device("g".into(), "n".into(), "d9".into()),
            Target::Node("g".into(), "m".into()),
            Target::Node("h".into(), "n".into()),
            Target::Device("h".into(), "n".into(), "d0".into()),
            Target::Device("g".into(), "m".into(), "d0".into()),
            Target::Node("g".into(), "n/d0".into()),
            Target::Node("g/DCMD".into(), "n".into()),
            Target::Device("g".into(), "n".into(), "".into()),
            Target::Device("g".into(), "n".into(), "+".into()),
            Target::Device("g".into(), "n".into(), "#".into()),
            Target::Device("g".into(), "+".into(), "d0".into()),
            Target::Node("+".into(), "n".into()),
            Target::Node("g".into(), "#".into()),
            Target::Node("".into(), "".into()),
            Target::Node("STATE".into(), "n".into()),
            Target::Device("STATE".into(), "n".into(), "d0".into()),
            Target::Device("g".into(), "n".into(), "d0/x".into()),
        ];
        let batches = ["".to_string(), format!("n{},~,bool,1", hx("x")), format!("n{},5,bool,1 a3,~,t.i8,255 n{},~,str,-", hx(RB), hx(""))];
        let mut ops = vec![newline(0)];
        let mut clock = 1_000_000u64;
        for t1 in &targets {
            for t2 in &targets {
                for b in &batches {
                    clock += 1;
                    ops.push(format!("hcmd pub blk.a {} {} {}", target_tok(t1), clock, b).trim_end().to_string());
                    ops.push(format!("hcmd pub try.a {} {} {}", target_tok(t2), clock, b).trim_end().to_string());
                    ops.push("hcmd deliver".into());
                }
            }
        }
        for t in &targets {
            for b in &batches {
                clock += 1;
                ops.push(format!("hcmd pub blk.a {} {} {}", target_tok(t), clock, b).trim_end().to_string());
                ops.push("hcmd deliver".into());
            }
        }
        run_case(out, &ops, "C:targets");
        out.exhaustive.push("20 target forms (own node, own devices, unregistered device, other group / node, ids containing '/', '+', '#', empty ids, group STATE) x 3 batch shapes, singly and in ordered pairs (the second call overwrites the first)".into());
    }
    // (D) publish_node_rebirth and rebirth by publish_metrics x cooldown
    for (cd, offsets) in [(0u64, vec![0u64, 0, 1]), (5000, vec![4999, 1, 5000, 4999, 5001]), (1_000_000_000, vec![10, 100_000])] {
        for via in ["api", "metrics", "mixed"] {
            // the cooldown is counted from the epoch at first: start the clock beyond it
            let mut clock = 1_000_000u64 + 2 * cd;
            let mut ops = vec![newline_at(cd, clock)];
            let mut k = 0;
            let mut req = |clock: u64, ops: &mut Vec<String>| {
                k += 1;
                let use_api = via == "api" || (via == "mixed" && k % 2 == 0);
                if use_api {
                    ops.push(format!("hcmd rebirth a {} {} {}", g, n, clock));
                } else {
                    ops.push(format!("hcmd pub try.a n {} {} {} a1,~,t.u8,1 n{},~,t.bool,1", g, n, clock, hx(RB)));
                }
                ops.push("hcmd deliver".into());
            };
            req(clock, &mut ops);
            for o in &offsets {
                clock += o;
                req(clock, &mut ops);
                // requests that are no requests: other node, false, aliased, device topic
                ops.push(format!("hcmd rebirth a {} {} {}", g, hx("other"), clock));
                ops.push("hcmd deliver".into());
                ops.push(format!("hcmd pub blk.a n {} {} {} n{},~,t.bool,0", g, n, clock, hx(RB)));
                ops.push("hcmd deliver".into());
                ops.push(format!("hcmd pub blk.a d {} {} {} {} n{},~,t.bool,1", g, n, hx("d0"), clock, hx(RB)));
                ops.push("hcmd deliver".into());
                ops.push(format!("hcmd pub blk.a n {} {} {} n{},~,t.bool,1 n{},~,t.bool,0", g, n, clock, hx(RB), hx(RB)));
                ops.push("hcmd deliver".into());
            }
            run_case(out, &ops, "D:rebirth");
        }
    }
    out.exhaustive.push("rebirth requests through publish_node_rebirth / publish_metrics / alternating x cooldown {0; 5000 ms at offsets 4999, +1, 5000, 4999, 5001; 10^9 ms}, each followed by four non-requests (other node, false, device topic, true-then-false)".into());
    // (D2) sequences of calls on ONE AppClient for id tuples that are easily confused: equal concatenations
    // ("ab"+"c" / "a"+"bc"), swapped ids, prefixes, repeated and alternating ids - rebirth requests and commands.
    // C13: the topic of every publish decodes to exactly the ids it was built for, whatever was published before.
    {
        let pairs: Vec<(String, String)> = vec![
            ("ab".into(), "c".into()),
            ("a".into(), "bc".into()),
            ("abc".into(), "abc".into()),
            ("abca".into(), "bc".into()),
            ("c".into(), "ab".into()),
            ("g".into(), "n".into()),
            ("gn".into(), "g".into()),
            ("g".into(), "ng".into()),
            ("é".into(), "éé".into()),
            ("éé".into(), "é".into()),
            ("NCMD".into(), "n".into()),
            ("N".into(), "CMDn".into()),
        ];
        let mut ops = vec![newline(0)];
        let mut clock = 1_000_000u64;
        // every ordered pair (incl. the same pair twice), then back to the first: a-b-a
        for p in &pairs {
            for q in &pairs {
                for (tg, tn) in [p, q, p] {
                    clock += 1;
                    ops.push(format!("hcmd rebirth a {} {} {}", hx(tg), hx(tn), clock));
                }
            }
        }
        ops.push("hcmd deliver".into());
        run_case(out, &ops, "D2:confusable-ids:rebirth");
        let mut ops = vec![newline(0)];
        for p in &pairs {
            for q in &pairs {
                clock += 1;
                ops.push(format!("hcmd rebirth a {} {} {}", hx(&p.0), hx(&p.1), clock));
                ops.push(format!("hcmd pub blk.a n {} {} {} a1,~,t.u8,1", hx(&q.0), hx(&q.1), clock));
                ops.push(format!("hcmd pub try.a d {} {} {} {} a1,~,t.u8,1", hx(&q.0), hx(&p.0), hx(&p.1), clock));
                ops.push(format!("hcmd pub try.a d {} {} {} {} a1,~,t.u8,1", hx(&p.0), hx(&p.1), hx(&q.0), clock));
                ops.push(format!("hcmd rebirth a {} {} {}", hx(&q.0), hx(&q.1), clock));
            }
        }
        ops.push("hcmd deliver".into());
        run_case(out, &ops, "D2:confusable-ids:mixed");
        out.exhaustive.push("12 (group, node) pairs with equal concatenations / swapped / prefix-related ids (ASCII, 2-byte characters, ids spelling a verb): every ordered pair p, q as rebirth p - rebirth q - rebirth p on one AppClient, and as rebirth p - NCMD q - DCMD (q.g, p.g, p.n) - DCMD (p.g, p.n, q.g) - rebirth q".into());
    }
    // (E) node configurations: odd but valid ids, invalid ids (refused), 0-3 devices
    {
        let cfgs: Vec<(String, String, Vec<String>)> = vec![
            ("グループ é".into(), "ノード".into(), vec!["装置 1".into(), "d".into()]),
            ("y".repeat(200), "z".repeat(300), vec!["w".repeat(250)]),
            ("NCMD".into(), "DCMD".into(), vec!["NCMD".into(), "STATE".into()]),
            ("STATE".into(), "n".into(), vec!["d0".into()]),
            ("g".into(), "STATE".into(), vec![]),
            ("spBv1.0".into(), "spBv1.0".into(), vec!["spBv1.0".into()]),
            ("g".into(), "n".into(), vec!["d0".into(), "d0".into()]),
            ("g/x".into(), "n".into(), vec![]),
            ("g".into(), "".into(), vec![]),
            ("g".into(), "n".into(), vec!["a+b".into()]),
            ("g".into(), "n".into(), vec![]),
        ];
        for (cg, cn, cd) in &cfgs {
            let devtok = if cd.is_empty() { "_".to_string() } else { cd.iter().map(|d| hx(d)).collect::<Vec<_>>().join(",") };
            let mut ops = vec![format!("hcmd new {} {} {} 0 1000000", hx(cg), hx(cn), devtok)];
            let mut clock = 1_000_000;
            let mut tg = vec![Target::Node(cg.clone(), cn.clone()), Target::Node(cn.clone(), cg.clone())];
            for d in cd {
                tg.push(Target::Device(cg.clone(), cn.clone(), d.clone()));
            }
            tg.push(Target::Device(cg.clone(), cn.clone(), "nodev".into()));
            for t in &tg {
                for mode in ["blk.a", "try.a"] {
                    clock += 1;
                    ops.push(format!("hcmd pub {} {} {} n{},~,t.string,{} a0,{},long,0", mode, target_tok(t), clock, hx("ü"), hx("ß"), u64::MAX));
                    ops.push("hcmd deliver".into());
                }
            }
            ops.push(format!("hcmd rebirth a {} {} {}", hx(cg), hx(cn), clock + 1));
            ops.push("hcmd deliver".into());
            run_case(out, &ops, "E:node-configs");
        }
    }
    // (F) random sessions
    for _ in 0..(if th { 20000 } else { 150 }) {
        let mut r = rng.fork();
        let cg = valid_id(&mut r);
        let cn = valid_id(&mut r);
        let nd = r.below(4) as usize;
        let mut cd: Vec<String> = vec![];
        while cd.len() < nd {
            let d = if r.chance(1, 3) { valid_id(&mut r) } else { format!("d{}", cd.len()) };
            if !cd.contains(&d) {
                cd.push(d);
            }
        }
        let cooldown = *r.pick(&[0u64, 0, 50, 5000]);
        let devtok = if cd.is_empty() { "_".to_string() } else { cd.iter().map(|d| hx(d)).collect::<Vec<_>>().join(",") };
        let mut clock = 1_000_000 + r.below(1000);
        let mut ops = vec![format!("hcmd new {} {} {} {} {}", hx(&cg), hx(&cn), devtok, cooldown, clock)];
        for _ in 0..r.range(1, if th { 30 } else { 12 }) {
            clock += *r.pick(&[0u64, 1, 49, 50, 51, 4999, 5000]);
            let t = match r.below(10) {
                0..=3 => Target::Node(cg.clone(), cn.clone()),
                4..=6 if !cd.is_empty() => Target::Device(cg.clone(), cn.clone(), r.pick(&cd).clone()),
                7 => Target::Device(cg.clone(), cn.clone(), odd_id(&mut r)),
                8 if r.chance(1, 2) => {
                    // a valid pair whose concatenation equals that of the node's own ids (split elsewhere)
                    let all: Vec<char> = format!("{}{}", cg, cn).chars().collect();
                    let k = 1 + r.below((all.len() - 1) as u64) as usize;
                    Target::Node(all[..k].iter().collect(), all[k..].iter().collect())
                }
                8 => Target::Node(if r.chance(1, 2) { cg.clone() } else { odd_id(&mut r) }, if r.chance(1, 2) { cn.clone() } else { odd_id(&mut r) }),
                _ => Target::Device(if r.chance(1, 2) { cg.clone() } else { odd_id(&mut r) }, if r.chance(1, 2) { cn.clone() } else { odd_id(&mut r) }, if cd.is_empty() || r.chance(1, 2) { odd_id(&mut r) } else { r.pick(&cd).clone() }),
            };
            if r.chance(1, 6) {
                if let Target::Node(tg, tn) = &t {
                    ops.push(format!("hcmd rebirth {} {} {} {}", if r.chance(1, 8) { "r" } else { "a" }, hx(tg), hx(tn), clock));
                    ops.push("hcmd deliver".into());
                    continue;
                }
            }
            let mode = format!("{}.{}", if r.chance(1, 2) { "blk" } else { "try" }, if r.chance(1, 10) { "r" } else { "a" });
            let nm = if r.chance(1, 8) { 0 } else { r.range(1, 8) };
            let pms: Vec<String> = (0..nm).map(|_| random_pm(&mut r)).collect();
            ops.push(format!("hcmd pub {} {} {} {}", mode, target_tok(&t), clock, pms.join(" ")).trim_end().to_string());
            if r.chance(9, 10) {
                ops.push("hcmd deliver".into());
            }
        }
        run_case(out, &ops, "F:random");
    }
    // (G) malformed requests: both sides answer bad-op
    {
        let ops: Vec<String> = vec![
            newline(0),
            "hcmd frobnicate".into(),
            "hcmd pub blk n 67 6e 5".into(),
            "hcmd pub blk.a n 67 6e x".into(),
            "hcmd pub blk.a n 67 6e 5 n78,~,int".into(),
            "hcmd pub blk.a n 67 6e 5 q78,~,int,1".into(),
            "hcmd pub blk.a n 67 6e 5 n78,~,t.u8,256".into(),
            "hcmd pub blk.a n 67 6e 5 n78,~,pset,-".into(),
            "hcmd pub blk.a x 67 6e 5".into(),
            "hcmd rebirth a 67 6e".into(),
            "hcmd rebirth q 67 6e 5".into(),
            "hcmd deliver now".into(),
            "hcmd deliver".into(),
        ];
        run_case(out, &ops, "G:malformed");
    }
    RULE
}

pub fn replay(_desc: &str, lines: &[String], out: &mut Out) {
    crate::cmd::install_hook();
    let mut first = true;
    for l in lines {
        let a = exec(l, out);
        if first {
            out.begin_case(l, &a);
            first = false;
        } else {
            out.line(l, &a);
        }
    }
    drop_session();
}
