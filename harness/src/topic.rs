//! Component `topic` (C13): topic builders, name validation and the constructors that apply
//! it, the STATE certificate codecs, and the receive path `topic_and_payload_to_event`,
//! all through the public API of srad-types / srad-client / srad-eon / srad-app.
//! Ops (one per line, ids and bytes as hex, `-` = empty):
//!   topic new
//!   topic vname  <hex>                         validate_name
//!   topic build  <hex|~> <hex|~>               EoNBuilder (group, node; `~` = not supplied)
//!   topic regdev <hex>                         NodeHandle::register_device on a fresh node
//!   topic regdev2 <hex> <hex>                  two registrations on one node, answer of the 2nd
//!   topic app    <hex>                         AppEventLoop::new
//!   topic ntopic <verb> <g> <n>                NodeTopic::new + get_publish_quality_retain
//!   topic dtopic <verb> <g> <n> <d>            DeviceTopic::new + get_publish_quality_retain
//!   topic stopic <h>                           StateTopic::new_host
//!   topic spay   <0|1> <ts>                    Vec<u8>::from(StatePayload)
//!   topic spay2  <0|1> <ts>                    Vec<u8>::try_from(StateBirthDeathCertificate)
//!   topic cert   <hexjson>                     StateBirthDeathCertificate::try_from(&[u8])
//!   topic parse  <hextopic> <hexpayload> <0|1> topic_and_payload_to_event (flag: prost accepts)
use crate::common::*;
use prost::Message as _;
use srad_client::channel::ChannelEventLoop;
use srad_client::{
    topic_and_payload_to_event, DeviceMessage as DevMsg, Event, LastWill, Message, MessageError,
    MessageKind, NodeMessage as NodeMsg, StatePayload,
};
use srad_types::payload::{metric, Metric, Payload, StateBirthDeathCertificate};
use srad_types::topic::{DeviceMessage, DeviceTopic, NodeMessage, NodeTopic, QoS, StateTopic};
use std::panic::AssertUnwindSafe;

const VERBS: [&str; 4] = ["birth", "death", "data", "cmd"];

fn node_verb(v: &str) -> NodeMessage {
    match v {
        "birth" => NodeMessage::NBirth,
        "death" => NodeMessage::NDeath,
        "data" => NodeMessage::NData,
        "cmd" => NodeMessage::NCmd,
        _ => panic!("bad verb"),
    }
}
fn dev_verb(v: &str) -> DeviceMessage {
    match v {
        "birth" => DeviceMessage::DBirth,
        "death" => DeviceMessage::DDeath,
        "data" => DeviceMessage::DData,
        "cmd" => DeviceMessage::DCmd,
        _ => panic!("bad verb"),
    }
}
fn kind_of_verb(v: &str) -> MessageKind {
    match v {
        "birth" => MessageKind::Birth,
        "death" => MessageKind::Death,
        "data" => MessageKind::Data,
        "cmd" => MessageKind::Cmd,
        _ => panic!("bad verb"),
    }
}
fn qr(q: (QoS, bool)) -> String {
    format!(
        "{} {}",
        match q.0 {
            QoS::AtMostOnce => "q0",
            QoS::AtLeastOnce => "q1",
        },
        if q.1 { "r1" } else { "r0" }
    )
}
fn utf8(hexs: &str) -> String {
    String::from_utf8(unhex(hexs)).expect("ids are Rust strings: the harness generates valid UTF-8")
}
fn show_kind(k: &MessageKind) -> String {
    match k {
        MessageKind::Birth => "birth".into(),
        MessageKind::Death => "death".into(),
        MessageKind::Data => "data".into(),
        MessageKind::Cmd => "cmd".into(),
        MessageKind::Other(s) => format!("other:{}", hex(s.as_bytes())),
    }
}
fn show_reason(r: &MessageError) -> &'static str {
    match r {
        MessageError::DecodePayloadError(_) => "decode",
        MessageError::InvalidSparkplugTopic => "topic",
        MessageError::TopicUtf8Error(_) => "utf8",
        MessageError::StatePayloadJsonDecodeError(_) => "json",
    }
}
fn show_event(e: &Event) -> String {
    match e {
        Event::Node(m) => format!(
            "node {} {} {}",
            hex(m.group_id.as_bytes()),
            hex(m.node_id.as_bytes()),
            show_kind(&m.message.kind)
        ),
        Event::Device(m) => format!(
            "device {} {} {} {}",
            hex(m.group_id.as_bytes()),
            hex(m.node_id.as_bytes()),
            hex(m.device_id.as_bytes()),
            show_kind(&m.message.kind)
        ),
        Event::State { host_id, payload } => {
            let (o, ts) = match payload {
                StatePayload::Online { timestamp } => (1, *timestamp),
                StatePayload::Offline { timestamp } => (0, *timestamp),
            };
            format!("state {} {} {}", hex(host_id.as_bytes()), o, ts)
        }
        Event::InvalidPublish { reason, topic, payload } => {
            format!("invalid {} {} {}", show_reason(reason), hex(topic), hex(payload))
        }
        Event::Offline => "offline".into(),
        Event::Online => "online".into(),
    }
}

// ---------- the property's own words, written independently of srad ----------

/// "accepted by name validation": not empty, none of '/', '+', '#'
fn name_ok(s: &str) -> bool {
    !s.is_empty() && !s.contains('/') && !s.contains('+') && !s.contains('#')
}

#[derive(PartialEq, Debug, Clone)]
enum Shape {
    Node { g: Vec<u8>, verb: Vec<u8>, n: Vec<u8> },
    Device { g: Vec<u8>, verb: Vec<u8>, n: Vec<u8>, d: Vec<u8> },
    State { h: Vec<u8>, extra: bool },
    None,
}

fn is_utf8(b: &[u8]) -> bool {
    std::str::from_utf8(b).is_ok()
}

/// node shape `ns/group/N<verb>/node`, device shape `ns/group/D<verb>/node/device`, STATE shape
/// `ns/STATE/host` (srad also reads further segments after the host id; recorded as `extra`),
/// ids and unknown verbs being UTF-8. Decided from the segment count, not by walking an iterator.
fn shape_of(topic: &[u8]) -> Shape {
    let mut segs: Vec<Vec<u8>> = vec![vec![]];
    for b in topic {
        if *b == b'/' {
            segs.push(vec![]);
        } else {
            segs.last_mut().unwrap().push(*b);
        }
    }
    if segs.len() >= 2 && segs[1] == b"STATE" {
        if segs.len() == 3 && is_utf8(&segs[2]) {
            return Shape::State { h: segs[2].clone(), extra: segs.len() > 3 };
        }
        return Shape::None;
    }
    if segs.len() != 4 && segs.len() != 5 {
        return Shape::None;
    }
    let v = &segs[2];
    if v.len() < 2 || !is_utf8(&segs[1]) || !is_utf8(&segs[3]) {
        return Shape::None;
    }
    let rest = &v[1..];
    let known = [&b"BIRTH"[..], b"DEATH", b"DATA", b"CMD"].contains(&rest);
    if !known && !is_utf8(rest) {
        return Shape::None;
    }
    match (v[0], segs.len()) {
        (b'N', 4) => Shape::Node { g: segs[1].clone(), verb: rest.to_vec(), n: segs[3].clone() },
        (b'D', 5) if is_utf8(&segs[4]) => Shape::Device {
            g: segs[1].clone(),
            verb: rest.to_vec(),
            n: segs[3].clone(),
            d: segs[4].clone(),
        },
        _ => Shape::None,
    }
}

fn kind_bytes(k: &MessageKind) -> Vec<u8> {
    match k {
        MessageKind::Birth => b"BIRTH".to_vec(),
        MessageKind::Death => b"DEATH".to_vec(),
        MessageKind::Data => b"DATA".to_vec(),
        MessageKind::Cmd => b"CMD".to_vec(),
        MessageKind::Other(s) => s.as_bytes().to_vec(),
    }
}

// ---------- constructors ----------

fn with_rt<T>(f: impl FnOnce() -> T) -> T {
    let rt = tokio::runtime::Builder::new_current_thread()
        .enable_time()
        .start_paused(true)
        .build()
        .unwrap();
    let _g = rt.enter();
    let r = f();
    drop(_g);
    drop(rt);
    r
}

fn opt_id(tok: &str) -> Option<String> {
    if tok == "~" {
        None
    } else {
        Some(utf8(tok))
    }
}

fn ctor_build(g: Option<String>, n: Option<String>) -> &'static str {
    with_rt(|| {
        let r = catch(AssertUnwindSafe(|| {
            let (el, client, broker) = ChannelEventLoop::new();
            let mut b = srad_eon::EoNBuilder::new(el, client);
            if let Some(g) = g {
                b = b.with_group_id(g);
            }
            if let Some(n) = n {
                b = b.with_node_id(n);
            }
            let r = b.build().is_ok();
            drop(broker);
            r
        }));
        match r {
            Err(_) => "panic",
            Ok(true) => "ok",
            Ok(false) => "err",
        }
    })
}

fn ctor_regdev(names: &[String]) -> &'static str {
    with_rt(|| {
        let r = catch(AssertUnwindSafe(|| {
            let (el, client, broker) = ChannelEventLoop::new();
            let (_eon, handle) = srad_eon::EoNBuilder::new(el, client)
                .with_group_id("G")
                .with_node_id("N")
                .build()
                .expect("fixed valid ids");
            let mut last = false;
            for name in names {
                last = handle
                    .register_device(name.clone(), srad_eon::NoMetricManager::new())
                    .is_ok();
            }
            drop(broker);
            last
        }));
        match r {
            Err(_) => "panic",
            Ok(true) => "ok",
            Ok(false) => "err",
        }
    })
}

fn ctor_app(h: String) -> &'static str {
    with_rt(|| {
        let r = catch(AssertUnwindSafe(|| {
            let (el, client, broker) = ChannelEventLoop::new();
            let _x = srad_app::AppEventLoop::new(h, srad_app::SubscriptionConfig::AllGroups, el, client);
            drop(broker);
        }));
        match r {
            Err(_) => "panic",
            Ok(()) => "ok",
        }
    })
}

// ---------- executing one op ----------

fn run_parse(topic: &[u8], payload: &[u8]) -> Result<Event, String> {
    let (t, p) = (topic.to_vec(), payload.to_vec());
    catch(move || topic_and_payload_to_event(t, p))
}

fn decodes(payload: &[u8]) -> bool {
    matches!(catch(AssertUnwindSafe(|| Payload::decode(payload).is_ok())), Ok(true))
}

fn feature_of_topic(topic: &[u8]) -> String {
    let n = topic.iter().filter(|b| **b == b'/').count() + 1;
    format!("segments={}", n.min(7))
}

/// Oracle clauses that need only the input of one `parse` request.
fn parse_oracle(topic: &[u8], payload: &[u8], ev: &Result<Event, String>, out: &mut Out) {
    let op = format!("parse {} {}", hex(topic), hex(payload));
    let ev = match ev {
        Err(m) => {
            out.fail("C13:no-panic", &feature_of_topic(topic), format!("{} panicked: {}", op, m));
            out.fail("C19:state-json-total", &format!("receive-path-panic:{}", feature_of_topic(topic)), format!("{} panicked: {}", op, m));
            return;
        }
        Ok(e) => e,
    };
    let shape = shape_of(topic);
    let pb_ok = decodes(payload);
    let cert_ok = match catch(AssertUnwindSafe(|| StateBirthDeathCertificate::try_from(payload).is_ok())) {
        Ok(b) => b,
        Err(m) => {
            // the certificate reader itself panics on these bytes (whatever the topic was)
            out.fail("C13:no-panic", "certificate-decoder", format!("StateBirthDeathCertificate::try_from panicked on the payload of {}: {}", op, m));
            out.fail("C19:state-json-total", "certificate-decoder-panic", format!("StateBirthDeathCertificate::try_from panicked on the payload of {}: {}", op, m));
            return;
        }
    };
    match ev {
        Event::InvalidPublish { topic: t, payload: p, .. } => {
            out.count("event:invalid");
            // invalid events carry the original bytes
            if t != topic || p != payload {
                out.fail(
                    "C13:invalid-carries-original-bytes",
                    &feature_of_topic(topic),
                    format!("{} -> invalid event with topic {} payload {}", op, hex(t), hex(p)),
                );
            }
            // ... and arise only for a topic without shape or an undecodable payload
            let should_be_valid = match &shape {
                Shape::None => false,
                Shape::State { .. } => cert_ok,
                _ => pb_ok,
            };
            if should_be_valid {
                out.fail(
                    "C13:well-formed-publish-accepted",
                    &feature_of_topic(topic),
                    format!("{}: topic has shape {:?} and the payload decodes, yet the event is invalid", op, shape),
                );
            }
        }
        Event::Node(NodeMsg { group_id, node_id, message }) => {
            out.count("event:node");
            match &shape {
                Shape::Node { g, verb, n }
                    if g == group_id.as_bytes() && n == node_id.as_bytes() && *verb == kind_bytes(&message.kind) => {}
                _ => out.fail(
                    "C13:ids-are-topic-segments",
                    "node",
                    format!("{} -> {} but the topic has shape {:?}", op, show_event(ev), shape),
                ),
            }
            payload_same(&op, payload, &message.payload, out);
        }
        Event::Device(DevMsg { group_id, node_id, device_id, message }) => {
            out.count("event:device");
            match &shape {
                Shape::Device { g, verb, n, d }
                    if g == group_id.as_bytes()
                        && n == node_id.as_bytes()
                        && d == device_id.as_bytes()
                        && *verb == kind_bytes(&message.kind) => {}
                _ => out.fail(
                    "C13:ids-are-topic-segments",
                    "device",
                    format!("{} -> {} but the topic has shape {:?}", op, show_event(ev), shape),
                ),
            }
            payload_same(&op, payload, &message.payload, out);
        }
        Event::State { host_id, payload: sp } => {
            out.count("event:state");
            match &shape {
                Shape::State { h, extra } if h == host_id.as_bytes() => {
                    if *extra {
                        out.count("note:state-topic-with-further-segments-accepted");
                    }
                }
                _ => out.fail(
                    "C13:ids-are-topic-segments",
                    "state",
                    format!("{} -> {} but the topic has shape {:?}", op, show_event(ev), shape),
                ),
            }
            // the state event carries what the certificate decoder reads from these bytes
            let want = StateBirthDeathCertificate::try_from(payload).ok().map(|c| {
                if c.online {
                    StatePayload::Online { timestamp: c.timestamp }
                } else {
                    StatePayload::Offline { timestamp: c.timestamp }
                }
            });
            if want.as_ref() != Some(sp) {
                out.fail("C13:payload-is-decoded-payload", "state", format!("{} -> {}", op, show_event(ev)));
            }
        }
        Event::Offline | Event::Online => {
            out.fail("C13:ids-are-topic-segments", "connection-event", format!("{} -> {}", op, show_event(ev)));
        }
    }
    // a topic without shape, or an undecodable payload, must give an invalid event
    let must_be_invalid = match &shape {
        Shape::None => true,
        Shape::State { .. } => !cert_ok,
        _ => !pb_ok,
    };
    if must_be_invalid && !matches!(ev, Event::InvalidPublish { .. }) {
        let feat = if shape == Shape::None { "no-shape" } else { "undecodable-payload" };
        out.fail(
            "C13:malformed-publish-is-invalid",
            feat,
            format!("{} -> {} (shape {:?}, protobuf decodes {}, certificate decodes {})", op, show_event(ev), shape, pb_ok, cert_ok),
        );
    }
}

fn payload_same(op: &str, bytes: &[u8], got: &Payload, out: &mut Out) {
    match Payload::decode(bytes) {
        Ok(p) if Vec::<u8>::from(p.clone()) == Vec::<u8>::from(got.clone()) => {}
        _ => out.fail(
            "C13:payload-is-decoded-payload",
            "protobuf",
            format!("{}: event payload differs from prost's decoding of the bytes", op),
        ),
    }
}

/// Execute one op on the implementation; single-op oracle clauses are evaluated here.
pub fn exec(op: &str, out: &mut Out) -> String {
    let _crumb = crate::common::crumb::guard(op);
    let w: Vec<&str> = op.split(' ').collect();
    match w.as_slice() {
        ["topic", "new"] => "ok".into(),
        ["topic", "vname", h] => {
            let s = utf8(h);
            let r = match catch(AssertUnwindSafe(|| srad_types::utils::validate_name(&s).is_ok())) {
                Err(_) => {
                    out.fail("C13:no-panic", "validate_name", format!("{} panicked", op));
                    return "panic".into();
                }
                Ok(r) => r,
            };
            if r != name_ok(&s) {
                out.fail(
                    "C13:name-validation",
                    if r { "accepted-bad-name" } else { "refused-good-name" },
                    format!("{}: validate_name({:?}) is_ok = {}", op, s, r),
                );
            }
            (if r { "ok" } else { "err" }).into()
        }
        ["topic", "build", g, n] => {
            let (g, n) = (opt_id(g), opt_id(n));
            let all_ok = g.as_deref().map(name_ok).unwrap_or(false) && n.as_deref().map(name_ok).unwrap_or(false);
            let any_bad = g.as_deref().map(|x| !name_ok(x)).unwrap_or(false) || n.as_deref().map(|x| !name_ok(x)).unwrap_or(false);
            let a = ctor_build(g.clone(), n.clone());
            ctor_oracle(op, "node", a, all_ok, any_bad, out);
            a.into()
        }
        ["topic", "regdev", d] => {
            let d = utf8(d);
            let a = ctor_regdev(&[d.clone()]);
            ctor_oracle(op, "device", a, name_ok(&d), !name_ok(&d), out);
            a.into()
        }
        ["topic", "regdev2", d1, d2] => {
            let (d1, d2) = (utf8(d1), utf8(d2));
            let a = ctor_regdev(&[d1.clone(), d2.clone()]);
            let fresh = d1 != d2 || !name_ok(&d1);
            ctor_oracle(op, "device", a, name_ok(&d2) && fresh, !name_ok(&d2), out);
            a.into()
        }
        ["topic", "app", h] => {
            let h = utf8(h);
            let a = ctor_app(h.clone());
            ctor_oracle(op, "host", a, name_ok(&h), !name_ok(&h), out);
            a.into()
        }
        ["topic", "ntopic", v, g, n] => {
            let t = NodeTopic::new(&utf8(g), node_verb(v), &utf8(n));
            format!("{} {}", hex(t.topic.as_bytes()), qr(t.get_publish_quality_retain()))
        }
        ["topic", "dtopic", v, g, n, d] => {
            let t = DeviceTopic::new(&utf8(g), dev_verb(v), &utf8(n), &utf8(d));
            format!("{} {}", hex(t.topic.as_bytes()), qr(t.get_publish_quality_retain()))
        }
        ["topic", "stopic", h] => {
            let t = StateTopic::new_host(&utf8(h));
            let q = StatePayload::Online { timestamp: 0 }.get_publish_quality_retain();
            let q2 = StatePayload::Offline { timestamp: 0 }.get_publish_quality_retain();
            assert!(q == q2);
            format!("{} {}", hex(t.topic.as_bytes()), qr(q))
        }
        ["topic", "spay", o, ts] => {
            let timestamp: u64 = ts.parse().unwrap();
            let p = if *o == "1" { StatePayload::Online { timestamp } } else { StatePayload::Offline { timestamp } };
            hex(&Vec::<u8>::from(p))
        }
        ["topic", "spay2", o, ts] => {
            let c = StateBirthDeathCertificate { timestamp: ts.parse().unwrap(), online: *o == "1" };
            match Vec::<u8>::try_from(c) {
                Ok(v) => hex(&v),
                Err(_) => "err".into(),
            }
        }
        ["topic", "cert", j] => {
            let b = unhex(j);
            match catch(AssertUnwindSafe(|| StateBirthDeathCertificate::try_from(b.as_slice()))) {
                Err(m) => {
                    out.fail("C13:no-panic", "certificate-decoder", format!("{} panicked: {}", op, m));
                    out.fail("C19:state-json-total", "certificate-decoder-panic", format!("{} panicked: {}", op, m));
                    "panic".into()
                }
                Ok(Ok(c)) => format!("ok {} {}", c.online as u8, c.timestamp),
                Ok(Err(_)) => "err".into(),
            }
        }
        ["topic", "parse", t, p, f] => {
            let (t, p) = (unhex(t), unhex(p));
            assert!(decodes(&p) == (*f == "1"), "decode flag of a parse op does not match prost");
            let ev = run_parse(&t, &p);
            parse_oracle(&t, &p, &ev, out);
            match ev {
                Ok(e) => show_event(&e),
                Err(_) => "panic".into(),
            }
        }
        _ => panic!("bad op {}", op),
    }
}

fn ctor_oracle(op: &str, what: &str, a: &str, must_accept: bool, must_refuse: bool, out: &mut Out) {
    if must_refuse && a == "ok" {
        out.fail("C13:invalid-id-refused-at-construction", what, format!("{} was accepted", op));
    }
    if must_accept && a != "ok" {
        out.fail("C13:valid-id-accepted-at-construction", what, format!("{} -> {}", op, a));
    }
    out.count(&format!("ctor:{}:{}", what, a));
}

fn line(out: &mut Out, op: &str) -> String {
    let a = exec(op, out);
    out.line(op, &a);
    a
}

fn parse_op(topic: &[u8], payload: &[u8]) -> String {
    format!("topic parse {} {} {}", hex(topic), hex(payload), decodes(payload) as u8)
}

fn batch(out: &mut Out, ops: &[String], stat: &str) {
    if ops.is_empty() {
        return;
    }
    out.begin_case("topic new", "ok");
    for o in ops {
        line(out, o);
    }
    out.nontrivial();
    out.count_n(stat, ops.len() as u64);
}

// ---------- case-level oracles: faithfulness ----------

/// node publish: real builder, real encoder, real parser; the event must carry the same
/// ids, kind and payload
fn faithful_node(out: &mut Out, verb: &str, g: &str, n: &str, payload: &Payload) {
    out.begin_case("topic new", "ok");
    let pbytes: Vec<u8> = payload.clone().into();
    out.set_desc(format!("fnode {} {} {} {}", verb, hex(g.as_bytes()), hex(n.as_bytes()), hex(&pbytes)));
    let built = line(out, &format!("topic ntopic {} {} {}", verb, hex(g.as_bytes()), hex(n.as_bytes())));
    let topic = unhex(built.split(' ').next().unwrap());
    let a = line(out, &parse_op(&topic, &pbytes));
    out.nontrivial();
    out.count(&format!("faithful:node:{}", verb));
    if !(name_ok(g) && name_ok(n)) || g == "STATE" {
        out.count("faithful:outside-claim(invalid id or group STATE)");
        return;
    }
    let want = Event::Node(NodeMsg {
        group_id: g.to_string(),
        node_id: n.to_string(),
        message: Message { payload: payload.clone(), kind: kind_of_verb(verb) },
    });
    match run_parse(&topic, &pbytes) {
        Ok(e) if e == want => {}
        _ => out.fail(
            "C13:faithful-node",
            verb,
            format!("group {:?} node {:?} verb {}: topic {} decodes to {}", g, n, verb, hex(&topic), a),
        ),
    }
    if verb == "death" {
        // the will registered by an edge node is the same publish
        let w = LastWill::new_node(g, n, payload.clone());
        if w.topic.as_bytes() != topic.as_slice() || w.payload != pbytes {
            out.fail("C13:faithful-node", "last-will", format!("LastWill::new_node({:?},{:?}) differs from the NDEATH publish", g, n));
        }
    }
}

fn faithful_device(out: &mut Out, verb: &str, g: &str, n: &str, d: &str, payload: &Payload) {
    out.begin_case("topic new", "ok");
    let pbytes: Vec<u8> = payload.clone().into();
    out.set_desc(format!(
        "fdev {} {} {} {} {}",
        verb,
        hex(g.as_bytes()),
        hex(n.as_bytes()),
        hex(d.as_bytes()),
        hex(&pbytes)
    ));
    let built = line(
        out,
        &format!("topic dtopic {} {} {} {}", verb, hex(g.as_bytes()), hex(n.as_bytes()), hex(d.as_bytes())),
    );
    let topic = unhex(built.split(' ').next().unwrap());
    let a = line(out, &parse_op(&topic, &pbytes));
    out.nontrivial();
    out.count(&format!("faithful:device:{}", verb));
    if !(name_ok(g) && name_ok(n) && name_ok(d)) || g == "STATE" {
        out.count("faithful:outside-claim(invalid id or group STATE)");
        return;
    }
    let want = Event::Device(DevMsg {
        group_id: g.to_string(),
        node_id: n.to_string(),
        device_id: d.to_string(),
        message: Message { payload: payload.clone(), kind: kind_of_verb(verb) },
    });
    match run_parse(&topic, &pbytes) {
        Ok(e) if e == want => {}
        _ => out.fail(
            "C13:faithful-device",
            verb,
            format!("group {:?} node {:?} device {:?} verb {}: topic {} decodes to {}", g, n, d, verb, hex(&topic), a),
        ),
    }
}

fn faithful_state(out: &mut Out, h: &str, online: bool, ts: u64) {
    out.begin_case("topic new", "ok");
    out.set_desc(format!("fstate {} {} {}", hex(h.as_bytes()), online as u8, ts));
    let built = line(out, &format!("topic stopic {}", hex(h.as_bytes())));
    let topic = unhex(built.split(' ').next().unwrap());
    let pay = unhex(&line(out, &format!("topic spay {} {}", online as u8, ts)));
    let pay2 = unhex(&line(out, &format!("topic spay2 {} {}", online as u8, ts)));
    let c1 = line(out, &format!("topic cert {}", hex(&pay)));
    let c2 = line(out, &format!("topic cert {}", hex(&pay2)));
    let a = line(out, &parse_op(&topic, &pay));
    let a2 = line(out, &parse_op(&topic, &pay2));
    out.nontrivial();
    out.count("faithful:state");
    let want_cert = format!("ok {} {}", online as u8, ts);
    if c1 != want_cert {
        out.fail("C13:certificate-roundtrip", "hand-written", format!("online={} timestamp={} written as {} reads back as {}", online, ts, hex(&pay), c1));
    }
    if c2 != want_cert {
        out.fail("C13:certificate-roundtrip", "serde", format!("online={} timestamp={} written as {} reads back as {}", online, ts, hex(&pay2), c2));
    }
    if !name_ok(h) {
        out.count("faithful:outside-claim(invalid id or group STATE)");
        return;
    }
    let sp = if online { StatePayload::Online { timestamp: ts } } else { StatePayload::Offline { timestamp: ts } };
    let want = Event::State { host_id: h.to_string(), payload: sp };
    for (p, shown) in [(&pay, &a), (&pay2, &a2)] {
        match run_parse(&topic, p) {
            Ok(e) if e == want => {}
            _ => out.fail(
                "C13:faithful-state",
                if online { "online" } else { "offline" },
                format!("host {:?} online={} timestamp={}: topic {} payload {} decodes to {}", h, online, ts, hex(&topic), hex(p), shown),
            ),
        }
    }
    if !online {
        // the will registered by a host application is the same publish
        let w = LastWill::new_app(h, ts);
        if w.topic.as_bytes() != topic.as_slice() || w.payload != pay {
            out.fail("C13:faithful-state", "last-will", format!("LastWill::new_app({:?},{}) differs from the offline publish", h, ts));
        }
    }
}

// ---------- generators ----------

const GOOD_IDS: [&str; 30] = [
    "a", "G", "group 1", "state", "State", "STATE ", "STATEx", "NBIRTH", "DDATA", "spBv1.0", "N", "D", "é", "日本語",
    "😀", " ", "\u{0}", "x\u{7f}", "\u{12f}", "\u{2f00}", "\u{ff0f}", "\u{ff0b}", "\u{ff03}", "\u{2215}",
    "a\\b", "a\"b", "-", "~", "%2F", "\u{10ffff}",
];
const BAD_IDS: [&str; 14] = [
    "", "/", "+", "#", "a/b", "a+", "#x", "a/b+c#", "/STATE", "STATE/", "é/", "+é", "日#本", "//",
];

fn rand_char(rng: &mut Rng) -> char {
    loop {
        let c = match rng.below(12) {
            0..=4 => rng.range(0x20, 0x7E) as u32,
            5 => rng.range(0x80, 0x7FF) as u32,
            6 => rng.range(0x800, 0xFFFF) as u32,
            7 => rng.range(0x10000, 0x10FFFF) as u32,
            8 => rng.range(0, 0x1F) as u32,
            9 => *rng.pick(&[0x12f, 0x2f00, 0xff0f, 0x2b00, 0x2300, 0x22f, 0x7f, 0x80]),
            _ => *rng.pick(&['/' as u32, '+' as u32, '#' as u32]),
        };
        if let Some(ch) = char::from_u32(c) {
            return ch;
        }
    }
}

/// a random Rust string; `good` = accepted by name validation
fn rand_id(rng: &mut Rng, good: bool) -> String {
    if rng.chance(1, 4) {
        return if good { rng.pick(&GOOD_IDS).to_string() } else { rng.pick(&BAD_IDS).to_string() };
    }
    let hi = if rng.chance(1, 30) { 300 } else { 10 };
    let n = rng.range(1, hi);
    let mut s = String::new();
    for _ in 0..n {
        let mut c = rand_char(rng);
        while good && matches!(c, '/' | '+' | '#') {
            c = rand_char(rng);
        }
        s.push(c);
    }
    if !good && name_ok(&s) {
        let pos = rng.below(s.chars().count() as u64 + 1) as usize;
        let mut t: Vec<char> = s.chars().collect();
        t.insert(pos, *rng.pick(&['/', '+', '#']));
        s = t.into_iter().collect();
    }
    s
}

fn rand_payload(rng: &mut Rng) -> Payload {
    let mut p = Payload {
        timestamp: if rng.chance(3, 4) { Some(rng.next()) } else { None },
        metrics: vec![],
        seq: if rng.chance(3, 4) { Some(rng.below(256)) } else { None },
        uuid: if rng.chance(1, 6) { Some(rand_id(rng, true)) } else { None },
        body: if rng.chance(1, 6) { Some((0..rng.below(6)).map(|_| rng.next() as u8).collect()) } else { None },
    };
    for _ in 0..rng.below(4) {
        let value = match rng.below(9) {
            0 => Some(metric::Value::IntValue(rng.next() as u32)),
            1 => Some(metric::Value::LongValue(rng.next())),
            2 => Some(metric::Value::FloatValue((rng.next() as i32 as f32) / 7.0)),
            3 => Some(metric::Value::DoubleValue((rng.next() as i64 as f64) / 3.0)),
            4 => Some(metric::Value::BooleanValue(rng.chance(1, 2))),
            5 => {
                let good = rng.chance(1, 2);
                Some(metric::Value::StringValue(rand_id(rng, good)))
            }
            6 => Some(metric::Value::BytesValue((0..rng.below(9)).map(|_| rng.next() as u8).collect())),
            _ => None,
        };
        p.metrics.push(Metric {
            name: if rng.chance(2, 3) {
                let good = rng.chance(1, 2);
                Some(rand_id(rng, good))
            } else {
                None
            },
            alias: if rng.chance(1, 2) { Some(rng.next()) } else { None },
            timestamp: if rng.chance(1, 2) { Some(rng.next()) } else { None },
            datatype: if rng.chance(2, 3) { Some(rng.below(36) as u32) } else { None },
            is_historical: None,
            is_transient: if rng.chance(1, 8) { Some(true) } else { None },
            is_null: if value.is_none() { Some(true) } else { None },
            metadata: None,
            properties: None,
            value,
        });
    }
    p
}

/// a valid payload whose one metric carries a bytes value of `n` bytes
fn payload_with_bytes(n: usize) -> Vec<u8> {
    Payload {
        timestamp: Some(5),
        seq: Some(1),
        uuid: None,
        body: None,
        metrics: vec![Metric {
            name: Some("big".into()),
            alias: None,
            timestamp: Some(5),
            datatype: Some(17),
            is_historical: None,
            is_transient: None,
            is_null: None,
            metadata: None,
            properties: None,
            value: Some(metric::Value::BytesValue((0..n).map(|i| (i % 251) as u8).collect())),
        }],
    }
    .encode_to_vec()
}

const TS_EDGE: [u64; 22] = [
    0, 1, 9, 10, 11, 99, 100, 101, 255, 256, 65535, 999_999_999, 1_000_000_000, 1_700_000_000_000,
    4294967295, 4294967296, 9_999_999_999_999_999_999, 10_000_000_000_000_000_000,
    9223372036854775807, 9223372036854775808, 18446744073709551614, 18446744073709551615,
];

// ----- JSON text generators (for the certificate reader) -----

fn ws(rng: &mut Rng) -> &'static str {
    match rng.below(10) {
        0 => " ",
        1 => "\n",
        2 => "\t",
        3 => "\r",
        4 => "  \n",
        5 => "\u{b}", // vertical tab: not JSON whitespace
        _ => "",
    }
}

fn json_string(rng: &mut Rng) -> Vec<u8> {
    let mut s = vec![b'"'];
    for _ in 0..rng.below(6) {
        match rng.below(16) {
            0 => s.extend(b"\\n"),
            1 => s.extend(b"\\\""),
            2 => s.extend(b"\\\\"),
            3 => s.extend(b"\\/"),
            4 => s.extend(format!("\\u{:04x}", rng.below(0x10000)).as_bytes()),
            5 => s.extend(format!("\\u{:04X}\\u{:04x}", 0xD800 + rng.below(0x400), 0xDC00 + rng.below(0x400)).as_bytes()),
            6 => s.extend(format!("\\u{:04x}", 0xD800 + rng.below(0x800)).as_bytes()), // lone surrogate
            7 => s.extend(b"\\x"),                                                       // invalid escape
            8 => s.push(rng.below(0x20) as u8),                                          // control character
            9 => s.extend("é日😀".as_bytes()),
            10 => s.push(*rng.pick(&[0xffu8, 0xc3, 0x80, 0xed])),                        // invalid UTF-8
            11 => s.extend(b"\\u12"),
            _ => s.push(rng.range(0x20, 0x7e) as u8),
        }
    }
    s.push(b'"');
    s
}

fn json_number(rng: &mut Rng) -> Vec<u8> {
    let pool: [&str; 34] = [
        "0", "1", "7", "10", "123", "1700000000000", "18446744073709551615", "18446744073709551616",
        "18446744073709551620", "1844674407370955161", "184467440737095516150", "99999999999999999999999", "-1", "-0", "0.0",
        "1.5", "1e3", "1E3", "1e+3", "1e-3", "1.0e1", "00", "01", "1.", ".5", "1e", "1e+", "-", "+1", "0x10", "1_000",
        "9223372036854775808", "1e400", "0e0",
    ];
    if rng.chance(3, 4) {
        rng.pick(&pool).as_bytes().to_vec()
    } else {
        let mut s = String::new();
        if rng.chance(1, 8) {
            s.push('-');
        }
        for _ in 0..rng.range(1, 24) {
            s.push((b'0' + rng.below(10) as u8) as char);
        }
        s.into_bytes()
    }
}

fn json_value(rng: &mut Rng, depth: u32) -> Vec<u8> {
    let mut o = vec![];
    o.extend(ws(rng).as_bytes());
    let k = if depth == 0 { rng.below(6) } else { rng.below(9) };
    match k {
        0 => o.extend(b"null"),
        1 => o.extend(b"true"),
        2 => o.extend(b"false"),
        3 | 4 => o.extend(json_number(rng)),
        5 => o.extend(json_string(rng)),
        6 => {
            o.push(b'[');
            let n = rng.below(4);
            for i in 0..n {
                if i > 0 {
                    o.push(b',');
                }
                o.extend(json_value(rng, depth - 1));
            }
            if n > 0 && rng.chance(1, 12) {
                o.push(b',');
            }
            o.extend(ws(rng).as_bytes());
            o.push(b']');
        }
        7 => {
            o.push(b'{');
            let n = rng.below(4);
            for i in 0..n {
                if i > 0 {
                    o.push(b',');
                }
                o.extend(ws(rng).as_bytes());
                o.extend(json_string(rng));
                o.extend(ws(rng).as_bytes());
                o.push(if rng.chance(1, 20) { b'=' } else { b':' });
                o.extend(json_value(rng, depth - 1));
            }
            o.extend(ws(rng).as_bytes());
            o.push(b'}');
        }
        _ => o.extend(*rng.pick(&[&b"nul"[..], b"tru", b"True", b"nan", b"'x'", b"", b"]"])),
    }
    o.extend(ws(rng).as_bytes());
    o
}

fn cert_key(rng: &mut Rng, which: u32) -> Vec<u8> {
    let name: &str = match which {
        0 => "online",
        1 => "timestamp",
        _ => *rng.pick(&["x", "Online", "online ", "time", "timestamp2", "", "é", "bdSeq"]),
    };
    if which < 2 && rng.chance(1, 6) {
        // the same key written with escapes
        let mut s = vec![b'"'];
        for (i, b) in name.bytes().enumerate() {
            if i == (rng.below(name.len() as u64) as usize) || rng.chance(1, 4) {
                s.extend(format!("\\u{:04x}", b).as_bytes());
            } else {
                s.push(b);
            }
        }
        s.push(b'"');
        return s;
    }
    if which >= 2 && rng.chance(1, 5) {
        return json_string(rng);
    }
    let mut s = vec![b'"'];
    s.extend(name.as_bytes());
    s.push(b'"');
    s
}

/// a certificate-like JSON text: mostly well-formed, every rule of the reader hit often
fn cert_text(rng: &mut Rng) -> Vec<u8> {
    let mut o = vec![];
    o.extend(ws(rng).as_bytes());
    if rng.chance(1, 7) {
        // sequence form
        o.push(b'[');
        let n = *rng.pick(&[2u64, 2, 2, 2, 0, 1, 3]);
        for i in 0..n {
            if i > 0 {
                o.extend(ws(rng).as_bytes());
                o.push(b',');
            }
            o.extend(ws(rng).as_bytes());
            let swap = rng.chance(1, 8);
            if (i == 0) != swap {
                o.extend(json_number(rng));
            } else if rng.chance(5, 6) {
                o.extend(if rng.chance(1, 2) { &b"true"[..] } else { b"false" });
            } else {
                o.extend(json_value(rng, 1));
            }
        }
        if rng.chance(1, 10) {
            o.push(b',');
        }
        o.extend(ws(rng).as_bytes());
        o.push(b']');
    } else {
        let mut fields: Vec<u32> = vec![0, 1];
        if rng.chance(1, 8) {
            fields.remove(rng.below(2) as usize);
        }
        if rng.chance(1, 8) {
            fields.push(rng.below(2) as u32);
        }
        for _ in 0..*rng.pick(&[0u64, 0, 0, 1, 1, 2, 3]) {
            fields.push(2);
        }
        rng.shuffle(&mut fields);
        o.push(b'{');
        for (i, f) in fields.iter().enumerate() {
            if i > 0 {
                o.extend(ws(rng).as_bytes());
                o.push(b',');
            }
            o.extend(ws(rng).as_bytes());
            o.extend(cert_key(rng, *f));
            o.extend(ws(rng).as_bytes());
            o.push(b':');
            o.extend(ws(rng).as_bytes());
            match f {
                0 if rng.chance(7, 8) => o.extend(if rng.chance(1, 2) { &b"true"[..] } else { b"false" }),
                1 if rng.chance(7, 8) => o.extend(json_number(rng)),
                _ => o.extend(json_value(rng, 3)),
            }
        }
        if rng.chance(1, 12) {
            o.push(b',');
        }
        o.extend(ws(rng).as_bytes());
        o.push(b'}');
    }
    o.extend(ws(rng).as_bytes());
    if rng.chance(1, 12) {
        o.extend(*rng.pick(&[&b"x"[..], b"}", b"{}", b"1", b"\0"]));
    }
    o
}

fn mutate(rng: &mut Rng, b: &mut Vec<u8>, alphabet: &[u8]) {
    for _ in 0..rng.range(1, 3) {
        match rng.below(5) {
            0 if !b.is_empty() => {
                let i = rng.below(b.len() as u64) as usize;
                b[i] = if rng.chance(1, 2) { *rng.pick(alphabet) } else { rng.next() as u8 };
            }
            1 if !b.is_empty() => {
                let i = rng.below(b.len() as u64) as usize;
                b.remove(i);
            }
            2 => {
                let i = rng.below(b.len() as u64 + 1) as usize;
                b.insert(i, if rng.chance(2, 3) { *rng.pick(alphabet) } else { rng.next() as u8 });
            }
            3 if !b.is_empty() => {
                let k = rng.below(b.len() as u64) as usize;
                b.truncate(k);
            }
            _ => {
                if b.len() >= 2 {
                    let i = rng.below(b.len() as u64 - 1) as usize;
                    b.swap(i, i + 1);
                }
            }
        }
    }
}

const JSON_ALPHABET: [u8; 24] = [
    b'{', b'}', b'[', b']', b'"', b',', b':', b'0', b'1', b'9', b'-', b'.', b'e', b't', b'r', b'u', b'f', b'n', b'\\', b' ',
    b'\n', b'o', b'+', 0x00,
];

pub const RULE: &str = "names: every 1-character ASCII name, every name of length <= 3 over an 8-letter alphabet containing '/', '+', '#', multi-byte letters (exhaustive), fixed and random Unicode names (valid and invalid) through validate_name, EoNBuilder::build (incl. missing ids), register_device (incl. duplicates) and AppEventLoop::new; faithfulness: (group, node[, device]) triples over a fixed pool x all 8 verbs (exhaustive over the pool) and random Unicode ids with random protobuf payloads, host ids x online x boundary and random timestamps for STATE in both written forms and both last wills; receive path: every topic of <= Ls segments over a 12-segment alphabet (exhaustive) x 3 payload classes, every verb segment of length <= 2 in 4- and 5-segment topics (exhaustive), mutated valid topics (inserted/removed/duplicated segments, non-UTF-8 bytes, flipped bytes, truncations), random topics, with valid / truncated / random protobuf and JSON payloads; certificate reader: every byte string of length <= 3 over a 24-byte JSON alphabet (exhaustive), grammar-generated certificates (both key orders, duplicate / missing / unknown keys with nested values, escaped keys, sequence form, whitespace, number forms around 2^64), their mutations, random JSON values and deep nesting. Non-trivial = the case contains at least one request besides `new`; distinct = distinct op lines (hashed).";


/// C13, first sentence, on the topics a REAL edge node publishes on (not the ones the harness builds with the
/// constructors): for ids that look like Sparkplug words - group / node / device ids equal to message-type
/// names, to the namespace - every message a real EoN hands to its client, and its will, decodes to an
/// event with the same ids and the same message kind. No model line; direct oracle.
fn published_topics_scenario(out: &mut Out) {
    use crate::mock::{mock_pair, runtime, set_clocks, settle, Kind};
    use srad_eon::{EoNBuilder, MetricPublisher, NoMetricManager, SimpleMetricBuilder, SimpleMetricManager};
    let groups = ["g", "NDATA", "DDATA", "NBIRTH", "DBIRTH", "NDEATH", "DDEATH", "NCMD", "DCMD", "spBv1.0", "STATEx"];
    let nodes = ["n", "NDATA", "NBIRTH", "DDATA"];
    let devs = ["d", "DDATA", "DBIRTH", "NDATA"];
    out.begin_case("topic new", "ok");
    out.set_desc("published-topics".into());
    for g in groups {
        for (k, n) in nodes.iter().enumerate() {
            let d = devs[k % devs.len()];
            let rt = runtime();
            let (hub, client, el, feeder) = mock_pair();
            let built = {
                let _in = rt.enter();
                catch(AssertUnwindSafe(|| {
                    let nm = SimpleMetricManager::new();
                    let nmetric = nm.register_metric(SimpleMetricBuilder::new("m", 1i32));
                    EoNBuilder::new(el, client).with_group_id(g).with_node_id(*n).with_metric_manager(nm.clone()).build().map(|x| (x, (nm, nmetric)))
                }))
            };
            let ((eon, node), (nm, nmetric)) = match built {
                Ok(Ok(x)) => x,
                _ => continue,
            };
            rt.block_on(async {
                set_clocks(1_000_000);
                tokio::spawn(async move { eon.run().await });
                let dm = SimpleMetricManager::new();
                let dmetric = dm.register_metric(SimpleMetricBuilder::new("m", 1i32));
                let dh = node.register_device(d, dm.clone());
                feeder.push(Event::Online);
                settle().await;
                if let Ok(dh) = &dh {
                    dh.enable();
                    settle().await;
                    dh.rebirth();
                    settle().await;
                    // data through the library's own SimpleMetricManager: NDATA and DDATA topics
                    if let Some(m) = &nmetric {
                        let _ = nm.publish_metric(m.update(|v| *v += 1)).await;
                    }
                    if let Some(m) = &dmetric {
                        let _ = dm.publish_metric(m.update(|v| *v += 1)).await;
                    }
                    settle().await;
                }
                node.rebirth();
                settle().await;
                if let Ok(dh) = &dh {
                    dh.disable();
                    settle().await;
                }
                feeder.push(Event::Offline);
                settle().await;
                feeder.push(Event::Online);
                settle().await;
                node.cancel().await;
                settle().await;
            });
            drop(rt);
            let mut seen = std::collections::BTreeSet::new();
            for c in hub.calls() {
                let want = match c.kind {
                    Kind::NBirth => Some((MessageKind::Birth, false)),
                    Kind::NDeath => Some((MessageKind::Death, false)),
                    Kind::NData => Some((MessageKind::Data, false)),
                    Kind::DBirth => Some((MessageKind::Birth, true)),
                    Kind::DDeath => Some((MessageKind::Death, true)),
                    Kind::DData => Some((MessageKind::Data, true)),
                    _ => None,
                };
                let (Some((kind, is_dev)), Some(p)) = (want, c.payload.clone()) else { continue };
                seen.insert(c.kind.name());
                let ev = catch(AssertUnwindSafe(|| topic_and_payload_to_event(c.topic.clone().into_bytes(), p.encode_to_vec().into())));
                let ok = match &ev {
                    Ok(Event::Node(m)) => !is_dev && m.group_id == g && m.node_id == *n && m.message.kind == kind,
                    Ok(Event::Device(m)) => is_dev && m.group_id == g && m.node_id == *n && m.device_id == d && m.message.kind == kind,
                    _ => false,
                };
                if !ok {
                    out.fail(
                        "C13:published-topic-decodes",
                        &format!("{}:group={}:node={}", c.kind.name(), g, n),
                        format!("a real edge node (group {:?}, node {:?}, device {:?}) published its {} on `{}`, which decodes to {:?}", g, n, d, c.kind.name(), c.topic, ev.as_ref().map(|e| crate::mock::event_name(e))),
                    );
                }
            }
            out.count(&format!("published-topics:kinds-seen:{}", seen.len()));
        }
    }
    out.nontrivial();
    out.count("published-topics");
}

pub fn run(args: &Args, out: &mut Out) -> &'static str {
    let mut rng = Rng::new(args.seed);
    let th = args.thorough();
    published_topics_scenario(out);

    // ---- 1. name validation and constructors ----
    {
        let mut ops = vec![];
        for c in 0u8..128 {
            ops.push(format!("topic vname {}", hex(&[c])));
        }
        batch(out, &ops, "names:ascii-1");
        let alpha = ["a", "/", "+", "#", "é", " ", "\u{ff0f}", "S"];
        let mut ops = vec!["topic vname -".to_string()];
        for l in 1..=3u32 {
            for k in 0..8usize.pow(l) {
                let mut x = k;
                let mut s = String::new();
                for _ in 0..l {
                    s.push_str(alpha[x % 8]);
                    x /= 8;
                }
                ops.push(format!("topic vname {}", hex(s.as_bytes())));
            }
        }
        batch(out, &ops, "names:alphabet<=3");
        out.exhaustive.push("validate_name: every 1-byte name; every name of length <= 3 over {a / + # é space ／ S}".into());
        let mut ops = vec![];
        for s in GOOD_IDS.iter().chain(BAD_IDS.iter()) {
            ops.push(format!("topic vname {}", hex(s.as_bytes())));
        }
        for _ in 0..(if th { 20000 } else { 3000 }) {
            let good = rng.chance(1, 2);
            ops.push(format!("topic vname {}", hex(rand_id(&mut rng, good).as_bytes())));
        }
        batch(out, &ops, "names:unicode");
        // constructors: the whole fixed pool in each position, missing ids, random ids
        let pool: Vec<&str> = GOOD_IDS.iter().chain(BAD_IDS.iter()).cloned().collect();
        let mut ops = vec!["topic build ~ ~".to_string(), format!("topic build {} ~", hex(b"G")), format!("topic build ~ {}", hex(b"N"))];
        for a in &pool {
            ops.push(format!("topic build {} {}", hex(a.as_bytes()), hex(b"N")));
            ops.push(format!("topic build {} {}", hex(b"G"), hex(a.as_bytes())));
            ops.push(format!("topic build {} ~", hex(a.as_bytes())));
            ops.push(format!("topic regdev {}", hex(a.as_bytes())));
            ops.push(format!("topic regdev2 {} {}", hex(a.as_bytes()), hex(a.as_bytes())));
            ops.push(format!("topic regdev2 {} {}", hex(b"dev"), hex(a.as_bytes())));
            ops.push(format!("topic app {}", hex(a.as_bytes())));
        }
        for a in BAD_IDS {
            for b in BAD_IDS {
                ops.push(format!("topic build {} {}", hex(a.as_bytes()), hex(b.as_bytes())));
            }
        }
        batch(out, &ops, "ctor:pool");
        out.exhaustive.push("constructors: every pool id (30 valid, 14 invalid) in every id position of build / register_device / AppEventLoop::new; all invalid x invalid pairs".into());
        let mut ops = vec![];
        for _ in 0..(if th { 4000 } else { 500 }) {
            let good = rng.chance(2, 3);
            let g = rand_id(&mut rng, good);
            let good = rng.chance(2, 3);
            let n = rand_id(&mut rng, good);
            ops.push(match rng.below(4) {
                0 => format!("topic build {} {}", hex(g.as_bytes()), hex(n.as_bytes())),
                1 => format!("topic regdev {}", hex(g.as_bytes())),
                2 => format!("topic regdev2 {} {}", hex(g.as_bytes()), hex(if rng.chance(1, 3) { g.as_bytes() } else { n.as_bytes() })),
                _ => format!("topic app {}", hex(g.as_bytes())),
            });
        }
        batch(out, &ops, "ctor:random");
    }

    // ---- 2. faithfulness ----
    {
        // the fixed pool: every (group, node) pair x 4 node verbs; every group x node x device over a sub-pool x 4 device verbs
        for g in GOOD_IDS {
            for n in GOOD_IDS {
                let p = rand_payload(&mut rng);
                for v in VERBS {
                    faithful_node(out, v, g, n, &p);
                }
            }
        }
        let sub: Vec<&str> = GOOD_IDS.iter().step_by(if th { 1 } else { 3 }).cloned().collect();
        for g in &sub {
            for n in &sub {
                for d in &sub {
                    let p = rand_payload(&mut rng);
                    for v in VERBS {
                        faithful_device(out, v, g, n, d, &p);
                    }
                }
            }
        }
        out.exhaustive.push(format!("faithfulness: all 30x30 (group,node) pairs of the id pool x 4 node verbs; all {}^3 (group,node,device) triples of a sub-pool x 4 device verbs", sub.len()));
        // group id STATE and invalid ids: outside the claim, still compared with the model
        for v in VERBS {
            faithful_node(out, v, "STATE", "n", &Payload::default());
            faithful_device(out, v, "STATE", "n", "d", &Payload::default());
            faithful_node(out, v, "a/b", "n", &Payload::default());
            faithful_device(out, v, "g", "n", "d/e", &Payload::default());
        }
        for _ in 0..(if th { 30000 } else { 4000 }) {
            let (g, n, d) = (rand_id(&mut rng, true), rand_id(&mut rng, true), rand_id(&mut rng, true));
            let p = rand_payload(&mut rng);
            let v = *rng.pick(&VERBS);
            if rng.chance(1, 2) {
                faithful_node(out, v, &g, &n, &p);
            } else {
                faithful_device(out, v, &g, &n, &d, &p);
            }
        }
        for h in GOOD_IDS {
            for ts in TS_EDGE {
                faithful_state(out, h, true, ts);
                faithful_state(out, h, false, ts);
            }
        }
        for _ in 0..(if th { 20000 } else { 3000 }) {
            let h = rand_id(&mut rng, true);
            let ts = match rng.below(4) {
                0 => rng.next(),
                1 => rng.next() >> rng.below(64),
                2 => 10u64.pow(rng.below(20) as u32).wrapping_add(rng.below(3)).wrapping_sub(1),
                _ => *rng.pick(&TS_EDGE),
            };
            faithful_state(out, &h, rng.chance(1, 2), ts);
        }
        faithful_state(out, "a/b", true, 5);
        faithful_state(out, "", false, 5);
    }

    // ---- 3. the receive path on arbitrary topics ----
    let good_pb: Vec<u8> = Payload { timestamp: Some(7), metrics: vec![], seq: Some(1), uuid: None, body: None }.into();
    let cert: Vec<u8> = StatePayload::Online { timestamp: 42 }.into();
    let payload_classes: [Vec<u8>; 3] = [good_pb.clone(), cert.clone(), vec![0xff, 0xff]];
    {
        let segs: [&[u8]; 12] = [b"", b"spBv1.0", b"STATE", b"G", b"NBIRTH", b"DDATA", b"NX", b"D", b"\xff", "é".as_bytes(), b"DCMD\xc3", b"XDATA"];
        let ls = if th { 6 } else { 5 };
        for l in 1..=ls {
            let total = 12usize.pow(l as u32);
            let mut ops = vec![];
            for k in 0..total {
                let mut x = k;
                let mut t: Vec<u8> = vec![];
                for i in 0..l {
                    if i > 0 {
                        t.push(b'/');
                    }
                    t.extend(segs[x % 12]);
                    x /= 12;
                }
                if l <= 4 {
                    for p in &payload_classes {
                        ops.push(parse_op(&t, p));
                    }
                } else {
                    ops.push(parse_op(&t, &payload_classes[k % 3]));
                }
                if ops.len() >= 3000 {
                    batch(out, &ops, "parse:segment-alphabet");
                    ops.clear();
                }
            }
            batch(out, &ops, "parse:segment-alphabet");
        }
        batch(out, &[parse_op(b"", b""), parse_op(b"", &good_pb), parse_op(b"/", &good_pb)], "parse:segment-alphabet");
        out.exhaustive.push(format!("receive path: every topic of 1..={} segments over 12 segment values (empty, spBv1.0, STATE, G, NBIRTH, DDATA, NX, D, ff, é, DCMD+c3, XDATA); x 3 payload classes up to 4 segments", ls));
        // every verb segment of length <= 2, in a 4- and a 5-segment topic
        let mut ops = vec![];
        let mut vsegs: Vec<Vec<u8>> = vec![vec![]];
        for a in 0..=255u8 {
            vsegs.push(vec![a]);
        }
        for a in 0..=255u8 {
            for b in 0..=255u8 {
                if th || a == b'N' || a == b'D' || (a as u32 * 257 + b as u32) % 5 == 0 {
                    vsegs.push(vec![a, b]);
                }
            }
        }
        for seg in vsegs {
            let mut t4 = b"spBv1.0/G/".to_vec();
            t4.extend(&seg);
            t4.extend(b"/n");
            let mut t5 = t4.clone();
            t5.extend(b"/d");
            ops.push(parse_op(&t4, &good_pb));
            ops.push(parse_op(&t5, &good_pb));
            if ops.len() >= 3000 {
                batch(out, &ops, "parse:verb-segment<=2");
                ops.clear();
            }
        }
        batch(out, &ops, "parse:verb-segment<=2");
        out.exhaustive.push("receive path: every verb segment of length <= 1 and every 2-byte verb segment starting with N or D (thorough: every 2-byte segment), in 4- and 5-segment topics".into());
        // known verbs with prefixes / suffixes / case changes
        let mut ops = vec![];
        for v in ["NBIRTH", "NDEATH", "NDATA", "NCMD", "DBIRTH", "DDEATH", "DDATA", "DCMD"] {
            for variant in [
                v.to_string(), v.to_lowercase(), format!("{}X", v), format!(" {}", v), format!("{} ", v), v[1..].to_string(),
                format!("N{}", v), format!("{}é", v), v[..v.len() - 1].to_string(), format!("S{}", &v[1..]),
            ] {
                for tail in ["n", "n/d", "n/d/e", "", "n/", "/n"] {
                    let t = format!("spBv1.0/G/{}/{}", variant, tail);
                    for p in &payload_classes {
                        ops.push(parse_op(t.as_bytes(), p));
                    }
                }
                ops.push(parse_op(format!("spBv1.0/G/{}", variant).as_bytes(), &good_pb));
            }
        }
        batch(out, &ops, "parse:verb-variants");
    }
    // mutated valid topics and payloads
    {
        let n_mut = if th { 120000 } else { 20000 };
        let mut ops = vec![];
        for _ in 0..n_mut {
            let good = rng.chance(5, 6);
            let g = rand_id(&mut rng, good);
            let good = rng.chance(5, 6);
            let n = rand_id(&mut rng, good);
            let good = rng.chance(5, 6);
            let d = rand_id(&mut rng, good);
            let v = *rng.pick(&VERBS);
            let (mut topic, mut payload): (Vec<u8>, Vec<u8>) = match rng.below(5) {
                0 | 1 => (NodeTopic::new(&g, node_verb(v), &n).topic.into_bytes(), rand_payload(&mut rng).into()),
                2 | 3 => (DeviceTopic::new(&g, dev_verb(v), &n, &d).topic.into_bytes(), rand_payload(&mut rng).into()),
                _ => (
                    StateTopic::new_host(&g).topic.into_bytes(),
                    if rng.chance(1, 2) { StatePayload::Online { timestamp: rng.next() }.into() } else { cert_text(&mut rng) },
                ),
            };
            match rng.below(10) {
                0 => {
                    // insert a segment
                    let mut segs: Vec<Vec<u8>> = topic.split(|c| *c == b'/').map(|s| s.to_vec()).collect();
                    let i = rng.below(segs.len() as u64 + 1) as usize;
                    segs.insert(i, rng.pick(&[&b"x"[..], b"", b"STATE", b"NBIRTH", b"\xfe"]).to_vec());
                    topic = segs.join(&b'/');
                    out.count("mutation:segment-inserted");
                }
                1 => {
                    let mut segs: Vec<Vec<u8>> = topic.split(|c| *c == b'/').map(|s| s.to_vec()).collect();
                    let i = rng.below(segs.len() as u64) as usize;
                    segs.remove(i);
                    topic = segs.join(&b'/');
                    out.count("mutation:segment-removed");
                }
                2 => {
                    let mut segs: Vec<Vec<u8>> = topic.split(|c| *c == b'/').map(|s| s.to_vec()).collect();
                    let i = rng.below(segs.len() as u64) as usize;
                    let j = rng.below(segs.len() as u64) as usize;
                    segs.swap(i, j);
                    topic = segs.join(&b'/');
                    out.count("mutation:segments-swapped");
                }
                3 => {
                    let i = rng.below(topic.len() as u64 + 1) as usize;
                    topic.insert(i, *rng.pick(&[0xffu8, 0xc0, 0x80, 0xf8, 0xed, 0xc3]));
                    out.count("mutation:non-utf8-byte");
                }
                4 => {
                    mutate(&mut rng, &mut topic, b"/NDSTATEBIRH+#");
                    out.count("mutation:topic-bytes");
                }
                5 => {
                    let k = rng.below(payload.len() as u64 + 1) as usize;
                    payload.truncate(k);
                    out.count("mutation:payload-truncated");
                }
                6 => {
                    mutate(&mut rng, &mut payload, &JSON_ALPHABET);
                    out.count("mutation:payload-bytes");
                }
                7 => {
                    payload = (0..rng.below(24)).map(|_| rng.next() as u8).collect();
                    out.count("mutation:payload-random");
                }
                8 => {
                    let k = rng.below(topic.len() as u64 + 1) as usize;
                    topic.truncate(k);
                    out.count("mutation:topic-truncated");
                }
                _ => out.count("mutation:none"),
            }
            ops.push(parse_op(&topic, &payload));
            if ops.len() >= 2000 {
                batch(out, &ops, "parse:mutated");
                ops.clear();
            }
        }
        batch(out, &ops, "parse:mutated");
        let mut ops = vec![];
        for _ in 0..(if th { 60000 } else { 10000 }) {
            let n = rng.below(30);
            let topic: Vec<u8> = (0..n)
                .map(|_| if rng.chance(1, 4) { b'/' } else if rng.chance(1, 3) { *rng.pick(b"NDSTATEBIRHCM") } else { rng.next() as u8 })
                .collect();
            let payload: Vec<u8> = if rng.chance(1, 2) { good_pb.clone() } else { (0..rng.below(12)).map(|_| rng.next() as u8).collect() };
            ops.push(parse_op(&topic, &payload));
            if ops.len() >= 2000 {
                batch(out, &ops, "parse:random");
                ops.clear();
            }
        }
        batch(out, &ops, "parse:random");
    }

    // ---- 4. the certificate reader against serde_json ----
    {
        let lj = 3;
        let mut ops = vec!["topic cert -".to_string()];
        for l in 1..=lj {
            for k in 0..JSON_ALPHABET.len().pow(l) {
                let mut x = k;
                let mut s = vec![];
                for _ in 0..l {
                    s.push(JSON_ALPHABET[x % JSON_ALPHABET.len()]);
                    x /= JSON_ALPHABET.len();
                }
                ops.push(format!("topic cert {}", hex(&s)));
                if ops.len() >= 3000 {
                    batch(out, &ops, "cert:alphabet<=3");
                    ops.clear();
                }
            }
        }
        batch(out, &ops, "cert:alphabet<=3");
        out.exhaustive.push("certificate reader: every byte string of length <= 3 over a 24-byte JSON alphabet".into());
        // every 1-byte edit of the two canonical certificates
        let mut ops = vec![];
        for base in [Vec::<u8>::from(StatePayload::Offline { timestamp: 1700000000000 }), Vec::<u8>::try_from(StateBirthDeathCertificate { timestamp: 90, online: true }).unwrap()] {
            for i in 0..=base.len() {
                for c in JSON_ALPHABET {
                    let mut b = base.clone();
                    b.insert(i, c);
                    ops.push(format!("topic cert {}", hex(&b)));
                    if i < base.len() {
                        let mut b = base.clone();
                        b[i] = c;
                        ops.push(format!("topic cert {}", hex(&b)));
                    }
                }
                if i < base.len() {
                    let mut b = base.clone();
                    b.remove(i);
                    ops.push(format!("topic cert {}", hex(&b)));
                    ops.push(format!("topic cert {}", hex(&base[..i])));
                }
            }
        }
        batch(out, &ops, "cert:single-edits");
        // long undecodable certificates: every length 0..=300 of ASCII filler followed by a multi-byte
        // character / an invalid byte / more filler, bare and inside JSON shapes the reader gets far into -
        // the error branch must stay an error whatever it does with the rejected bytes
        let mut ops = vec![];
        let state_topic = hex(StateTopic::new_host("h").topic.as_bytes());
        let tails: [&[u8]; 6] = ["\u{e9}".as_bytes(), "\u{20ac}".as_bytes(), "\u{1f600}".as_bytes(), b"\xff", b"\xc3", b"zz"];
        for k in 0..=300usize {
            for (ti, tail) in tails.iter().enumerate() {
                let filler = vec![b'a' + (k % 7) as u8; k];
                let mut bare = filler.clone();
                bare.extend_from_slice(tail);
                bare.extend_from_slice(b"tail");
                let mut shapes: Vec<Vec<u8>> = vec![bare];
                if (k + ti) % 3 == 0 {
                    let mut v = b"{\"online\":true,\"timestamp\":1,\"x\":\"".to_vec();
                    v.extend_from_slice(&filler);
                    v.extend_from_slice(tail);
                    v.extend_from_slice(b"\"");
                    shapes.push(v.clone());
                    v.extend_from_slice(b"}");
                    shapes.push(v);
                    let mut v = b"{\"online\":1".to_vec();
                    v.extend_from_slice(&filler);
                    v.extend_from_slice(tail);
                    shapes.push(v);
                }
                for b in shapes {
                    ops.push(format!("topic cert {}", hex(&b)));
                    ops.push(format!("topic parse {} {} {}", state_topic, hex(&b), decodes(&b) as u8));
                }
            }
        }
        batch(out, &ops, "cert:long-undecodable");
        // BIG publishes (MQTT allows 256 MiB): sizes around powers of two up to 1 MiB + 1 on every path that
        // ends in an invalid event (undecodable protobuf on node / device verbs, a shapeless topic, a STATE
        // payload that is no certificate) and on the valid paths (a payload whose one metric carries a big
        // bytes value; a certificate with a long ignored member): whatever the receive path does with big
        // inputs, an invalid event carries the original bytes and a valid one the same payload
        let mut ops = vec![];
        let sizes: &[usize] = if th {
            &[4095, 4096, 4097, 16383, 16384, 16385, 32767, 32768, 32769, 65534, 65535, 65536, 65537, 65538, 131071, 131072, 131073, 262144, 262145, 1048575, 1048576, 1048577]
        } else {
            &[4096, 4097, 16385, 32769, 65535, 65536, 65537, 131073, 262145, 1048577]
        };
        let big_topics: Vec<Vec<u8>> = vec![
            NodeTopic::new("g", NodeMessage::NData, "n").topic.into_bytes(),
            DeviceTopic::new("g", DeviceMessage::DBirth, "n", "d").topic.into_bytes(),
            StateTopic::new_host("h").topic.into_bytes(),
            b"spBv1.0/g".to_vec(),
            b"other/g/NDATA/n".to_vec(),
        ];
        for (si, &sz) in sizes.iter().enumerate() {
            // (1) undecodable: 0xff filler (an invalid protobuf key whatever follows)
            let junk = vec![0xffu8; sz];
            // (2) truncated valid payload: a big bytes metric cut one byte short
            let mut p = payload_with_bytes(sz);
            let valid = p.clone();
            p.pop();
            // (3) not-a-certificate JSON of that size
            let mut notcert = b"{\"online\":1,\"x\":\"".to_vec();
            notcert.extend(std::iter::repeat(b'a').take(sz));
            // (4) a certificate with a long ignored member
            let mut cert = b"{\"online\":true,\"timestamp\":7,\"x\":\"".to_vec();
            cert.extend(std::iter::repeat(b'b').take(sz));
            cert.extend_from_slice(b"\"}");
            for (ti, t) in big_topics.iter().enumerate() {
                // every (topic, body) pair for the boundary sizes, a rotating selection for the rest
                let all = (65535..=65537).contains(&sz);
                for (bi, b) in [&junk, &p, &valid, &notcert, &cert].into_iter().enumerate() {
                    if all || (si + ti + bi) % 3 == 0 {
                        out.count("big-publish");
                        ops.push(parse_op(t, b));
                    }
                }
            }
        }
        batch(out, &ops, "big-publishes");
        out.exhaustive.push("certificate reader: every single insertion / replacement (24-byte alphabet), deletion and truncation of the two canonical certificates".into());
        let mut ops = vec![];
        for _ in 0..(if th { 150000 } else { 25000 }) {
            let mut t = cert_text(&mut rng);
            let class = match rng.below(5) {
                0 => {
                    mutate(&mut rng, &mut t, &JSON_ALPHABET);
                    "cert:mutated"
                }
                1 => {
                    t = json_value(&mut rng, 4);
                    "cert:random-json-value"
                }
                _ => "cert:grammar",
            };
            out.count(class);
            ops.push(format!("topic cert {}", hex(&t)));
            if ops.len() >= 2000 {
                batch(out, &ops, "cert:generated");
                ops.clear();
            }
        }
        // deep nesting in an ignored value and at the top level
        for depth in [1usize, 2, 126, 127, 128, 129, 200, 3000] {
            for (open, close) in [("[", "]"), ("{\"a\":", "}")] {
                let mut t = b"{\"x\":".to_vec();
                for _ in 0..depth {
                    t.extend(open.as_bytes());
                }
                t.extend(b"1");
                for _ in 0..depth {
                    t.extend(close.as_bytes());
                }
                t.extend(b",\"online\":true,\"timestamp\":3}");
                ops.push(format!("topic cert {}", hex(&t)));
                let mut t2 = vec![];
                for _ in 0..depth {
                    t2.extend(open.as_bytes());
                }
                ops.push(format!("topic cert {}", hex(&t2)));
            }
        }
        batch(out, &ops, "cert:generated");
    }
    RULE
}

pub fn replay(desc: &str, lines: &[String], out: &mut Out) {
    let w: Vec<&str> = desc.split(' ').collect();
    match w.as_slice() {
        ["fnode", v, g, n, p] => {
            let payload = Payload::decode(unhex(p).as_slice()).expect("replay payload");
            faithful_node(out, v, &utf8(g), &utf8(n), &payload);
            return;
        }
        ["fdev", v, g, n, d, p] => {
            let payload = Payload::decode(unhex(p).as_slice()).expect("replay payload");
            faithful_device(out, v, &utf8(g), &utf8(n), &utf8(d), &payload);
            return;
        }
        ["fstate", h, o, ts] => {
            faithful_state(out, &utf8(h), *o == "1", ts.parse().unwrap());
            return;
        }
        _ => {}
    }
    let mut first = true;
    for l in lines {
        let a = exec(l, out);
        if first {
            out.begin_case(l, &a);
            first = false;
        } else {
            out.line(l, &a);
        }
    }
    out.nontrivial();
}

// ---------- T-table ----------

fn lean_bytes(b: &[u8]) -> String {
    format!("[{}]", b.iter().map(|x| format!("0x{:02x}", x)).collect::<Vec<_>>().join(", "))
}

fn lean_class(topic: &[u8], payload: &[u8]) -> String {
    match run_parse(topic, payload) {
        Err(_) => "EvClass.panic".into(),
        Ok(Event::Node(m)) => format!("EvClass.node ({})", lean_kind(&m.message.kind)),
        Ok(Event::Device(m)) => format!("EvClass.device ({})", lean_kind(&m.message.kind)),
        Ok(Event::State { .. }) => "EvClass.state".into(),
        Ok(Event::InvalidPublish { reason, topic: t, payload: p }) => {
            if t == topic && p == payload {
                format!("EvClass.invalid Reason.{}", show_reason(&reason))
            } else {
                "EvClass.panic".into() // bytes altered: no such class in the model
            }
        }
        Ok(_) => "EvClass.panic".into(),
    }
}

fn lean_kind(k: &MessageKind) -> String {
    match k {
        MessageKind::Birth => "Kind.birth".into(),
        MessageKind::Death => "Kind.death".into(),
        MessageKind::Data => "Kind.data".into(),
        MessageKind::Cmd => "Kind.cmd".into(),
        MessageKind::Other(s) => format!("Kind.other {}", lean_bytes(s.as_bytes())),
    }
}

/// T-table `TopicTable`: (a) the eight publishing verbs through the real builders (topic bytes
/// for ids G / n / d, QoS, retain) and what the real parser makes of that topic; (b) the verb
/// classification of the parser: every verb segment of length <= 1, every 2-byte segment
/// starting with N or D, and variants of the known verbs, in a 4- and a 5-segment topic.
/// Payload: empty (decodes as the default protobuf payload).
pub fn table_topic() -> String {
    let mut s = String::from("-- GENERATED by `srad-verif table TopicTable` from the compiled srad-types / srad-client; do not edit.\nimport SradModel.Model.Topic\nnamespace Srad.Generated\nopen Srad.Topic\n\n/-- (is device verb, verb, topic built by NodeTopic::new(\"G\",v,\"n\") / DeviceTopic::new(\"G\",v,\"n\",\"d\"),\n    QoS is at-least-once, retain, class of topic_and_payload_to_event(topic, empty payload)) -/\ndef verbTable : List (Bool × Verb × List UInt8 × Bool × Bool × EvClass) := [\n");
    let mut rows = vec![];
    for v in VERBS {
        let t = NodeTopic::new("G", node_verb(v), "n");
        let (q, r) = t.get_publish_quality_retain();
        rows.push(format!(
            "  (false, Verb.{}, {}, {}, {}, {})",
            v,
            lean_bytes(t.topic.as_bytes()),
            q == QoS::AtLeastOnce,
            r,
            lean_class(t.topic.as_bytes(), b"")
        ));
    }
    for v in VERBS {
        let t = DeviceTopic::new("G", dev_verb(v), "n", "d");
        let (q, r) = t.get_publish_quality_retain();
        rows.push(format!(
            "  (true, Verb.{}, {}, {}, {}, {})",
            v,
            lean_bytes(t.topic.as_bytes()),
            q == QoS::AtLeastOnce,
            r,
            lean_class(t.topic.as_bytes(), b"")
        ));
    }
    s.push_str(&rows.join(",\n"));
    s.push_str("\n]\n\n/-- (verb segment, class for spBv1.0/G/<segment>/n, class for spBv1.0/G/<segment>/n/d), empty payload -/\ndef segTable : List (List UInt8 × EvClass × EvClass) := [\n");
    let mut segs: Vec<Vec<u8>> = vec![vec![]];
    for a in 0..=255u8 {
        segs.push(vec![a]);
    }
    for a in [b'N', b'D'] {
        for b in 0..=255u8 {
            segs.push(vec![a, b]);
        }
    }
    for v in ["NBIRTH", "NDEATH", "NDATA", "NCMD", "DBIRTH", "DDEATH", "DDATA", "DCMD"] {
        for variant in [
            v.to_string(), v.to_lowercase(), format!("{}X", v), format!(" {}", v), format!("{} ", v), v[1..].to_string(),
            format!("N{}", v), format!("D{}", v), v[..v.len() - 1].to_string(), format!("S{}", &v[1..]),
        ] {
            segs.push(variant.into_bytes());
        }
    }
    segs.push(b"STATE".to_vec());
    segs.push(b"NSTATE".to_vec());
    let mut rows = vec![];
    for seg in segs {
        let mut t4 = b"spBv1.0/G/".to_vec();
        t4.extend(&seg);
        t4.extend(b"/n");
        let mut t5 = t4.clone();
        t5.extend(b"/d");
        rows.push(format!("  ({}, {}, {})", lean_bytes(&seg), lean_class(&t4, b""), lean_class(&t5, b"")));
    }
    s.push_str(&rows.join(",\n"));
    s.push_str("\n]\n\nend Srad.Generated\n");
    s
}
