# Per-property wording for MANIFEST.json (data in manifest_text.json).
import json, os
_d = json.load(open(os.path.join(os.path.dirname(os.path.abspath(__file__)), "manifest_text.json")))
LEVEL = _d["LEVEL"]
NOT_YET = _d["NOT_YET"]
