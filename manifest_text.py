# Per-property wording for MANIFEST.json (level text, trusted base note, technique).
NOTE_COMMON = ("Trusted: Lean 4.33 kernel (axioms per theorem audited each run: only propext, Classical.choice, Quot.sound; "
               "no native_decide/bv_decide/sorry), the hand-written model as a reading of the Rust, tied to /repo only by the "
               "differential correspondence on the inputs explored per run (exhaustive where stated in evidence) ")
LEVEL = {
    "C09": {
        "text": "Kernel-checked theorems about the resequencer model: for every start value, every run length <= 256 and every permutation the run is released exactly once in order and the buffer ends empty (C09_contiguous); for every call sequence: reachable-state invariant, drain never panics, each release carries the expected number and advances it by one, multiset conservation of inputs. The model is tied to srad-app/src/resequencer.rs on every run by executing the real Resequencer<u32> and the model on the same call sequences (all permutations of short runs from all 256 starts, all short call sequences, random long ones).",
        "note": NOTE_COMMON + "and BTreeMap as an ordered map.",
        "technique": "Lean 4 proof by invariant/induction over an executable model + differential correspondence with the compiled code",
        "design_ref": "DESIGN.md section 7 (C09)",
    },
    "C10": {
        "text": "Kernel-checked round-trip and encoded-form theorems for every value of the 13 scalar types (as bit patterns) in the protobuf variants used by all four wrapper kinds, for fixed-width arrays of every length, boolean arrays of every length < 2^32 and bit pattern, NUL-free string arrays, and datatype-directed decoding (variant named by the datatype, same value). The try_from_metric_value decision table is regenerated from the compiled crate each run and proved equal to the model by `decide +kernel`; everything else is tied to value.rs by differential execution.",
        "note": NOTE_COMMON + "plus the table extractor; Rust integer casts / to_le_bytes / String::from_utf8 as modelled.",
        "technique": "Lean 4 proof (induction, decide over regenerated table) + differential correspondence with the compiled code",
        "design_ref": "DESIGN.md section 7 (C10)",
    },
    "C19": {
        "text": "Kernel-checked totality (the explicit panic outcome is unreachable), allocation-bound and length-exactness theorems for all array decoders and datatype-directed decoding over arbitrary byte strings; tied to the Rust decoders by exhaustive short byte strings into all 13 decoders, structured count/length mismatches and mutated inputs under catch_unwind with capacity checks.",
        "note": NOTE_COMMON + "; decoders of property sets, template values, command payloads and STATE JSON are covered as their models are added.",
        "technique": "Lean 4 proof (panic-as-outcome model, induction) + differential correspondence with the compiled code",
        "design_ref": "DESIGN.md section 7 (C19)",
    },
}
NOT_YET = {}
