#!/usr/bin/env python3
"""Regenerate MANIFEST.json from checkcfg.py + manifest_text.py (kept valid at all times)."""
import json, os, sys
ROOT = os.path.dirname(os.path.abspath(__file__))
sys.path.insert(0, ROOT)
from checkcfg import PROPS
from manifest_text import LEVEL, NOT_YET

props = [json.loads(l) for l in open(os.path.join(ROOT, "properties.jsonl"))]
checks = []
for p in props:
    pid = p["id"]
    if pid not in PROPS:
        continue
    lv = LEVEL[pid]
    checks.append({
        "property_id": pid,
        "quick_cmd": "./check %s --tier quick" % pid,
        "thorough_cmd": "./check %s --tier thorough" % pid,
        "evidence_file": "evidence/%s.json" % pid,
        "replay_cmd_template": "./check %s --replay {path}" % pid,
        "engine": "lean4-proof+correspondence",
        "level_claimed": {"category": "proof", "text": lv["text"], "design_ref": lv.get("design_ref", "DESIGN.md section 7")},
        "level_note": lv["note"],
        "technique": lv["technique"],
    })
m = {
    "version": 1,
    "setup_cmd": "./check --setup",
    "hooks": {
        "guard": "verif-hooks",
        "enable": "cargo feature `verif-hooks` on srad-types (thread-local mock clock for srad_types::utils::timestamp() and a mock wall clock), forwarded by srad-app and srad-eon (the two rebirth cooldowns read the mock wall clock when set); the harness crate /verif/harness enables it through its path dependencies",
        "baseline_off_cmd": "cd /repo && cargo test --workspace --no-fail-fast --offline",
        "source_commits": ["ad62136", "5068705", "0ae5070"],
        "add_only": True,
    },
    "engines": [
        {"name": "lean4-proof+correspondence", "path": "check",
         "serves_properties": [c["property_id"] for c in checks],
         "kind_free_text": "Lean 4 theorems about hand-written executable models (lean/SradModel), tied to /repo on every run by (a) a differential correspondence check between the compiled srad code (harness/, path deps on /repo) and the model driver (lean_exe srad_model) on generated and exhaustive inputs and (b) finite decision tables regenerated from the compiled code into lean/SradModel/Generated and closed by `decide`; direct Rust oracles turn a broken proof/correspondence into a concrete failing input"},
    ],
    "checks": checks,
    "not_applicable": [{"property_id": p["id"], "reason": NOT_YET.get(p["id"], "check not built yet; the technique applies (model and theorems planned in DESIGN.md section 7), not claimed until its check exists")}
                       for p in props if p["id"] not in PROPS],
    "notes": "All checks: cwd=/verif, honour VERIF_SEED and VERIF_TIER; evidence is rewritten on every run; KNOWN_FINDINGS.json lists genuine defects (fixed ones suppress nothing).",
}
json.dump(m, open(os.path.join(ROOT, "MANIFEST.json"), "w"), indent=1)
print("checks:", len(checks), "not claimed:", len(m["not_applicable"]))
