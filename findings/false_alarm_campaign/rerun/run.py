#!/usr/bin/env python3
"""re-run of the false-alarm campaign's kind-(b) patches against the CURRENT checks: lane = sys.argv[1], patches = rest"""
import json, os, re, subprocess, sys
lane = sys.argv[1]; L = "/tmp/w/" + lane
tab = {}
for l in open("/verif/findings/false_alarm_campaign/FALSE_ALARMS.md"):
    m = re.match(r"\| (P\d+) \| (a|b) \| [^|]* \| ([C0-9 ]+) \|", l)
    if m: tab[m.group(1)] = m.group(3).split()
res = open("/tmp/w/fa2/results-%s.jsonl" % lane, "a")
for pid in sys.argv[2:]:
    d = "/verif/findings/false_alarm_campaign/patches/%s.diff" % pid
    subprocess.run(["git", "-C", L + "/repo", "checkout", "-q", "--", "."]); subprocess.run(["git", "-C", L + "/repo", "clean", "-fdq"])
    r = subprocess.run(["git", "-C", L + "/repo", "apply", d], capture_output=True, text=True)
    if r.returncode: res.write(json.dumps({"patch": pid, "error": "apply: " + r.stderr[:200]}) + "\n"); res.flush(); continue
    gen = L + "/verif/lean/SradModel/Generated"
    subprocess.run(["rm", "-rf", L + "/gen.bak"]); subprocess.run(["cp", "-r", gen, L + "/gen.bak"])
    for prop in tab.get(pid, []):
        c = subprocess.run(["./check", prop, "--tier", "quick"], cwd=L + "/verif", capture_output=True, text=True)
        lines = [x for x in c.stdout.splitlines() if x.startswith(("VIOLATION", "OK"))]
        out = []
        for x in lines:
            if x.startswith("VIOLATION"):
                rp = x.split("replay=")[1].split()[0]
                try:
                    j = json.load(open(os.path.join(L, "verif", rp)))
                    o = j.get("oracle") or {}
                    out.append({"line": x, "clause": o.get("clause"), "feature": o.get("feature"), "detail": (o.get("detail") or "")[:300], "broken": j.get("broken"), "fd": j.get("first_disagreement")})
                except Exception as e:
                    out.append({"line": x})
        res.write(json.dumps({"patch": pid, "prop": prop, "exit": c.returncode, "suffixless": [o for o in out if "no-failing-input-found" not in o["line"]], "suffix": [o["line"] for o in out if "no-failing-input-found" in o["line"]]}) + "\n"); res.flush()
    subprocess.run(["rm", "-rf", gen]); subprocess.run(["cp", "-r", L + "/gen.bak", gen])
subprocess.run(["git", "-C", L + "/repo", "checkout", "-q", "--", "."]); subprocess.run(["git", "-C", L + "/repo", "clean", "-fdq"])
res.write(json.dumps({"lane": lane, "done": True}) + "\n")
