/-
`c08explore`: bounded exhaustive search over the closed-loop model `Model/Loop` (C08).

Breadth-first over ALL action sequences (15 action kinds of `Sys.step`, incl. drops, duplicates,
reorders, disconnects, enable/disable, clock advances) up to a given depth, from
`Sys.init (fullCfg T) devs`, with duplicate states removed. Ghost fields (`sent`, `effs`) and
message ids are normalised away for the search (no step looks at them); every hit is replayed with
the real model by the caller (see `Props/C08Reach.lean`, where the minimal hits are `decide`d).

Looks for a reachable state `s` such that, with `s1 := drain (reconnect s)` (settle's first phase):
  (a) `s1` has something in flight, a side disconnected, or the node not birthed;
  (b) `InStep s1.host s1.node ∧ ¬ DevsBelow s1.host s1.node`;
  (b0) the same at `s` itself when nothing is in flight at `s`;
  (c) no `k ≤ 6` with `InSync (settle k s)`; also reports the largest "first k that is InSync".

usage: c08explore <depth> <ndevs 1|2> <timeout T> <maxFlight> <maxClock> [<initially enabled 0|1>] [<strict 0|1>]
                  [<hostUp 0|1>] [<noDup 0|1>] [<fifo 0|1>] [<noLoss 0|1>]
`strict 1`: every birth-causing action (nodeConnect, manualRebirth, deliverNcmd) is preceded by
`advance 1` (the documented clock assumption: the clock strictly advances between two births).
-/
import SradModel.Model.LoopSpec
import Std.Data.HashSet

open Srad Srad.Host Srad.Loop

deriving instance Hashable for Srad.Reseq.Mode
deriving instance Hashable for Srad.Reseq.St
deriving instance Hashable for Srad.Host.Life
deriving instance Hashable for Srad.Host.Timer
deriving instance Hashable for Srad.Host.Ans
deriving instance Hashable for Srad.Host.RMsg
deriving instance Hashable for Srad.Loop.Msg
deriving instance Hashable for Srad.Loop.Dev
deriving instance Hashable for Srad.Loop.Node
deriving instance BEq, Hashable for Srad.Host.St

structure Key where
  node : Node
  host : Host.St
  toHost : List Msg
  toNode : Nat
  nodeConn : Bool
  hostConn : Bool
  will : Nat
  clock : Nat
  deriving BEq, Hashable

def zeroMsg : Msg → Msg
  | .nbirth ts bd _ => .nbirth ts bd 0
  | .ndeath bd => .ndeath bd
  | .ndata s t _ => .ndata s t 0
  | .dbirth d s t _ => .dbirth d s t 0
  | .ddeath d s t _ => .ddeath d s t 0
  | .ddata d s t _ => .ddata d s t 0

def zeroR : RMsg → RMsg
  | .ndata _ a => .ndata 0 a
  | .dbirth d _ a => .dbirth d 0 a
  | .ddeath d _ => .ddeath d 0
  | .ddata d _ a => .ddata d 0 a

/-- forget ghosts and ids -/
def norm (s : Sys) : Sys :=
  { s with node := { s.node with nextId := 0 },
           host := { s.host with lastRebirth := 0,
                                 reseq := { s.host.reseq with buf := s.host.reseq.buf.map fun x => (x.1, (x.2.1, zeroR x.2.2)) } },
           toHost := s.toHost.map zeroMsg, sent := [], effs := [] }

def key (s : Sys) : Key :=
  ⟨s.node, s.host, s.toHost, s.toNode, s.nodeConn, s.hostConn, s.will, s.clock⟩

def inStepB (h : Host.St) (n : Node) : Bool :=
  decide (h.life = .birthed) && decide (h.timer = .none) && decide (h.reseq.mode = .good) &&
  decide (h.reseq.next = (n.seq + 1) % 256) &&
  n.enabledNames.all (fun d => decide (Host.findDev d h.devices = some .birthed))

def devsBelowB (h : Host.St) (n : Node) : Bool :=
  h.devices.all (fun p => decide (Host.findDev p.1 h.devices ≠ some .birthed) || n.enabledNames.contains p.1)

def quietB (s : Sys) : Bool :=
  s.nodeConn && s.hostConn && s.toHost.isEmpty && decide (s.toNode = 0) && s.node.birthed

def actions (devs : List Nat) (T : Nat) (s : Sys) : List Action :=
  [.publishNode, .manualRebirth, .nodeDisconnect, .nodeConnect, .hostDisconnect, .hostConnect,
   .advance 1] ++ (if T > 1 then [.advance T] else []) ++
  (devs.flatMap fun d => [.publishDev d, .enable d, .disable d]) ++
  (if s.toNode > 0 then [.deliverNcmd, .dropNcmd] else []) ++
  ((List.range s.toHost.length).flatMap fun k => [.deliver k, .duplicate k, .drop k])

/-- first `k` in `1..6` with `InSync (settle k s)`, 0 if none -/
def firstSync (s : Sys) : Nat := Id.run do
  let mut cur := s
  for k in [1:7] do
    let r := Sys.round cur
    if Sys.InSync r.1 r.2 then return k
    cur := r.1
  return 0

instance : Inhabited Action := ⟨.hostConnect⟩

structure Hit where
  kind : String
  trace : List Action

def traceOf (parents : Array (Nat × Action)) (i : Nat) : List Action := Id.run do
  let mut acc : List Action := []
  let mut j := i
  while j != 0 do
    let p := parents[j]!
    acc := p.2 :: acc
    j := p.1
  return acc

def showAct : Action → String
  | .publishNode => "publishNode" | .publishDev d => s!"publishDev {d}" | .enable d => s!"enable {d}"
  | .disable d => s!"disable {d}" | .manualRebirth => "manualRebirth" | .deliver k => s!"deliver {k}"
  | .duplicate k => s!"duplicate {k}" | .drop k => s!"drop {k}" | .deliverNcmd => "deliverNcmd"
  | .dropNcmd => "dropNcmd" | .nodeDisconnect => "nodeDisconnect" | .nodeConnect => "nodeConnect"
  | .hostDisconnect => "hostDisconnect" | .hostConnect => "hostConnect" | .advance ms => s!"advance {ms}"

def showTrace (t : List Action) : String := "[" ++ ", ".intercalate (t.map fun a => "." ++ showAct a) ++ "]"

def main (args : List String) : IO Unit := do
  let depth := (args.getD 0 "6").toNat!
  let ndevs := (args.getD 1 "1").toNat!
  let T := (args.getD 2 "2").toNat!
  let maxFlight := (args.getD 3 "4").toNat!
  let maxClock := (args.getD 4 "4").toNat!
  let en := (args.getD 5 "0").toNat! == 1
  let strict := (args.getD 6 "0").toNat! == 1
  let hostUp := (args.getD 7 "0").toNat! == 1     -- host connected from the start, never disconnects
  let noDup := (args.getD 8 "0").toNat! == 1      -- no duplicate action
  let fifo := (args.getD 9 "0").toNat! == 1       -- deliveries only from the front (drops anywhere)
  let noLoss := (args.getD 10 "0").toNat! == 1    -- no drop, no dropNcmd (reordering / duplicates only)
  let devNames := (List.range ndevs).map (· + 1)
  let devs : List Dev := devNames.map fun d => { name := d, enabled := en }
  let s00 := Sys.init (Sys.fullCfg T) devs
  let s0 := if hostUp then s00.step .hostConnect else s00
  let mut visited : Std.HashSet Key := {}
  visited := visited.insert (key s0)
  -- states stored with index; parents[i] = (parent index, action)
  let mut parents : Array (Nat × Action) := #[(0, .hostConnect)]
  let mut frontier : Array (Nat × Sys) := #[(0, s0)]
  let mut nA := 0; let mut nB := 0; let mut nB0 := 0; let mut nC := 0
  let mut nA2 := 0            -- not quiet even after a whole round
  let mut nCnotB := 0         -- never in sync, although (b) does not hold after round 1
  let mut maxK := 0
  let mut firstA : Option Nat := none
  let mut firstB : Option Nat := none
  let mut firstB0 : Option Nat := none
  let mut firstC : Option Nat := none
  let mut firstA2 : Option Nat := none
  let mut firstCnotB : Option Nat := none
  let mut firstK : Array (Option Nat) := Array.replicate 8 none
  let mut total := 0
  for lvl in [0:depth+1] do
    let mut next : Array (Nat × Sys) := #[]
    for (i, s) in frontier do
      total := total + 1
      -- checks
      let s1 := Sys.drain (Sys.reconnect s)
      if !quietB s1 then
        nA := nA + 1
        if firstA.isNone then firstA := some i
      if inStepB s1.host s1.node && !devsBelowB s1.host s1.node then
        nB := nB + 1
        if firstB.isNone then firstB := some i
      if quietB s && inStepB s.host s.node && !devsBelowB s.host s.node then
        nB0 := nB0 + 1
        if firstB0.isNone then firstB0 := some i
      let r1 := (Sys.round s).1
      if !quietB r1 then
        nA2 := nA2 + 1
        if firstA2.isNone then firstA2 := some i
      let k := firstSync s
      if k == 0 then
        nC := nC + 1
        if firstC.isNone then firstC := some i
        if !(inStepB r1.host r1.node && !devsBelowB r1.host r1.node) then
          nCnotB := nCnotB + 1
          if firstCnotB.isNone then firstCnotB := some i
      else
        if k > maxK then maxK := k
        if (firstK[k]!).isNone then firstK := firstK.set! k (some i)
      -- successors
      if lvl < depth then
        for a in actions devNames T s do
         let skip := (hostUp && (a == .hostConnect || a == .hostDisconnect)) ||
            (noDup && (match a with | .duplicate _ => true | _ => false)) ||
            (fifo && (match a with | .deliver k => k != 0 | _ => false)) ||
            (noLoss && (match a with | .drop _ => true | .dropNcmd => true | _ => false))
         if !skip then
          let isBirth := a == .nodeConnect || a == .manualRebirth || a == .deliverNcmd
          let t := norm ((if strict && isBirth then s.step (.advance 1) else s).step a)
          if t.toHost.length ≤ maxFlight && t.clock ≤ maxClock && t.toNode ≤ 3 then
            let kt := key t
            if !visited.contains kt then
              visited := visited.insert kt
              let j := parents.size
              parents := parents.push (i, a)
              next := next.push (j, t)
    IO.println s!"depth {lvl}: {frontier.size} new states (total {total}); (a) {nA} (a-after-round) {nA2} (b) {nB} (b0) {nB0} (c) {nC} (c without b after round 1) {nCnotB}; max first-sync k = {maxK}"
    (← IO.getStdout).flush
    frontier := next
  let pr (name : String) (o : Option Nat) : IO Unit :=
    match o with
    | some i => IO.println s!"first {name}: {showTrace (traceOf parents i)}"
    | none => IO.println s!"first {name}: none"
  pr "(a) not quiet after reconnect;drain" firstA
  pr "(a2) not quiet after one round" firstA2
  pr "(b) InStep without DevsBelow after reconnect;drain" firstB
  pr "(b0) InStep without DevsBelow, nothing in flight, at the state itself" firstB0
  pr "(c) no k<=6 in sync" firstC
  pr "(c') no k<=6 in sync although (b) fails to hold after round 1" firstCnotB
  for k in [1:7] do
    pr s!"state whose first in-sync k is {k}" (firstK[k]!)
