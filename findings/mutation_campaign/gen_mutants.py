#!/usr/bin/env python3
"""
gen_mutants.py [--repo /repo] [--n 260] [--seed 1] --out candidates.jsonl --sample sample.jsonl

Enumerates single-site syntactic mutation candidates in the srad library sources and samples
about N of them, spread over the files proportionally to their number of lines with at least 5
per file of >= 50 lines (as far as the file has that many candidate sites).

A candidate = {id, file, line (1-based), col, op, original (the line), replacement (the new
line; "" with op=drop-stmt deletes the statement by replacing it with an empty line; swap-arms
candidates carry line2/original2/replacement2)}.
"""
import argparse, json, os, random, re, sys

CRATES = ["srad-types", "srad-client", "srad-eon", "srad-app", "srad-macros"]
LOGMAC = re.compile(r"\b(info|debug|trace|warn|error|log|println|eprintln|write|writeln|format|panic|unreachable|assert|assert_eq|debug_assert|todo|unimplemented)!\s*\(")


def list_files(repo):
    out = []
    for c in CRATES:
        base = os.path.join(repo, c, "src")
        for d, _, fs in os.walk(base):
            if "generated" in d.split(os.sep):
                continue
            for f in sorted(fs):
                if f.endswith(".rs"):
                    out.append(os.path.relpath(os.path.join(d, f), repo))
    return sorted(out)


def code_mask(src):
    """per character: True if the character is code (not comment, not string/char literal)"""
    n = len(src)
    mask = [True] * n
    i = 0
    while i < n:
        c = src[i]
        if src.startswith("//", i):
            j = src.find("\n", i)
            j = n if j < 0 else j
            for k in range(i, j):
                mask[k] = False
            i = j
        elif src.startswith("/*", i):
            depth, j = 1, i + 2
            while j < n and depth:
                if src.startswith("/*", j):
                    depth += 1; j += 2
                elif src.startswith("*/", j):
                    depth -= 1; j += 2
                else:
                    j += 1
            for k in range(i, j):
                mask[k] = False
            i = j
        elif c == '"' or (c == "r" and re.match(r'r#*"', src[i:i + 8]) and (i == 0 or not (src[i - 1].isalnum() or src[i - 1] == "_"))) \
                or (c == "b" and src.startswith('b"', i)):
            if c == "r":
                m = re.match(r'r(#*)"', src[i:])
                end = '"' + m.group(1)
                j = src.find(end, i + len(m.group(0)))
                j = n if j < 0 else j + len(end)
            else:
                j = i + (2 if c == "b" else 1)
                while j < n and src[j] != '"':
                    j += 2 if src[j] == "\\" else 1
                j += 1
            for k in range(i, min(j, n)):
                mask[k] = False
            i = j
        elif c == "'":
            # char literal or lifetime
            m = re.match(r"'(\\.[^']*|[^\\'])'", src[i:])
            if m:
                for k in range(i, i + len(m.group(0))):
                    mask[k] = False
                i += len(m.group(0))
            else:
                i += 1
        else:
            i += 1
    return mask


def brace_block_end(src, mask, start):
    """index just after the block whose `{` is the first code `{` at or after start"""
    i, n = start, len(src)
    while i < n and not (src[i] == "{" and mask[i]):
        if src[i] == ";" and mask[i]:
            return i + 1
        i += 1
    depth = 0
    while i < n:
        if mask[i]:
            if src[i] == "{":
                depth += 1
            elif src[i] == "}":
                depth -= 1
                if depth == 0:
                    return i + 1
        i += 1
    return n


def paren_end(src, mask, start):
    i, n, depth = start, len(src), 0
    while i < n:
        if mask[i]:
            if src[i] in "([{":
                depth += 1
            elif src[i] in ")]}":
                depth -= 1
                if depth == 0:
                    return i + 1
        i += 1
    return n


def skip_regions(src, mask):
    """character ranges that must not be mutated"""
    reg = []
    # #[cfg(test)] items, verif-hooks items
    for m in re.finditer(r"#\[cfg\((test|feature\s*=\s*\"verif-hooks\")\)\]", src):
        if not mask[m.start()]:
            continue
        # item following the attribute: up to end of block or `;`
        reg.append((m.start(), brace_block_end(src, mask, m.end())))
    # impl Debug / Display
    for m in re.finditer(r"\bimpl\b[^{;]*\b(Debug|Display)\b[^{;]*\bfor\b", src):
        if mask[m.start()]:
            reg.append((m.start(), brace_block_end(src, mask, m.end())))
    # logging / formatting macros (whole invocation)
    for m in LOGMAC.finditer(src):
        if mask[m.start()]:
            reg.append((m.start(), paren_end(src, mask, m.end() - 1)))
    # attributes
    for m in re.finditer(r"#!?\[", src):
        if mask[m.start()]:
            reg.append((m.start(), paren_end(src, mask, m.end() - 1)))
    return reg


REL = [(r"(?<=\s)<(?=\s)", "<="), (r"(?<=\s)<=(?=\s)", "<"), (r"(?<=\s)>(?=\s)", ">="), (r"(?<=\s)>=(?=\s)", ">"),
       (r"==", "!="), (r"!=", "==")]


def cands_for_file(rel, src):
    mask = code_mask(src)
    regs = skip_regions(src, mask)
    skip = [False] * len(src)
    for a, b in regs:
        for k in range(a, min(b, len(src))):
            skip[k] = True
    lines = src.split("\n")
    offs, o = [], 0
    for l in lines:
        offs.append(o)
        o += len(l) + 1
    out = []

    def ok(pos, ln=1):
        return all(mask[p] and not skip[p] for p in range(pos, pos + ln))

    def add(li, col, op, new_line, extra=None):
        if new_line == lines[li]:
            return
        d = {"file": rel, "line": li + 1, "col": col, "op": op, "original": lines[li], "replacement": new_line}
        if extra:
            d.update(extra)
        out.append(d)

    def sub_at(li, a, b, text):
        l = lines[li]
        return l[:a] + text + l[b:]

    for li, l in enumerate(lines):
        base = offs[li]
        st = l.strip()
        if not st or st.startswith("//"):
            continue
        # use / mod / type-level lines: skip
        if re.match(r"\s*(pub(\([a-z]+\))?\s+)?(use|mod|extern|type)\b", l):
            continue
        # relational
        for pat, rep in REL:
            for m in re.finditer(pat, l):
                a, b = m.start(), m.end()
                if not ok(base + a, b - a):
                    continue
                if pat in ("==", "!="):
                    # not part of <=, >=, ===, !==
                    if a > 0 and l[a - 1] in "<>=!":
                        continue
                    if b < len(l) and l[b] == "=":
                        continue
                add(li, a, "rel:%s->%s" % (m.group(0), rep), sub_at(li, a, b, rep))
        # && / ||
        for m in re.finditer(r"&&|\|\|", l):
            a, b = m.start(), m.end()
            if not ok(base + a, 2):
                continue
            if m.group(0) == "||":
                prev = l[:a].rstrip()
                if not prev:
                    # continuation line beginning with ||: binary
                    pass
                elif not re.search(r"[\w)\]?]$", prev) or re.search(r"\b(move|return|in)$", prev):
                    continue  # closure
            else:
                prev = l[:a].rstrip()
                if prev.endswith("(") or prev.endswith(",") or prev.endswith("="):
                    continue  # && reference-of-reference pattern
            add(li, a, "bool:%s" % m.group(0), sub_at(li, a, b, "||" if m.group(0) == "&&" else "&&"))
        # leading ! removal
        for m in re.finditer(r"(?:(?<=\bif )|(?<=\bwhile )|(?<=\()|(?<=&& )|(?<=\|\| )|(?<== )|(?<=\breturn )|(?<=^)\s*)!(?!=)", l):
            a = m.end() - 1
            if not ok(base + a, 1):
                continue
            add(li, a, "bool:drop-not", sub_at(li, a, a + 1, ""))
        # true/false
        for m in re.finditer(r"\b(true|false)\b", l):
            a, b = m.start(), m.end()
            if ok(base + a, b - a):
                add(li, a, "bool:%s" % m.group(0), sub_at(li, a, b, "false" if m.group(0) == "true" else "true"))
        # + 1 -> + 2, - 1 -> - 0
        for m in re.finditer(r"\+ 1\b(?![.\w])", l):
            if ok(base + m.start(), 3):
                add(li, m.start(), "arith:+1->+2", sub_at(li, m.start(), m.end(), "+ 2"))
        for m in re.finditer(r"- 1\b(?![.\w])", l):
            if ok(base + m.start(), 3):
                add(li, m.start(), "arith:-1->-0", sub_at(li, m.start(), m.end(), "- 0"))
        for m in re.finditer(r"\s*% 256\b", l):
            if ok(base + m.start(), len(m.group(0))):
                add(li, m.start(), "arith:drop%256", sub_at(li, m.start(), m.end(), ""))
        for m in re.finditer(r"\.wrapping_(add|sub)\(", l):
            if ok(base + m.start(), len(m.group(0))):
                add(li, m.start(), "arith:wrapping->saturating", sub_at(li, m.start(), m.end(), ".saturating_%s(" % m.group(1)))
        # numeric literals +-1 (integers, optional type suffix)
        for m in re.finditer(r"(?<![\w.])(\d[\d_]*)((?:_?[ui](?:8|16|32|64|128|size))?)(?![\w.]|\.\d)", l):
            a, b = m.start(), m.end()
            if not ok(base + a, b - a):
                continue
            # skip things like tuple struct index .0 (lookbehind) and array-type lengths `; N]`
            if re.search(r";\s*$", l[:a]) and l[b:].lstrip().startswith("]"):
                continue
            v = int(m.group(1).replace("_", ""))
            dur = re.search(r"Duration::\w+\(\s*$", l[:a]) or re.search(r"Duration::new\(\d+,\s*$", l[:a])
            chan = re.search(r"channel\(\s*$", l[:a])
            if dur and v > 0:
                add(li, a, "const:duration*4", sub_at(li, a, b, str(v * 4) + m.group(2)))
                add(li, a, "const:duration/4", sub_at(li, a, b, str(max(v * 1000 // 4, 1)) + m.group(2)).replace("from_secs", "from_millis"))
                continue
            if chan:
                add(li, a, "const:capacity+1", sub_at(li, a, b, str(v + 1) + m.group(2)))
                add(li, a, "const:capacity*16", sub_at(li, a, b, str(v * 16) + m.group(2)))
                continue
            add(li, a, "lit:+1", sub_at(li, a, b, str(v + 1) + m.group(2)))
            if v > 0:
                add(li, a, "lit:-1", sub_at(li, a, b, str(v - 1) + m.group(2)))
        # is_some/is_none, is_ok/is_err
        for x, y in (("is_some", "is_none"), ("is_none", "is_some"), ("is_ok", "is_err"), ("is_err", "is_ok")):
            for m in re.finditer(r"\.%s\(\)" % x, l):
                if ok(base + m.start(), len(m.group(0))):
                    add(li, m.start(), "opt:%s" % x, sub_at(li, m.start(), m.end(), ".%s()" % y))
        # try_publish <-> publish in call sites
        for m in re.finditer(r"\.try_(publish\w*)\(", l):
            if ok(base + m.start(), len(m.group(0))):
                add(li, m.start(), "client:try_publish->publish", sub_at(li, m.start(), m.end(), ".%s(" % m.group(1)))
        for m in re.finditer(r"(?<=\.)(publish\w*)\(", l):
            if ok(base + m.start(), len(m.group(0))) and not re.search(r"\bfn\b", l):
                add(li, m.start(), "client:publish->try_publish", sub_at(li, m.start(), m.end(), "try_%s(" % m.group(1)))
        # QoS constants
        for m in re.finditer(r"QoS::(AtMostOnce|AtLeastOnce|ExactlyOnce)", l):
            if ok(base + m.start(), len(m.group(0))):
                new = "QoS::AtLeastOnce" if m.group(1) == "AtMostOnce" else "QoS::AtMostOnce"
                add(li, m.start(), "const:qos", sub_at(li, m.start(), m.end(), new))
        # Some(x) -> None for fields / assignments
        m = re.match(r"^(\s*(?:[\w.]+\s*[:=]\s*))Some\((.*)\)([,;])\s*$", l)
        if m and ok(base + len(m.group(1)), 4):
            # balanced parens inside
            inner = m.group(2)
            if inner.count("(") == inner.count(")"):
                add(li, len(m.group(1)), "opt:Some->None", m.group(1) + "None" + m.group(3))
        # dropped statement: a single-line call statement whose value is unused
        m = re.match(r"^(\s*)((?:self|[a-z_]\w*)(?:\.\w+|::\w+)*\(.*\)(?:\.\w+(?:\(.*\))?)*(?:\.await)?\??);\s*$", l)
        if m and ok(base + len(m.group(1)), len(m.group(2))) and l.count("(") == l.count(")") \
                and not re.match(r"\s*(return|let|break|continue|drop|if|match|while|for)\b", l):
            add(li, len(m.group(1)), "drop-stmt", m.group(1) + "/* mutant: statement dropped */")
        m = re.match(r"^(\s*)(?:let _|_) = (.*\(.*\).*);\s*$", l)
        if m and ok(base + len(m.group(1)), 3) and l.count("(") == l.count(")"):
            add(li, len(m.group(1)), "drop-stmt", m.group(1) + "/* mutant: statement dropped */")
        # early returns
        m = re.match(r"^(\s*)return(?: Ok\(\(\)\)| Err\(.*\)| None| false| true)?;\s*$", l)
        if m and ok(base + len(m.group(1)), 6) and l.count("(") == l.count(")"):
            add(li, len(m.group(1)), "ret:drop-early-return", m.group(1) + "/* mutant: early return dropped */")
        m = re.match(r"^(\s*)(continue|break);\s*$", l)
        if m and ok(base + len(m.group(1)), 5):
            add(li, len(m.group(1)), "ret:%s" % m.group(2), m.group(1) + ("break;" if m.group(2) == "continue" else "continue;"))
        # `expr?;` statements -> early Ok return (Ok(()) <-> early return)
        m = re.match(r"^(\s*)([\w.]+\(.*\)(?:\.await)?)\?;\s*$", l)
        if m and ok(base + len(m.group(1)), 3) and l.count("(") == l.count(")"):
            add(li, len(m.group(1)), "ret:stmt->return-ok", m.group(1) + "return Ok(());")
    # swapped match arm results: two consecutive one-line arms `pat => expr,`
    arm = re.compile(r"^(\s*)([^=].*?) => ([^{}]+),\s*$")
    for li in range(len(lines) - 1):
        m1, m2 = arm.match(lines[li]), arm.match(lines[li + 1])
        if not (m1 and m2) or m1.group(1) != m2.group(1):
            continue
        if m1.group(3).strip() == m2.group(3).strip():
            continue
        if not (ok(offs[li] + len(m1.group(1)), 2) and ok(offs[li + 1] + len(m2.group(1)), 2)):
            continue
        # results must not use bindings of the pattern (simple results only)
        def simple(e):
            return re.fullmatch(r"[\w:()&\s.,\"']+", e) is not None and len(e) < 60
        if not (simple(m1.group(3)) and simple(m2.group(3))):
            continue
        binds = set(re.findall(r"\b[a-z_]\w*\b", m1.group(2) + " " + m2.group(2))) - {"_", "ref", "mut"}
        used = set(re.findall(r"\b[a-z_]\w*\b", m1.group(3) + " " + m2.group(3)))
        if binds & used & set(re.findall(r"\(\s*([a-z_]\w*)\s*\)", m1.group(2) + m2.group(2))):
            continue
        n1 = "%s%s => %s," % (m1.group(1), m1.group(2), m2.group(3))
        n2 = "%s%s => %s," % (m2.group(1), m2.group(2), m1.group(3))
        add(li, len(m1.group(1)), "swap-arms", n1,
            {"line2": li + 2, "original2": lines[li + 1], "replacement2": n2})
    return out


def main():
    ap = argparse.ArgumentParser()
    ap.add_argument("--repo", default="/repo")
    ap.add_argument("--n", type=int, default=260)
    ap.add_argument("--seed", type=int, default=1)
    ap.add_argument("--out", required=True)
    ap.add_argument("--sample", required=True)
    a = ap.parse_args()
    rnd = random.Random(a.seed)
    per_file, sizes = {}, {}
    for rel in list_files(a.repo):
        src = open(os.path.join(a.repo, rel)).read()
        sizes[rel] = src.count("\n")
        per_file[rel] = cands_for_file(rel, src)
    allc = []
    for rel in sorted(per_file):
        for k, c in enumerate(per_file[rel]):
            c["cid"] = "%s:%d:%d:%s" % (rel, c["line"], c["col"], c["op"])
            allc.append(c)
    with open(a.out, "w") as f:
        for c in allc:
            f.write(json.dumps(c) + "\n")
    total_lines = sum(sizes[r] for r in per_file if per_file[r])
    sample = []
    for rel in sorted(per_file):
        cs = per_file[rel]
        if not cs:
            continue
        quota = round(a.n * sizes[rel] / total_lines)
        if sizes[rel] >= 50:
            quota = max(quota, 5)
        quota = min(quota, len(cs))
        # stratify over operator families so that rare operators are represented, and over lines
        fams = {}
        for c in cs:
            fams.setdefault(c["op"].split(":")[0], []).append(c)
        for v in fams.values():
            rnd.shuffle(v)
        picked, seen_lines = [], {}
        order = sorted(fams)
        while len(picked) < quota and any(fams.values()):
            rnd.shuffle(order)
            for fam in order:
                if len(picked) >= quota:
                    break
                v = fams[fam]
                # prefer a line not yet used twice
                idx = next((i for i, c in enumerate(v) if seen_lines.get(c["line"], 0) < 1), None)
                if idx is None:
                    idx = next((i for i, c in enumerate(v) if seen_lines.get(c["line"], 0) < 2), None)
                if idx is None:
                    fams[fam] = []
                    continue
                c = v.pop(idx)
                seen_lines[c["line"]] = seen_lines.get(c["line"], 0) + 1
                picked.append(c)
        sample += picked
    rnd.shuffle(sample)
    for k, c in enumerate(sample, 1):
        c["id"] = "M%03d" % k
    with open(a.sample, "w") as f:
        for c in sample:
            f.write(json.dumps(c) + "\n")
    by_file = {}
    for c in sample:
        by_file[c["file"]] = by_file.get(c["file"], 0) + 1
    print("candidates: %d in %d files; sampled %d" % (len(allc), len(per_file), len(sample)))
    for rel in sorted(per_file):
        print("  %-45s lines=%4d candidates=%4d sampled=%3d" % (rel, sizes[rel], len(per_file[rel]), by_file.get(rel, 0)))
    ops = {}
    for c in sample:
        ops[c["op"].split(":")[0] + ":" + c["op"].split(":")[-1] if False else c["op"].split(":")[0]] = ops.get(c["op"].split(":")[0], 0) + 1
    print("  by operator family:", json.dumps(ops, sort_keys=True))


if __name__ == "__main__":
    main()
