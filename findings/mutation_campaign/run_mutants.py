#!/usr/bin/env python3
"""
run_mutants.py --sample sample.jsonl --out mutants.jsonl [--lanes 4] [--hours 5] [--only M001,M002]

For every mutant of the sample not yet present in --out: take a free lane (/tmp/mut/lane<k>),
apply the mutation to the lane's repo copy (pristine text is always read from /repo), build,
run the library's tests, run the quick checks (anchored properties + C08; if none of them kills
the mutant also every other property, recorded separately as `extra_checks`), revert, clean.

Outcome: stillborn | killed-by-tests | killed-by-checks | survived | timeout
"""
import argparse, json, os, queue, re, shutil, signal, subprocess, sys, threading, time

import os as _os
PRISTINE = "/tmp/mut/pristine" if _os.path.isdir("/tmp/mut/pristine") else "/repo"  # stable copy (git archive HEAD of /repo, 80014ba): /repo itself was patched in place by another agent during the re-check
VERIF = "/verif"
BASE = "/tmp/mut"
ALL = ["C%02d" % i for i in range(1, 21)]
BUILD_TEST_BUDGET = 360
CHECK_BUDGET = 300
ALLCHECKS = False


def anchors():
    a = {}
    for l in open(os.path.join(VERIF, "properties.jsonl")):
        d = json.loads(l)
        for f in d.get("anchors", {}).get("files", []):
            a.setdefault(f, []).append(d["id"])
    return a


def run(cmd, cwd, timeout, env=None):
    e = dict(os.environ, CARGO_NET_OFFLINE="true", CARGO_BUILD_JOBS="5", CARGO_TERM_COLOR="never")
    if env:
        e.update(env)
    t = time.time()
    p = subprocess.Popen(cmd, cwd=cwd, env=e, stdout=subprocess.PIPE, stderr=subprocess.STDOUT, text=True,
                         start_new_session=True)
    try:
        out, _ = p.communicate(timeout=timeout)
        return p.returncode, out, time.time() - t, False
    except subprocess.TimeoutExpired:
        try:
            os.killpg(p.pid, signal.SIGKILL)
        except ProcessLookupError:
            pass
        try:
            out, _ = p.communicate(timeout=30)
        except Exception:
            out = ""
        return -9, out or "", time.time() - t, True


def apply(lane_repo, m):
    src = open(os.path.join(PRISTINE, m["file"])).read().split("\n")
    assert src[m["line"] - 1] == m["original"], "pristine source changed for " + m["id"]
    src[m["line"] - 1] = m["replacement"]
    if "line2" in m:
        assert src[m["line2"] - 1] == m["original2"]
        src[m["line2"] - 1] = m["replacement2"]
    with open(os.path.join(lane_repo, m["file"]), "w") as f:
        f.write("\n".join(src))


def revert(lane_repo, m):
    shutil.copyfile(os.path.join(PRISTINE, m["file"]), os.path.join(lane_repo, m["file"]))
    # make sure cargo notices (mtime newer than the mutated build)
    os.utime(os.path.join(lane_repo, m["file"]), None)


def replay_summary(lane_verif, path):
    try:
        d = json.load(open(os.path.join(lane_verif, path)))
    except Exception as e:
        return {"error": str(e)}
    s = {}
    for k in ("component", "desc", "origin", "broken", "what", "first_error"):
        if k in d:
            s[k] = str(d[k])[:400]
    if "oracle" in d:
        s["oracle_clause"] = d["oracle"].get("clause")
        s["oracle_feature"] = d["oracle"].get("feature")
        s["oracle_detail"] = str(d["oracle"].get("detail"))[:400]
    if "first_disagreement" in d:
        s["first_disagreement"] = {k: str(v)[:300] for k, v in d["first_disagreement"].items()}
    if "ops" in d:
        s["n_ops"] = len(d["ops"])
    if "compiler_output" in d:
        s["compiler_output"] = d["compiler_output"][-600:]
    if "output" in d:
        s["output"] = str(d["output"])[-600:]
    return s


def one_check(lane_verif, pid):
    rc, out, dt, to = run(["./check", pid], lane_verif, CHECK_BUDGET)
    viol = [l for l in out.split("\n") if l.startswith("VIOLATION ")]
    r = {"exit": rc, "wall_s": round(dt, 1), "timeout": to}
    if viol:
        r["first_violation"] = viol[0]
        r["n_violations"] = len(viol)
        r["no_failing_input_found"] = all(v.endswith("no-failing-input-found") for v in viol)
        mm = re.search(r"replay=(\S+)", viol[0])
        if mm:
            r["replay"] = replay_summary(lane_verif, mm.group(1))
    elif rc != 0:
        r["tail"] = out[-800:]
    return r


def clean(lane_verif):
    for d in ("work", "replays"):
        shutil.rmtree(os.path.join(lane_verif, d), ignore_errors=True)
    # generated tables back to the pristine ones (a mutant may have changed them)
    g_src = os.path.join(VERIF, "lean", "SradModel", "Generated")
    g_dst = os.path.join(lane_verif, "lean", "SradModel", "Generated")
    changed = False
    for f in os.listdir(g_src):
        a, b = os.path.join(g_src, f), os.path.join(g_dst, f)
        if not os.path.exists(b) or open(a).read() != open(b).read():
            shutil.copyfile(a, b)
            changed = True
    for f in os.listdir(g_dst):
        if not os.path.exists(os.path.join(g_src, f)):
            os.remove(os.path.join(g_dst, f))
            changed = True
    # evidence back
    return changed


def process(lane, m, anch):
    lane_repo = os.path.join(BASE, "lane%d" % lane, "repo")
    lane_verif = os.path.join(BASE, "lane%d" % lane, "verif")
    rec = {k: m[k] for k in ("id", "file", "line", "col", "op", "original", "replacement") if k in m}
    for k in ("line2", "original2", "replacement2"):
        if k in m:
            rec[k] = m[k]
    rec["lane"] = lane
    t0 = time.time()
    apply(lane_repo, m)
    tables_changed = False
    try:
        rc, out, dt, to = run(["cargo", "build", "--workspace", "--offline"], lane_repo, BUILD_TEST_BUDGET)
        rec["build_s"] = round(dt, 1)
        if to:
            rec["outcome"] = "timeout"
            rec["timeout_in"] = "build"
            return rec
        if rc != 0:
            rec["outcome"] = "stillborn"
            errs = [l for l in out.split("\n") if l.startswith("error")]
            rec["compile_error"] = errs[0][:300] if errs else out[-300:]
            return rec
        rc, out, dt2, to = run(["cargo", "test", "--workspace", "--no-fail-fast", "--offline"], lane_repo,
                               max(BUILD_TEST_BUDGET - dt, 60))
        rec["test_s"] = round(dt2, 1)
        if to:
            rec["outcome"] = "timeout"
            rec["timeout_in"] = "tests"
            rec["failed_tests"] = "(test run exceeded the budget: a hang)"
            return rec
        if rc != 0:
            rec["outcome"] = "killed-by-tests"
            failed = sorted(set(re.findall(r"^test (\S+) \.\.\. FAILED", out, re.M)))
            rec["failed_tests"] = failed[:10]
            if not failed:
                rec["test_tail"] = out[-500:]
            return rec
        todo = sorted(set(anch.get(m["file"], []) + ["C08"]))
        if ALLCHECKS:
            todo = list(ALL)
        rec["checks"] = {}
        killed = False
        for pid in todo:
            r = one_check(lane_verif, pid)
            rec["checks"][pid] = r
            if r["exit"] != 0:
                killed = True
        if killed:
            rec["outcome"] = "killed-by-checks"
            if all(r["exit"] == 0 or r["timeout"] for r in rec["checks"].values()):
                rec["outcome"] = "timeout"
                rec["timeout_in"] = "checks"
        else:
            rec["outcome"] = "survived"
            rec["extra_checks"] = {}
            for pid in ALL:
                if pid in todo:
                    continue
                r = one_check(lane_verif, pid)
                rec["extra_checks"][pid] = r
            rec["extra_killers"] = sorted(p for p, r in rec["extra_checks"].items() if r["exit"] != 0)
        return rec
    finally:
        revert(lane_repo, m)
        try:
            tables_changed = clean(lane_verif)
        except Exception as e:
            rec["clean_error"] = str(e)
        if tables_changed:
            # rebuild the proofs over the pristine tables so the next mutant does not pay for it
            run(["lake", "build"], os.path.join(lane_verif, "lean"), 1800)
            rec["tables_restored"] = True
        rec["total_s"] = round(time.time() - t0, 1)


def main():
    ap = argparse.ArgumentParser()
    ap.add_argument("--sample", required=True)
    ap.add_argument("--out", required=True)
    ap.add_argument("--lanes", type=int, default=4)
    ap.add_argument("--hours", type=float, default=5.0)
    ap.add_argument("--only", default="")
    ap.add_argument("--allchecks", action="store_true", help="run all 20 quick checks for every mutant (used for the re-check of the survivors at a newer /verif snapshot)")
    a = ap.parse_args()
    global ALLCHECKS
    ALLCHECKS = a.allchecks
    anch = anchors()
    done = set()
    if os.path.exists(a.out):
        for l in open(a.out):
            done.add(json.loads(l)["id"])
    only = set(x for x in a.only.split(",") if x)
    q = queue.Queue()
    for l in open(a.sample):
        m = json.loads(l)
        if m["id"] in done or (only and m["id"] not in only):
            continue
        q.put(m)
    lock = threading.Lock()
    deadline = time.time() + a.hours * 3600
    print("to run: %d mutants on %d lanes" % (q.qsize(), a.lanes), flush=True)

    def worker(lane):
        while time.time() < deadline:
            try:
                m = q.get_nowait()
            except queue.Empty:
                return
            try:
                rec = process(lane, m, anch)
            except Exception as e:
                rec = {"id": m["id"], "file": m["file"], "line": m["line"], "op": m["op"], "outcome": "runner-error", "error": repr(e)}
            with lock:
                with open(a.out, "a") as f:
                    f.write(json.dumps(rec) + "\n")
                ks = [p for p, r in rec.get("checks", {}).items() if r["exit"] != 0]
                print("%s lane%d %-16s %s:%d %s  %s %ss" % (rec["id"], lane, rec.get("outcome"), rec["file"], rec["line"], rec["op"],
                                                          ",".join(ks) or ",".join(rec.get("extra_killers", [])), rec.get("total_s")), flush=True)

    ts = [threading.Thread(target=worker, args=(k,)) for k in range(1, a.lanes + 1)]
    for t in ts:
        t.start()
    for t in ts:
        t.join()
    print("done; remaining in queue: %d" % q.qsize(), flush=True)


if __name__ == "__main__":
    main()
