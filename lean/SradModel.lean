-- Root of the SradModel library: models (import-free), proofs, property theorems.
import SradModel.Model.Reseq
