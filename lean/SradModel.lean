-- Root of the SradModel library: models (import-free), proofs, property theorems.
import SradModel.Model.Reseq
import SradModel.Model.ReseqSpec
import SradModel.Model.Codec
import SradModel.Model.Host
import SradModel.Model.HostSpec
import SradModel.Model.Templ
import SradModel.Model.TemplSpec
import SradModel.Props.C09
import SradModel.Props.C10
import SradModel.Props.C19
import SradModel.Props.C18
import SradModel.Model.Admit
import SradModel.Model.AdmitSpec
import SradModel.Props.C14
import SradModel.Props.C07
