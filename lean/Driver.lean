/-
`srad_model`: line-protocol driver for the executable models. One request per line on stdin,
one answer per line on stdout. Imports only `SradModel.Model.*` / `SradModel.Drv.*` (no Mathlib),
so it links as an executable.
-/
import SradModel.Drv.Reseq
import SradModel.Drv.Codec
import SradModel.Drv.Host
import SradModel.Drv.Templ
import SradModel.Drv.Admit
import SradModel.Drv.Derive
import SradModel.Drv.HostLoop
import SradModel.Drv.HostLoopLts
import SradModel.Drv.HostQ
import SradModel.Drv.Rumqtt
import SradModel.Drv.Topic
import SradModel.Drv.Eon
import SradModel.Drv.Metric
import SradModel.Drv.Birth
import SradModel.Drv.Cmd
import SradModel.Drv.Loop
import SradModel.Drv.Wire
import SradModel.Drv.HostCmd
import SradModel.Drv.SimpleMgr

open Srad Srad.Drv Srad.BirthDrv Srad.Drv.CmdD Srad.Drv.HostCmdD Srad.Drv.SimpleMgrD

structure DState where
  reseq : Reseq.St Nat := Reseq.init
  host : HostD := {}
  templ : Templ.Registry := []
  derive : Option Derive.Schema := none
  hostloop : HLState := {}
  hll : HllD := {}
  hostq : HostQD := {}
  rumqtt : RuD := {}
  eon : EonD := {}
  birth : BWorld := {}
  cmd : CmdSt := {}
  nodeabs : NodeAbsD := {}
  hcmd : HcmdSt := {}
  smgr : SmgrD := {}

def step (st : DState) (line : String) : DState × String :=
  match words line with
  | "reseq" :: rest =>
    let (r, o) := stepReseq st.reseq rest
    ({ st with reseq := r }, o)
  | "codec" :: rest => (st, stepCodec rest)
  | "host" :: rest =>
    let (h, o) := stepHost st.host rest
    ({ st with host := h }, o)
  | "admit" :: rest => (st, stepAdmit rest)
  | "topic" :: rest => (st, stepTopic rest)
  | "metric" :: rest => (st, stepMetric rest)
  | "wire" :: rest => (st, stepWire rest)
  | "birth" :: rest =>
    let (b, o) := stepBirth st.birth rest
    ({ st with birth := b }, o)
  | "cmd" :: rest =>
    let (c, o) := stepCmd st.cmd rest
    ({ st with cmd := c }, o)
  | "hcmd" :: rest =>
    let (c, o) := stepHcmd st.hcmd rest
    ({ st with hcmd := c }, o)
  | "smgr" :: rest =>
    let (c, o) := stepSmgr st.smgr rest
    ({ st with smgr := c }, o)
  | "nodeabs" :: rest =>
    let (n, o) := stepNodeAbs st.nodeabs rest
    ({ st with nodeabs := n }, o)
  | "eon" :: rest =>
    let (e, o) := stepEon st.eon rest
    ({ st with eon := e }, o)
  | "rumqtt" :: rest =>
    let (r, o) := stepRumqtt st.rumqtt rest
    ({ st with rumqtt := r }, o)
  | "hostq" :: rest =>
    let (h, o) := stepHostQ st.hostq rest
    ({ st with hostq := h }, o)
  | "hll" :: rest =>
    let (h, o) := stepHll st.hll rest
    ({ st with hll := h }, o)
  | "hostloop" :: rest =>
    let (h, o) := stepHostLoop st.hostloop rest
    ({ st with hostloop := h }, o)
  | "derive" :: rest =>
    let (d, o) := stepDerive st.derive rest
    ({ st with derive := d }, o)
  | "templ" :: rest =>
    let (r, o) := stepTempl st.templ rest
    ({ st with templ := r }, o)
  | _ => (st, "bad-op")

partial def loop (h : IO.FS.Stream) (out : IO.FS.Stream) (st : DState) : IO Unit := do
  let line ← h.getLine
  if line.isEmpty then return ()
  let (st', o) := step st line
  out.putStrLn o
  loop h out st'

def main : IO Unit := do
  let out ← IO.getStdout
  loop (← IO.getStdin) out {}
  out.flush
