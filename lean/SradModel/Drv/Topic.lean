import SradModel.Model.Topic
import SradModel.Drv.Util

/-!
Driver for component `topic` (C13). Requests (after the component name):
  new
  vname  <hex>                         validate_name
  build  <hex|~> <hex|~>               EoNBuilder: group id, node id (`~` = not supplied)
  regdev <hex>                         register_device on a fresh node
  regdev2 <hex> <hex>                  register two devices in turn; answer for the second
  app    <hex>                         AppEventLoop::new
  ntopic <verb> <hexg> <hexn>          NodeTopic::new + qos/retain
  dtopic <verb> <hexg> <hexn> <hexd>   DeviceTopic::new + qos/retain
  stopic <hexh>                        StateTopic::new_host
  spay   <0|1> <ts>                    Vec<u8>::from(StatePayload)
  spay2  <0|1> <ts>                    Vec<u8>::try_from(StateBirthDeathCertificate)
  cert   <hexjson>                     StateBirthDeathCertificate::try_from(&[u8])
  parse  <hextopic> <hexpayload> <0|1> topic_and_payload_to_event; the flag says whether the
                                       real prost decoder accepts the payload (prost is external)
-/
namespace Srad.Drv
open Srad Srad.Topic Srad.StateJson

def parseVerb : String → Option Verb
  | "birth" => some .birth | "death" => some .death | "data" => some .data | "cmd" => some .cmd
  | _ => none

def showQR (qr : QoS × Bool) : String :=
  (match qr.1 with | .atMostOnce => "q0" | .atLeastOnce => "q1") ++ (if qr.2 then " r1" else " r0")

def showCtor : Ctor → String
  | .ok => "ok" | .err => "err" | .panic => "panic"

def showReason : Reason → String
  | .topic => "topic" | .utf8 => "utf8" | .decode => "decode" | .json => "json"

def showKind : Kind → String
  | .birth => "birth" | .death => "death" | .data => "data" | .cmd => "cmd"
  | .other s => "other:" ++ hex s

def showEvent : Event Unit → String
  | .node g n k _ => s!"node {hex g} {hex n} {showKind k}"
  | .device g n d k _ => s!"device {hex g} {hex n} {hex d} {showKind k}"
  | .state h o ts => s!"state {hex h} {if o then "1" else "0"} {ts}"
  | .invalid r t p => s!"invalid {showReason r} {hex t} {hex p}"
  | .panic => "panic"

def tpOptHex (s : String) : Option (Option Bytes) :=
  if s = "~" then some none else (unhex s).map some

def parseFlag : String → Option Bool
  | "1" => some true | "0" => some false | _ => none

def stepTopic : List String → String
  | ["new"] => "ok"
  | ["vname", h] =>
    match unhex h with
    | some s => if validateName s then "ok" else "err"
    | none => "bad-op"
  | ["build", g, n] =>
    match tpOptHex g, tpOptHex n with
    | some g, some n => showCtor (eonBuild g n)
    | _, _ => "bad-op"
  | ["regdev", d] =>
    match unhex d with
    | some d => showCtor (registerDevice [] d)
    | none => "bad-op"
  | ["regdev2", d1, d2] =>
    match unhex d1, unhex d2 with
    | some d1, some d2 =>
      showCtor (registerDevice (if registerDevice [] d1 = .ok then [d1] else []) d2)
    | _, _ => "bad-op"
  | ["app", h] =>
    match unhex h with
    | some h => showCtor (appNew h)
    | none => "bad-op"
  | ["ntopic", v, g, n] =>
    match parseVerb v, unhex g, unhex n with
    | some v, some g, some n => hex (nodeTopic g v n) ++ " " ++ showQR (nodeQosRetain v)
    | _, _, _ => "bad-op"
  | ["dtopic", v, g, n, d] =>
    match parseVerb v, unhex g, unhex n, unhex d with
    | some v, some g, some n, some d => hex (deviceTopic g v n d) ++ " " ++ showQR (deviceQosRetain v)
    | _, _, _, _ => "bad-op"
  | ["stopic", h] =>
    match unhex h with
    | some h => hex (stateHostTopic h) ++ " " ++ showQR stateQosRetain
    | none => "bad-op"
  | ["spay", o, ts] =>
    match parseFlag o, ts.toNat? with
    | some o, some ts => if ts < 18446744073709551616 then hex (printCert o ts) else "bad-op"
    | _, _ => "bad-op"
  | ["spay2", o, ts] =>
    match parseFlag o, ts.toNat? with
    | some o, some ts => if ts < 18446744073709551616 then hex (printCertSerde o ts) else "bad-op"
    | _, _ => "bad-op"
  | ["cert", j] =>
    match unhex j with
    | some j =>
      match parseCert validUtf8 j with
      | some (o, ts) => s!"ok {if o then "1" else "0"} {ts}"
      | none => "err"
    | none => "bad-op"
  | ["parse", t, p, f] =>
    match unhex t, unhex p, parseFlag f with
    | some t, some p, some f =>
      showEvent (parse validUtf8 (fun _ => if f then some () else none) t p)
    | _, _, _ => "bad-op"
  | _ => "bad-op"

end Srad.Drv
