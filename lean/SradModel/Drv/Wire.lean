import SradModel.Model.Wire
import SradModel.Drv.Util

/-!
Driver for the wire-format model (component `wire`).

Tree syntax (one token, no blanks): `u<decimal>` number (uint32/uint64, float/double as IEEE
bits), `b0`/`b1` bool, `x<hex>` string or bytes (`x-` empty), `(<tag>:<tree>,…)` message with its
records in writing order, `()` the empty message.

  wire new                     -> ok
  wire enc <Msg> <tree>        -> hex of `encode_to_vec` | bad-op (not a canonical typed tree)
  wire dec <Msg> <hex>         -> ok <tree> | err
  wire varint <n>              -> hex
  wire unvarint <hex>          -> ok <n> <bytes left> | err
  wire key <tag> <wt>          -> hex
  wire unkey <hex>             -> ok <tag> <wt> <bytes left> | err
-/
namespace Srad.Drv
open Srad Srad.Wire

mutual
def showVal : Val → String
  | .num n => "u" ++ toString n
  | .bool b => if b then "b1" else "b0"
  | .bytes b => "x" ++ hex b
  | .msg rs => "(" ++ showRecs rs ++ ")"
def showRecs : Recs → String
  | [] => ""
  | [(t, v)] => toString t ++ ":" ++ showVal v
  | (t, v) :: rest => toString t ++ ":" ++ showVal v ++ "," ++ showRecs rest
end

def digitsToNat (ds : List Char) : Nat := ds.foldl (fun a c => 10 * a + (c.toNat - 48)) 0

def isHexChar (c : Char) : Bool := ('0' ≤ c ∧ c ≤ '9') ∨ ('a' ≤ c ∧ c ≤ 'f')

mutual
def parseVal : Nat → List Char → Option (Val × List Char)
  | 0, _ => none
  | _ + 1, 'u' :: cs =>
    let ds := cs.takeWhile Char.isDigit
    if ds.isEmpty then none else some (.num (digitsToNat ds), cs.dropWhile Char.isDigit)
  | _ + 1, 'b' :: '0' :: cs => some (.bool false, cs)
  | _ + 1, 'b' :: '1' :: cs => some (.bool true, cs)
  | _ + 1, 'x' :: '-' :: cs => some (.bytes [], cs)
  | _ + 1, 'x' :: cs =>
    let ds := cs.takeWhile isHexChar
    match unhexAux ds with
    | some b => if b.isEmpty then none else some (.bytes b, cs.dropWhile isHexChar)
    | none => none
  | _ + 1, '(' :: ')' :: cs => some (.msg [], cs)
  | f + 1, '(' :: cs => (parseRecs f cs).map fun p => (.msg p.1, p.2)
  | _, _ => none
def parseRecs : Nat → List Char → Option (Recs × List Char)
  | 0, _ => none
  | f + 1, cs =>
    let ds := cs.takeWhile Char.isDigit
    if ds.isEmpty then none else
    match cs.dropWhile Char.isDigit with
    | ':' :: cs1 =>
      match parseVal f cs1 with
      | some (v, ')' :: cs2) => some ([(digitsToNat ds, v)], cs2)
      | some (v, ',' :: cs2) =>
        (parseRecs f cs2).map fun p => ((digitsToNat ds, v) :: p.1, p.2)
      | _ => none
    | _ => none
end

def parseTree (s : String) : Option Val :=
  match parseVal (s.length + 1) s.toList with
  | some (v, []) => some v
  | _ => none

/-- depth accepted by `wire enc`: the encoder has no recursion limit -/
def encDepth : Nat := 400

def stepWire : List String → String
  | ["new"] => "ok"
  | ["enc", m, tree] =>
    match parseTree tree with
    | some v =>
      if typedMsgD validUtf8 sparkplug encDepth m v && canonMsgD sparkplug encDepth m v then
        hex (encodeMsg sparkplug m v)
      else "bad-op"
    | none => "bad-op"
  | ["dec", m, hx] =>
    match unhex hx, lookupMsg sparkplug m with
    | some bs, some _ =>
      match decodeMsg validUtf8 sparkplug m bs with
      | some v => "ok " ++ showVal v
      | none => "err"
    | _, _ => "bad-op"
  | ["varint", n] =>
    match n.toNat? with
    | some n => if n < 18446744073709551616 then hex (encodeVarint n) else "bad-op"
    | none => "bad-op"
  | ["unvarint", hx] =>
    match unhex hx with
    | some bs =>
      match decodeVarint bs with
      | some (n, rest) => s!"ok {n} {rest.length}"
      | none => "err"
    | none => "bad-op"
  | ["key", t, w] =>
    match t.toNat?, w.toNat? with
    | some t, some w => if 1 ≤ t ∧ t < 536870912 ∧ w ≤ 5 then hex (encodeKey t w) else "bad-op"
    | _, _ => "bad-op"
  | ["unkey", hx] =>
    match unhex hx with
    | some bs =>
      match decodeKey bs with
      | some (t, w, rest) => s!"ok {t} {w} {rest.length}"
      | none => "err"
    | none => "bad-op"
  | _ => "bad-op"

end Srad.Drv
