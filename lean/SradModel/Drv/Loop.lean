/-
Driver for the abstract sequential edge node of `Model/Loop` (component `nodeabs`), so that it can
be tied to the real edge node by differential execution.

  nodeabs new devs=<d1,d2,…>          (`devs=_` = no devices; all registered, disabled)   → ok
  nodeabs online clock=<ms>            nodeabs offline clock=<ms>
  nodeabs pub node clock=<ms>          nodeabs pub dev <d> clock=<ms>
  nodeabs enable <d> clock=<ms>        nodeabs disable <d> clock=<ms>
  nodeabs rebirth clock=<ms>           nodeabs ncmd clock=<ms>      (NCMD Node Control/Rebirth = true)

The three birth operations (`online`, `rebirth`, `ncmd`) take an optional `order=<d,…>` before
`clock=`: the permutation parameter of the model (the iteration order of the device map at this
birth, as observed). `Node.devs` is put into that order — the listed devices first, in the order
given, the unlisted ones behind in their present order — before the operation runs; the listed
names must be registered and pairwise distinct. No other operation looks at the order of `devs`.

Answer: the messages handed over, in order, `;`-separated, e.g.
`NBIRTH:seq=0:bd=3;DBIRTH:d=1:seq=1;NDATA:seq=2`; `offline` answers the new will `WILL:bd=<n>`;
`-` if nothing is handed over. Device names are numbers (`7` or `d7`). Unknown / malformed → `bad-op`.
-/
import SradModel.Model.Loop
import SradModel.Drv.Util
import SradModel.Drv.Host

namespace Srad.Drv
open Srad Srad.Loop

structure NodeAbsD where
  node : Node := {}

def parseDevName (s : String) : Option Nat :=
  match s.toList with
  | 'd' :: t => (String.ofList t).toNat?
  | _ => s.toNat?

def showMsg : Msg → String
  | .nbirth _ bd _ => s!"NBIRTH:seq=0:bd={bd}"
  | .ndeath bd => s!"NDEATH:bd={bd}"
  | .ndata seq _ _ => s!"NDATA:seq={seq}"
  | .dbirth d seq _ _ => s!"DBIRTH:d={d}:seq={seq}"
  | .ddeath d seq _ _ => s!"DDEATH:d={d}:seq={seq}"
  | .ddata d seq _ _ => s!"DDATA:d={d}:seq={seq}"

def showMsgs (ms : List Msg) : String :=
  if ms.isEmpty then "-" else joinWith ";" (ms.map showMsg)

def nodup (l : List Nat) : Bool :=
  match l with
  | [] => true
  | x :: t => !t.contains x && nodup t

/-- put `devs` into the observed iteration order: the listed ones first, the others behind -/
def reorderDevs (order : List Nat) (devs : List Dev) : List Dev :=
  order.filterMap (fun d => devs.find? (fun x => x.name == d)) ++
    devs.filter (fun x => !order.contains x.name)

/-- take the `order=` token (if any) out of a request; `none` = malformed -/
def takeOrder (ws : List String) : Option (List String × Option (List Nat)) :=
  match ws.filter (fun w => w.startsWith "order=") with
  | [] => some (ws, none)
  | [w] =>
    match (kvGet [w] "order").bind (fun v => mapM? parseDevName (splitList v)) with
    | some names => if nodup names then some (ws.filter (fun w => !w.startsWith "order="), some names) else none
    | none => none
  | _ => none

def stepNodeAbs (st : NodeAbsD) (ws : List String) : NodeAbsD × String :=
  match ws with
  | ["new", devs] =>
    match kvGet [devs] "devs" with
    | none => (st, "bad-op")
    | some v =>
      match mapM? parseDevName (splitList v) with
      | none => (st, "bad-op")
      | some names =>
        if nodup names then ({ node := { devs := names.map fun d => { name := d } } }, "ok")
        else (st, "bad-op")
  | _ =>
    match takeOrder ws with
    | none => (st, "bad-op")
    | some (ws, order) =>
    -- `order=` only on a birth operation, only registered devices
    let orderOk : Bool :=
      match order with
      | none => true
      | some names =>
        names.all (fun d => (st.node.findDev d).isSome) &&
        (match ws with | ["online", _] | ["rebirth", _] | ["ncmd", _] => true | _ => false)
    if !orderOk then (st, "bad-op") else
    let st : NodeAbsD :=
      match order with
      | none => st
      | some names => { node := { st.node with devs := reorderDevs names st.node.devs } }
    match kvNat ws "clock" with
    | none => (st, "bad-op")
    | some clk =>
      let fin (r : Node × List Msg) : NodeAbsD × String := ({ node := r.1 }, showMsgs r.2)
      let withDev (d : String) (f : Nat → Node × List Msg) : NodeAbsD × String :=
        match parseDevName d with
        | none => (st, "bad-op")
        | some k => if (st.node.findDev k).isSome then fin (f k) else (st, "bad-op")
      match ws with
      | ["online", _] => fin (st.node.goOnline clk)
      | ["offline", _] =>
        let r := st.node.goOffline
        ({ node := r.1 }, match r.2 with | some bd => s!"WILL:bd={bd}" | none => "-")
      | ["pub", "node", _] => fin (st.node.pubNode clk)
      | ["pub", "dev", d, _] => withDev d fun k => st.node.pubDev k clk
      | ["enable", d, _] => withDev d fun k => st.node.enable k clk
      | ["disable", d, _] => withDev d fun k => st.node.disable k clk
      | ["rebirth", _] => fin (st.node.rebirth clk)
      | ["ncmd", _] => fin (st.node.rebirth clk)
      | _ => (st, "bad-op")

end Srad.Drv
