import SradModel.Model.Codec
import SradModel.Drv.Util

namespace Srad.Drv
open Srad Srad.Codec

def parseSTy : String → Option STy
  | "bool" => some .bool | "u8" => some .u8 | "u16" => some .u16 | "u32" => some .u32
  | "u64" => some .u64 | "i8" => some .i8 | "i16" => some .i16 | "i32" => some .i32
  | "i64" => some .i64 | "f32" => some .f32 | "f64" => some .f64 | "string" => some .string
  | "datetime" => some .datetime | _ => none

def parseSV (t : STy) (s : String) : Option SV :=
  match t with
  | .bool => if s = "1" then some (.b true) else if s = "0" then some (.b false) else none
  | .string => (unhex s).map .s
  | _ => s.toNat?.map .n

def showSV : SV → String
  | .n x => s!"n:{x}"
  | .b v => if v then "b:1" else "b:0"
  | .s b => "s:" ++ hex b

def showErr : Err → String
  | .fmt => "fmt" | .size => "size" | .utf8 => "utf8" | .variant => "variant" | .value => "value"
  | .datatype => "datatype" | .unsupported => "unsupported"

def showRes {α} (f : α → String) : Res α → String
  | .ok v => "ok " ++ f v
  | .err e => "err " ++ showErr e
  | .panic => "panic"

def showPV : PV → String
  | .int x => s!"int {x}"
  | .long x => s!"long {x}"
  | .float x => s!"float {x}"
  | .double x => s!"double {x}"
  | .bool v => if v then "bool 1" else "bool 0"
  | .str s => "str " ++ hex s
  | .bytes b => "bytes " ++ hex b
  | .dataset => "dataset -"
  | .template d r =>
    "template " ++ (match d with | none => "n" | some true => "t" | some false => "f") ++ (if r then "r" else "-")
  | .ext => "ext -"
  | .pset => "pset -"
  | .psets => "psets -"

/-- `w` is the wrapper kind: variants that do not exist in that wrapper are a bad op -/
def parsePV (w variant field : String) : Option PV :=
  match variant with
  | "int" => field.toNat?.map .int
  | "long" => field.toNat?.map .long
  | "float" => field.toNat?.map .float
  | "double" => field.toNat?.map .double
  | "bool" => some (.bool (field = "1"))
  | "str" => (unhex field).map .str
  | "ext" => some .ext
  | "bytes" => if w = "m" then (unhex field).map .bytes else none
  | "dataset" => if w = "m" then some .dataset else none
  | "template" =>
    if w = "m" then
      match field.toList with
      | [d, r] =>
        some (.template (if d = 'n' then none else if d = 't' then some true else some false) (r = 'r'))
      | _ => none
    else none
  | "pset" => if w = "p" then some .pset else none
  | "psets" => if w = "p" then some .psets else none
  | _ => none

def elemWidth : String → Nat
  | "u8" | "i8" => 1
  | "u16" | "i16" => 2
  | "u32" | "i32" | "f32" => 4
  | "u64" | "i64" | "f64" | "datetime" => 8
  | _ => 0

def showNatList (l : List Nat) : String := "[" ++ joinWith "," (l.map toString) ++ "]"
def showBoolList (l : List Bool) : String := "[" ++ joinWith "," (l.map fun b => if b then "1" else "0") ++ "]"
def showStrList (l : List Bytes) : String := "[" ++ joinWith "," (l.map hex) ++ "]"

def dtName : DT → String
  | .unknown => "Unknown" | .int8 => "Int8" | .int16 => "Int16" | .int32 => "Int32" | .int64 => "Int64"
  | .uint8 => "UInt8" | .uint16 => "UInt16" | .uint32 => "UInt32" | .uint64 => "UInt64"
  | .float => "Float" | .double => "Double" | .boolean => "Boolean" | .string => "String"
  | .datetime => "DateTime" | .text => "Text" | .uuid => "Uuid" | .dataset => "DataSet"
  | .bytes => "Bytes" | .file => "File" | .template => "Template" | .propertyset => "PropertySet"
  | .propertysetlist => "PropertySetList" | .int8arr => "Int8Array" | .int16arr => "Int16Array"
  | .int32arr => "Int32Array" | .int64arr => "Int64Array" | .uint8arr => "UInt8Array"
  | .uint16arr => "UInt16Array" | .uint32arr => "UInt32Array" | .uint64arr => "UInt64Array"
  | .floatarr => "FloatArray" | .doublearr => "DoubleArray" | .boolarr => "BooleanArray"
  | .stringarr => "StringArray" | .datetimearr => "DateTimeArray"

def showKV : KV → String
  | .scalar v => showSV v
  | .arrN l => showNatList l
  | .arrB l => showBoolList l
  | .arrS l => showStrList l
  | .raw b => "raw:" ++ hex b
  | .dataset => "dataset"
  | .templDef => "templdef"
  | .templInst => "templinst"

def stepCodec : List String → String
  | ["new"] => "ok"
  | ["sc", ty, _w, val] =>
    match parseSTy ty with
    | some t =>
      match parseSV t val with
      | some v =>
        if t.holds v then
          let pv := toProto t v
          showPV pv ++ " => " ++ showRes showSV (fromProto t pv)
        else "bad-op"
      | none => "bad-op"
    | none => "bad-op"
  | ["scdec", ty, w, variant, field] =>
    match parseSTy ty, parsePV w variant field with
    | some t, some pv => showRes showSV (fromProto t pv)
    | _, _ => "bad-op"
  | ["aenc", el, vals] =>
    let items := splitList vals
    if el = "bool" then
      match mapM? (fun s => if s = "1" then some true else if s = "0" then some false else none) items with
      | some l => showPV (.bytes (encodeBool l))
      | none => "bad-op"
    else if el = "string" then
      match mapM? unhex items with
      | some l => showPV (.bytes (encodeStr l))
      | none => "bad-op"
    else if el = "u8" then
      match mapM? String.toNat? items with
      | some l => showPV (.bytes (l.map UInt8.ofNat))      -- `u8_vec_to_proto` is the identity
      | none => "bad-op"
    else
      let w := elemWidth el
      if w = 0 then "bad-op" else
      match mapM? String.toNat? items with
      | some l => showPV (.bytes (encodeW w l))
      | none => "bad-op"
  | ["adec", el, hx] =>
    match unhex hx with
    | none => "bad-op"
    | some bs =>
      if el = "bool" then showRes showBoolList (decodeBool bs).res
      else if el = "string" then showRes showStrList (decodeStr validUtf8 bs).res
      else if el = "u8" then showRes showNatList (.ok (bs.map UInt8.toNat))   -- `proto_to_u8_vec` is the identity
      else
        let w := elemWidth el
        if w = 0 then "bad-op" else showRes showNatList (decodeW w bs).res
  | ["dsval", h] =>
    -- DataSet content is not modelled (`PV.dataset` is opaque): the line only makes the request replayable;
    -- what the implementation does with it is judged by direct oracles (no panic, no abort, allocation bound)
    match unhex h with
    | some _ => "ok"
    | none => "bad-op"
  | ["kind", dt, variant, field] =>
    match dt.toNat?.bind DT.ofCode, parsePV "m" variant field with
    | some d, some pv => showRes (fun (p : DT × KV) => dtName p.1 ++ " " ++ showKV p.2) (kindOf validUtf8 d pv)
    | _, _ => "bad-op"
  | _ => "bad-op"

end Srad.Drv
