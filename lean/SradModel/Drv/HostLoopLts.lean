import SradModel.Model.HostLoopLts
import SradModel.Drv.HostLoop
import Std.Data.HashSet

/-!
Trace admission for the host event-loop LTS (component `hll`). The harness sends each burst of
stimuli together with everything the doubles observed until quiescence; the driver searches all
interleavings of the model's tasks (with the client decisions read off the observed calls) for one
that emits exactly these observations and ends quiescent, from every model state still possible.

* `hll new <cfg> <host> <now> => W:<now>`
* `hll stim burst <now> <policy> <e1,e2,…> => <tok;tok;…>`  elements: `on off so0 so1 sf0 sf1 node junk
  cancel res<id>ok res<id>err`; all of them are applied before any task runs
* `hll stim adv <now> <policy> <ms> => <tok;…>`   the harness sleeps `ms` of virtual time
* `hll stimq …` as `stim`, answers `ok seq` if the line is also admitted when every element is
  only applied once the model is quiescent (the schedule of `Model/HostLoop`), `ok nonseq` otherwise

Tokens: `W:<ts>`, `C<id>:sub:<filters>:<dec>`, `C<id>:state:<topic>:on:<ts>:blk:<dec>`,
`C<id>:state:<topic>:off:<ts>:try:<dec>`, `C<id>:disc:<dec>`, `R<id>:ok|err`, `P:<element>`, `E:<AppEvent>`.
-/
namespace Srad.Drv
open Srad Srad.HostLoop Srad.HostLoopLts

structure HllD where
  cfg : SubCfg := .allGroups
  host : Str := []
  sts : List HostLoopLts.St := []

def hllDec : Dec → String
  | .acc => "acc" | .rej => "rej" | .park => "park"

def hllEv : HostLoopLts.Ev → String
  | .online => "on" | .offline => "off"
  | .state true false => "so0" | .state true true => "so1"
  | .state false false => "sf0" | .state false true => "sf1"
  | .node => "node" | .junk => "junk"

def hllRet : HostLoopLts.Ret → String
  | .online => "Online" | .offline => "Offline" | .cancelled => "Cancelled" | .node => "Node"

def hllShow (d : HllD) : Obs → String
  | .will ts => s!"W:{ts}"
  | .sub _ id dec =>
    let fs := (subscribeTopics d.cfg d.host).map fun t => hlHexOfStr t.render
    s!"C{id}:sub:" ++ (if fs.isEmpty then "_" else joinWith "," fs) ++ ":" ++ hllDec dec
  | .stateOn _ id ts dec => s!"C{id}:state:{hlHexOfStr (stateHostTopic d.host)}:on:{ts}:blk:{hllDec dec}"
  | .stateOff id ts dec => s!"C{id}:state:{hlHexOfStr (stateHostTopic d.host)}:off:{ts}:try:{hllDec dec}"
  | .disc id dec => s!"C{id}:disc:{hllDec dec}"
  | .resolved id ok => s!"R{id}:" ++ (if ok then "ok" else "err")
  | .polled e => "P:" ++ hllEv e
  | .event r => "E:" ++ hllRet r
  | _ => "ghost"

def hllTokDec (tok : String) : Option Dec :=
  if tok.startsWith "C" then
    match (tok.splitOn ":").getLast? with
    | some "acc" => some .acc
    | some "rej" => some .rej
    | some "park" => some .park
    | _ => none
  else none

def hllNextDec (toks : List String) : Dec := (toks.findSome? hllTokDec).getD .acc

def hllMatch (d : HllD) : List Obs → List String → Option (List String)
  | [], ts => some ts
  | o :: os, ts =>
    if o.ghost then hllMatch d os ts
    else match ts with
      | t :: ts' => if hllShow d o = t then hllMatch d os ts' else none
      | [] => none

def hllParseElem (w : String) : Option Stim :=
  match w with
  | "on" => some (.ev .online) | "off" => some (.ev .offline)
  | "so0" => some (.ev (.state true false)) | "so1" => some (.ev (.state true true))
  | "sf0" => some (.ev (.state false false)) | "sf1" => some (.ev (.state false true))
  | "node" => some (.ev .node) | "junk" => some (.ev .junk)
  | "cancel" => some .cancel
  | _ =>
    if w.startsWith "res" then
      if w.endsWith "ok" then ((w.drop 3).dropEnd 2).toString.toNat?.map fun n => Stim.resolve n true
      else if w.endsWith "err" then ((w.drop 3).dropEnd 3).toString.toNat?.map fun n => Stim.resolve n false
      else none
    else none

/-- Every quiescent state the model can be in after the stimuli `stims0` and exactly the tokens
`toks0`. `lazy`: a stimulus is applied only when the model is quiescent (sequential schedule);
otherwise all stimuli are applied first. Returns the end states, the largest number of tokens
matched on any path and whether the budget ran out. -/
partial def hllExplore (d : HllD) (lazy : Bool) (budget : Nat) (s0 : HostLoopLts.St)
    (stims0 : List Stim) (toks0 : List String) : List HostLoopLts.St × Nat × Bool :=
  let n0 := toks0.length
  let rec go (work : List (HostLoopLts.St × List Stim × List String))
      (visited : Std.HashSet (HostLoopLts.St × Nat × Nat))
      (ends : List HostLoopLts.St) (best : Nat) : List HostLoopLts.St × Nat × Bool :=
    if visited.size > budget then (ends, best, true)
    else
      match work with
      | [] => (ends, best, false)
      | (s, stims, toks) :: rest =>
        if visited.contains (s, stims.length, toks.length) then go rest visited ends best
        else
          let visited := visited.insert (s, stims.length, toks.length)
          let best := max best (n0 - toks.length)
          let dec := hllNextDec toks
          let cands : List (HostLoopLts.St × List Obs) :=
            (allTks s).filterMap fun t => HostLoopLts.step s t dec
          let stimMove : List (HostLoopLts.St × List Stim × List String) :=
            match stims with
            | [] => []
            | x :: xs =>
              if lazy && !cands.isEmpty then []
              else
                let (s1, o) := applyStim s x
                match hllMatch d o toks with
                | some r => [(s1, xs, r)]
                | none => []
          if !lazy && !stims.isEmpty then go (stimMove ++ rest) visited ends best
          else if cands.isEmpty && stims.isEmpty then
            if toks.isEmpty then go rest visited (if ends.contains s then ends else s :: ends) best
            else go rest visited ends best
          else
            let next := cands.filterMap fun c =>
              match hllMatch d c.2 toks with
              | some r => some (c.1, stims, r)
              | none => none
            go (stimMove ++ next ++ rest) visited ends best
  go [(s0, stims0, toks0)] {} [] 0

def hllSplitArrow (ws : List String) : List String × List String :=
  match ws.span (· ≠ "=>") with
  | (a, _ :: b) => (a, b)
  | (a, []) => (a, [])

def hllRun (d : HllD) (stims : List Stim) (toks : List String) (classify : Bool) : HllD × String :=
  let res := d.sts.map fun s => hllExplore d false 200000 s stims toks
  let ends := (res.flatMap (·.1)).foldl (fun acc s => if acc.contains s then acc else s :: acc) []
  let exhausted := res.any (·.2.2)
  if !ends.isEmpty then
    let d' := { d with sts := ends.map fun s => (applyStim s .settle).1 }
    if classify then
      let seqOk := d.sts.any fun s => !(hllExplore d true 200000 s stims toks).1.isEmpty
      (d', if seqOk then "ok seq" else "ok nonseq")
    else (d', "ok")
  else
    let best := res.foldl (fun m r => max m r.2.1) 0
    ({ d with sts := d.sts.map fun s => (applyStim s .settle).1 },
      (if exhausted then "budget-exhausted" else "rejected") ++
        s!" states={d.sts.length} matched={best}/{toks.length} next=" ++ (toks.drop best).headD "<quiescence>")

def stepHll (d : HllD) (ws : List String) : HllD × String :=
  let (req, obsW) := hllSplitArrow ws
  let toks : List String :=
    match obsW with
    | [] => []
    | ["-"] => []
    | l => (joinWith " " l).splitOn ";" |>.filter (· ≠ "")
  match req with
  | ["new", cfg, host, now] =>
    match hlParseCfg cfg, hlStrOfHex host, now.toNat? with
    | some cfg, some host, some now =>
      let d : HllD := { cfg := cfg, host := host, sts := [] }
      if !validName host then (d, if toks = ["panic"] then "ok" else "rejected panic")
      else
        match hllMatch d (initObs now) toks with
        | some [] => ({ d with sts := [(applyStim (HostLoopLts.init now) .settle).1] }, "ok")
        | _ => (d, "rejected new")
    | _, _, _ => (d, "bad-op")
  | [kind, "burst", now, _pol, elems] =>
    if kind ≠ "stim" ∧ kind ≠ "stimq" then (d, "bad-op") else
    match now.toNat?, mapM? hllParseElem (splitList elems) with
    | some now, some stims => hllRun d (.clock now :: stims) toks (kind = "stimq")
    | _, _ => (d, "bad-op")
  | [kind, "adv", now, _pol, ms] =>
    if kind ≠ "stim" ∧ kind ≠ "stimq" then (d, "bad-op") else
    match now.toNat?, ms.toNat? with
    | some now, some ms => hllRun d [.clock now, .adv ms] toks (kind = "stimq")
    | _, _ => (d, "bad-op")
  | _ => (d, "bad-op")

end Srad.Drv
