import SradModel.Model.HostCmd
import SradModel.Model.HostCmdWire
import SradModel.Drv.Cmd
import SradModel.Drv.Codec
import SradModel.Drv.Util

/-! Driver for component `hcmd` (M15 / C15 host side): parses the request lines of
harness/src/hcmd.rs, runs `Srad.HostCmd` (and through it `Srad.Topic.parse` and `Srad.Cmd.step`),
prints the client call resp. the node's effects in the harness' canonical form.

  hcmd new <ghex> <nhex> <devhex,..|_> <cooldown> <clock>
      build the edge node (ids as given), register and enable the devices, take it online
      → `err` | `ok <filterhex,..> | <effects>`
  hcmd pub <blk|try>.<a|r> n <ghex> <nhex> <clock> <pm>*
  hcmd pub <blk|try>.<a|r> d <ghex> <nhex> <dhex> <clock> <pm>*
      `publish_metrics` / `try_publish_metrics` on the host; `a|r` = the client's answer
      pm = <id>,<ts|~>,<variant>,<field>
      id = n<namehex> | a<alias> | b<namehex>:<alias|~> (through `MetricBirthDetails::get_metric_id`)
      variant/field = a protobuf value variant (as in `cmd`) or t.<rusttype>/<scalar>
      (`PublishMetric::new::<T>`)
  hcmd rebirth <a|r> <ghex> <nhex> <clock>           `publish_node_rebirth`
      → `<method> <VERB> <topichex> <ok|err> <ts|~> seq=.. uuid=.. body=.. <wiremetric>*`
  hcmd deliver
      the last call's topic string and encoded payload through the broker, the node's client and
      the node → `unsent` | `unrouted` | `ignored` | effects as in `cmd`
  hcmd wbytes <clock> <pm>*
      the bytes `Payload::encode_to_vec` writes for `metrics_to_payload(<pm>*)` at clock reading
      <clock>, by the concrete codec `encWC` of Model/HostCmdWire.lean (C15HW); the rebirth request
      is `<pm>` = `n<hex of "Node Control/Rebirth">,~,t.bool,1`
      → `ok <hex>` | `range <hex>` (the payload is not `inRangeC validUtf8`) | `bad-op`
  hcmd wdeliver
      as `deliver`, but the payload travels as `encWC` bytes and is read by `decWC validUtf8`
-/
namespace Srad.Drv.HostCmdD
open Srad Srad.Codec Srad.Cmd Srad.HostCmd Srad.Drv.CmdD

structure HcmdSt where
  live : Bool := false
  cfg : NodeCfg := { group := [], node := [] }
  st : Cmd.St := {}
  last : Option (Call × Bool) := none

def parseId (s : String) : Option MetricId :=
  match s.toList with
  | 'n' :: rest => (unhex (String.ofList rest)).map .name
  | 'a' :: rest => (String.ofList rest).toNat?.map .alias
  | 'b' :: rest =>
    match (String.ofList rest).splitOn ":" with
    | [n, a] =>
      match unhex n, optNat a with
      | some n, some a => some (getMetricId n a)
      | _, _ => none
    | _ => none
  | _ => none

def parseValue (variant field : String) : Option PV :=
  match variant.splitOn "." with
  | ["t", ty] =>
    match parseSTy ty with
    | some ty =>
      match parseSV ty field with
      | some sv => if ty.holds sv then some (toProto ty sv) else none
      | none => none
    | none => none
  | [v] => if v = "pset" ∨ v = "psets" then none else parsePV "m" v field
  | _ => none

def parsePM (tok : String) : Option PublishMetric :=
  match tok.splitOn "," with
  | [id, ts, variant, field] =>
    match parseId id, optNat ts, parseValue variant field with
    | some id, some ts, some v =>
      let p := PublishMetric.new id v
      some (match ts with
        | some t => p.timestamp t
        | none => p)
    | _, _, _ => none
  | _ => none

def showOptBool : Option Bool → String
  | none => "~" | some true => "1" | some false => "0"

def showOptBytes : Option Bytes → String
  | none => "~" | some b => hex b

def showCore (m : Metric) : String :=
  (match m.name with | none => "~" | some n => hex n) ++ "," ++ cmdShowOptNat m.alias ++ "," ++
    cmdShowOptNat m.ts ++ "," ++ showOptBool m.isNull ++ "," ++ showValTok m.value

def showWireMetric (m : WireMetric) : String :=
  showCore m.core ++ ";" ++ cmdShowOptNat m.datatype ++ ";" ++ showOptBool m.historical ++ ";" ++
    showOptBool m.transient ++ ";" ++ (if m.hasMetadata then "1" else "0") ++ ";" ++
    (if m.hasProps then "1" else "0")

def showPayload (p : WirePayload) : String :=
  joinWith " " ([cmdShowOptNat p.ts, "seq=" ++ cmdShowOptNat p.seq, "uuid=" ++ showOptBytes p.uuid,
    "body=" ++ showOptBytes p.body] ++ p.metrics.map showWireMetric)

def showMethod : Method → String
  | .publishNode => "publish_node_message"
  | .tryPublishNode => "try_publish_node_message"
  | .publishDevice => "publish_device_message"
  | .tryPublishDevice => "try_publish_device_message"

def showVerb (m : Method) (v : Topic.Verb) : String :=
  (if m.forDevice then "D" else "N") ++
    (match v with | .birth => "BIRTH" | .death => "DEATH" | .data => "DATA" | .cmd => "CMD")

def showCall (c : Call) (ok : Bool) : String :=
  joinWith " " [showMethod c.method, showVerb c.method c.verb, hex c.topic, if ok then "ok" else "err",
    showPayload c.payload]

def parseAnswer : String → Option Bool
  | "a" => some true | "r" => some false | _ => none

def parseMode (s : String) : Option (Bool × Bool) :=
  match s.splitOn "." with
  | [m, a] =>
    match parseAnswer a with
    | some ok => if m = "blk" then some (false, ok) else if m = "try" then some (true, ok) else none
    | none => none
  | _ => none

/-- register the devices one after the other (`NodeHandle::register_device`) -/
def registerAll : List Bytes → List Bytes → Bool
  | _, [] => true
  | existing, d :: t =>
    if Topic.registerDevice existing d = .ok then registerAll (existing ++ [d]) t else false

def enableAll (st : Cmd.St) : List Nat → Cmd.St
  | [] => st
  | k :: t => enableAll (Cmd.step [] st (.dev k .enable)).1 t

def record (h : HcmdSt) (clock : Nat) (c : Call) (ok : Bool) : HcmdSt × String :=
  ({ h with st := { h.st with wall := clock }, last := some (c, ok) }, showCall c ok)

def stepHcmd (h : HcmdSt) : List String → HcmdSt × String
  | ["new", g, n, devs, cd, clock] =>
    match unhex g, unhex n, mapM? unhex (splitList devs), cd.toNat?, clock.toNat? with
    | some g, some n, some devs, some cd, some clock =>
      if Topic.eonBuild (some g) (some n) ≠ .ok ∨ !registerAll [] devs then ({}, "err") else
      let ks := List.range devs.length
      let st0 : Cmd.St := { cooldown := cd, wall := clock, devs := ks.map fun k => { name := k } }
      let st1 := enableAll st0 ks
      let r := Cmd.step [] st1 (.node (.online true))
      ({ live := true, cfg := { group := g, node := n, devices := devs }, st := r.1, last := none },
        "ok " ++ joinWith "," ((nodeFilters g n).map hex) ++ " | " ++ showEffs false r.2)
    | _, _, _, _, _ => (h, "bad-op")
  | rest =>
    if !h.live then (h, "bad-op") else
    match rest with
    | "pub" :: mode :: "n" :: g :: n :: clock :: pms =>
      match parseMode mode, unhex g, unhex n, clock.toNat?, mapM? parsePM pms with
      | some (try_, ok), some g, some n, some clock, some pms =>
        record h clock (send try_ clock (.node g n) pms) ok
      | _, _, _, _, _ => (h, "bad-op")
    | "pub" :: mode :: "d" :: g :: n :: d :: clock :: pms =>
      match parseMode mode, unhex g, unhex n, unhex d, clock.toNat?, mapM? parsePM pms with
      | some (try_, ok), some g, some n, some d, some clock, some pms =>
        record h clock (send try_ clock (.device g n d) pms) ok
      | _, _, _, _, _, _ => (h, "bad-op")
    | ["rebirth", a, g, n, clock] =>
      match parseAnswer a, unhex g, unhex n, clock.toNat? with
      | some ok, some g, some n, some clock => record h clock (publishNodeRebirth clock g n) ok
      | _, _, _, _ => (h, "bad-op")
    | "wbytes" :: clock :: pms =>
      match clock.toNat?, mapM? parsePM pms with
      | some clock, some pms =>
        let p := metricsToPayload clock pms
        (h, (if inRangeC validUtf8 p then "ok " else "range ") ++ hex (encWC p))
      | _, _ => (h, "bad-op")
    | ["wdeliver"] =>
      match h.last with
      | none => (h, "unsent")
      | some (_, false) => ({ h with last := none }, "unsent")
      | some (c, true) =>
        let h' := { h with last := none }
        match transport validUtf8 encWC (decWC validUtf8) h.cfg c with
        | .unrouted => (h', "unrouted")
        | .ignored => (h', "ignored")
        | .handled op =>
          let r := Cmd.step [] h.st op
          ({ h' with st := r.1 }, showEffs false r.2)
    | ["deliver"] =>
      match h.last with
      | none => (h, "unsent")
      | some (_, false) => ({ h with last := none }, "unsent")
      | some (c, true) =>
        let h' := { h with last := none }
        -- the codec as the identity on payload records
        match transport validUtf8 (fun _ => []) (fun _ => some c.payload) h.cfg c with
        | .unrouted => (h', "unrouted")
        | .ignored => (h', "ignored")
        | .handled op =>
          let r := Cmd.step [] h.st op
          ({ h' with st := r.1 }, showEffs false r.2)
    | _ => (h, "bad-op")

end Srad.Drv.HostCmdD
