import SradModel.Model.Cmd
import SradModel.Drv.Codec
import SradModel.Drv.Util

/-! Driver for component `cmd` (C15): parses the request lines of harness/src/cmd.rs, runs
`Srad.Cmd.step`, prints the effects in the harness' canonical form. -/
namespace Srad.Drv.CmdD
open Srad Srad.Codec Srad.Cmd

/-- driver state: the model state, whether a session exists, presentation mode -/
structure CmdSt where
  st : Cmd.St := {}
  live : Bool := false
  simple : Bool := false
  ndev : Nat := 0

def optNat (s : String) : Option (Option Nat) :=
  if s = "~" then some none else s.toNat?.map some

def parseMetric (tok : String) : Option Metric :=
  match tok.splitOn "," with
  | [n, a, t, nl, variant, field] =>
    let name? : Option (Option Bytes) := if n = "~" then some none else (unhex n).map some
    let null? : Option (Option Bool) :=
      if nl = "~" then some none else if nl = "1" then some (some true)
      else if nl = "0" then some (some false) else none
    let val? : Option (Option PV) :=
      if variant = "~" then (if field = "~" then some none else none)
      else (parsePV "m" variant field).map some
    match name?, optNat a, optNat t, null?, val? with
    | some name, some alias, some ts, some isNull, some value =>
      some { name := name, alias := alias, ts := ts, isNull := isNull, value := value }
    | _, _, _, _, _ => none
  | _ => none

def parsePayload : List String → Option Payload
  | ts :: ms =>
    match optNat ts, mapM? parseMetric ms with
    | some t, some l => some { ts := t, metrics := l }
    | _, _ => none
  | [] => none

def parseKind : String → Option MsgKind
  | "cmd" => some .cmd | "data" => some .data | "birth" => some .birth | "death" => some .death
  | "other" => some .other | _ => none

def parseDecs (s : String) : Option (List Dec) :=
  if s = "_" then some [] else
  mapM? (fun c => if c = 'a' then some Dec.accept else if c = 'r' then some .reject
                  else if c = 'p' then some .park else none) s.toList

def parseDev (s : String) : Option Nat :=
  match s.toList with
  | 'd' :: rest => (String.ofList rest).toNat?
  | _ => none

def parseTarget (s : String) : Option (Option Nat) :=
  if s = "n" then some none else (parseDev s).map some

/-- `t:namehex:alias;…` -/
def parseAliasTable (s : String) : Option (List (Option Nat × Bytes × Nat)) :=
  if s = "_" then some [] else
  mapM? (fun e => match e.splitOn ":" with
    | [t, n, a] =>
      match parseTarget t, unhex n, a.toNat? with
      | some t, some n, some a => some (t, n, a)
      | _, _, _ => none
    | _ => none) (s.splitOn ";")

def aliasFn (tbl : List (Option Nat × Bytes × Nat)) (t : Option Nat) (n : Bytes) : Nat :=
  match tbl.find? (fun e => e.1 == t && e.2.1 == n) with
  | some e => e.2.2
  | none => 0

def showValTok : Option PV → String
  | none => "~,~"
  | some v => (showPV v).replace " " ","

def cmdShowOptNat : Option Nat → String
  | none => "~"
  | some n => toString n

def showItem (m : MessageMetric) : String :=
  (match m.id with
    | .alias a => s!"a{a}"
    | .name n => "n" ++ hex n) ++ "," ++ cmdShowOptNat m.ts ++ "," ++ showValTok m.value

def showItems (l : List MessageMetric) : String := "[" ++ joinWith "+" (l.map showItem) ++ "]"

def showCbVal : Option SV → String
  | none => "~"
  | some v => showSV v

/-- insertion of `(k, s)` keeping keys ascending and equal keys in arrival order -/
def insertByKey (k : Nat) (s : String) : List (Nat × String) → List (Nat × String)
  | [] => [(k, s)]
  | (k', s') :: t => if k < k' then (k, s) :: (k', s') :: t else (k', s') :: insertByKey k s t

def showEffs (simple : Bool) (effs : List Eff) : String :=
  let node := effs.filterMap fun e => match e with
    | .sub => some "SUB"
    | .nbirth s b => some s!"NBIRTH s{s} b{b}"
    | .will b => some s!"WILL b{b}"
    | .cmd none ts ms => if simple then none else some s!"NCMD {ts} {showItems ms}"
    | .cb none n v => some s!"CB n {hex n} {showCbVal v}"
    | .panic => some "PANIC"
    | _ => none
  let dev := effs.foldl (fun acc e => match e with
    | .cmd (some d) ts ms => if simple then acc else insertByKey d s!"DCMD d{d} {ts} {showItems ms}" acc
    | .cb (some d) n v => insertByKey d s!"CB d{d} {hex n} {showCbVal v}" acc
    | .dbirth d _ => insertByKey d s!"DBIRTH d{d}" acc
    | .ddeath d _ => insertByKey d s!"DDEATH d{d}" acc
    | _ => acc) ([] : List (Nat × String))
  let seqs := effs.filterMap fun e => match e with
    | .dbirth _ s => some (toString s)
    | .ddeath _ s => some (toString s)
    | _ => none
  let parts := node ++ dev.map (·.2) ++ (if seqs.isEmpty then [] else ["seqs=" ++ joinWith "," seqs])
  if parts.isEmpty then "-" else joinWith " | " parts

def runOp (c : CmdSt) (decs : List Dec) (op : Cmd.Op) : CmdSt × String :=
  let r := Cmd.step decs c.st op
  ({ c with st := r.1 }, showEffs c.simple r.2)

def stepCmd (c : CmdSt) : List String → CmdSt × String
  | ["new", cd, wall, ndev, simple, tbl] =>
    match cd.toNat?, wall.toNat?, ndev.toNat?, parseAliasTable tbl with
    | some cd, some wall, some ndev, some tbl =>
      if simple ≠ "0" ∧ simple ≠ "1" then (c, "bad-op") else
      ({ st := { cooldown := cd, wall := wall, alias := aliasFn tbl,
                 devs := (List.range ndev).map fun k => { name := k } },
         live := true, simple := simple = "1", ndev := ndev }, "ok")
    | _, _, _, _ => (c, "bad-op")
  | ["fullqueue"] =>
    -- the client's request queue is full from now on: try_ calls fail, blocking calls wait and get
    -- through; every hand-over of this model is a blocking call, so nothing changes
    (c, if c.live then "ok" else "bad-op")
  | rest =>
    if !c.live then (c, "bad-op") else
    match rest with
    | ["wall", ms] =>
      match ms.toNat? with
      | some ms => ((runOp c [] (.setWall ms)).1, "ok")
      | none => (c, "bad-op")
    | ["reg", t, name, al, cb, ty] =>
      if !c.simple then (c, "bad-op") else
      match parseTarget t, unhex name, parseSTy ty with
      | some t, some name, some ty =>
        if (al ≠ "0" ∧ al ≠ "1") ∨ (cb ≠ "0" ∧ cb ≠ "1") then (c, "bad-op") else
        let known := match t with
          | none => true
          | some d => decide (d < c.ndev)
        if !known then (c, "bad-op") else
        let mgr : Option Mgr := match t with
          | none => some c.st.nodeMgr
          | some d => (c.st.devs.find? (fun (x : Dev) => x.name == d)).map (fun (x : Dev) => x.mgr)
        match mgr with
        | none => (c, "bad-op")     -- unregistered device: outside the modelled fragment
        | some g =>
        let dup := g.metrics.any (fun x => x.name == name)
        let c' := (runOp c [] (.reg t { name := name, useAlias := al = "1", hasCb := cb = "1", ty := ty })).1
        (c', if dup then "dup" else "ok")
      | _, _, _ => (c, "bad-op")
    | ["online", sub, decs] =>
      if c.st.parked.isSome then (c, "bad-op") else
      match parseDecs decs with
      | some decs =>
        if sub ≠ "a" ∧ sub ≠ "r" then (c, "bad-op") else runOp c decs (.node (.online (sub = "a")))
      | none => (c, "bad-op")
    | ["offline"] =>
      if c.st.parked.isSome then (c, "bad-op") else runOp c [] (.node .offline)
    | ["resolve", ok, decs] =>
      match parseDecs decs with
      | some decs => if ok ≠ "a" ∧ ok ≠ "r" then (c, "bad-op") else runOp c decs (.resolve (ok = "a"))
      | none => (c, "bad-op")
    | ["enable", d] =>
      match parseDev d with
      | some d => runOp c [] (.dev d .enable)
      | none => (c, "bad-op")
    | ["disable", d] =>
      match parseDev d with
      | some d => runOp c [] (.dev d .disable)
      | none => (c, "bad-op")
    | ["unreg", d] =>
      match parseDev d with
      | some d => runOp c [] (.unreg d)
      | none => (c, "bad-op")
    | "ncmd" :: decs :: kind :: payload =>
      match parseDecs decs, parseKind kind, parsePayload payload with
      | some decs, some kind, some p => runOp c decs (.node (.msg kind p))
      | _, _, _ => (c, "bad-op")
    | "dcmd" :: d :: kind :: payload =>
      match parseDev d, parseKind kind, parsePayload payload with
      | some d, some kind, some p => runOp c [] (.dev d (.cmd kind p))
      | _, _, _ => (c, "bad-op")
    | _ => (c, "bad-op")

end Srad.Drv.CmdD
