import SradModel.Model.HostLoop
import SradModel.Model.Topic
import SradModel.Drv.Util

/-!
Driver for M10 (component `hostloop`). Requests (strings are hex of their UTF-8 bytes, `-` = empty):

* `hostloop new <loop|loopr|app> <cfg> <host> <now>` — `AppEventLoop::new`; cfg = `all` | `single:<g>` |
  `custom:<item>,…` (`custom:_` = empty list) with item = `g.<g>` | `n.<g>.<n>`
* `hostloop ev online|offline|other <now>`, `hostloop ev state <host> <0|1> <ts> <now>`
* `hostloop wire <topic> <payload> <now>` — a received publish as raw bytes (hex): the event is what the
  model of `topic_and_payload_to_event` (`Topic.parse`, certificate reader `StateJson.parseCert`) makes
  of it; only STATE / invalid publishes belong to this request language (a node or device message is
  `bad-op`)
* `hostloop cancel <now>`, `hostloop timeout <now>`
* `hostloop match <filter> <topic>`, `hostloop valid <name>`,
  `hostloop topic state <h>` | `node <g> <v> <n>` | `device <g> <v> <n> <d>`

Answer of a step: effects joined by `;` (`-` if none), ` | `, returned AppEvents joined by `,`.
-/
namespace Srad.Drv
open Srad Srad.HostLoop

structure HLState where
  cfg : SubCfg := .allGroups
  host : Str := []
  st : Option St := none
  app : Bool := false

def hlStrOfHex (s : String) : Option Str :=
  match unhex s with
  | none => none
  | some b => (String.fromUTF8? ⟨b.toArray⟩).map String.toList

def hlHexOfStr (s : Str) : String := hex (String.ofList s).toUTF8.toList

def hlParseNsSub (s : String) : Option NsSub :=
  match s.splitOn "." with
  | ["g", g] => (hlStrOfHex g).map NsSub.group
  | ["n", g, n] =>
    match hlStrOfHex g, hlStrOfHex n with
    | some g, some n => some (.node g n)
    | _, _ => none
  | _ => none

def hlParseCfg (s : String) : Option SubCfg :=
  if s = "all" then some .allGroups
  else match s.splitOn ":" with
    | ["single", g] => (hlStrOfHex g).map SubCfg.singleGroup
    | ["custom", l] => (mapM? hlParseNsSub (splitList l)).map SubCfg.custom
    | _ => none

def hlShowEff : Eff → String
  | .setWill t ts =>
    let (q, r) := stateQosRetain false
    s!"will {hlHexOfStr t} {hlHexOfStr (statePayload false ts)} q{q} r{if r then 1 else 0}"
  | .subscribe fs => "sub " ++ (if fs.isEmpty then "_" else joinWith "," (fs.map hlHexOfStr))
  | .publishState t on ts isTry =>
    let (q, r) := stateQosRetain on
    s!"pub {hlHexOfStr t} {hlHexOfStr (statePayload on ts)} q{q} r{if r then 1 else 0} {if isTry then "try" else "blk"}"
  | .disconnect => "disc"

def hlShowRet : Ret → String
  | .online => "Online" | .offline => "Offline" | .cancelled => "Cancelled"

def hlShowStep (e : List Eff) (r : List Ret) : String :=
  (if e.isEmpty then "-" else joinWith ";" (e.map hlShowEff)) ++ " | " ++
  (if r.isEmpty then "-" else joinWith "," (r.map hlShowRet))

def hlRunStep (h : HLState) (i : In) (now : String) : HLState × String :=
  match h.st, now.toNat? with
  | some s, some now =>
    let (s', e, r) := step h.cfg h.host s i now
    ({ h with st := some s' }, hlShowStep e (if h.app then runSees r else r))
  | _, _ => (h, "bad-op")

/-- the `Event` a received publish becomes (`srad_client::topic_and_payload_to_event`), as an input of
the host loop: a STATE message of any host, or an invalid publish (`other`). `none`: a node / device
message or a panic - not produced by the `wire` generator. -/
def hlEvOfWire (topic payload : List UInt8) : Option Ev :=
  match Srad.Topic.parse validUtf8 (fun _ => some ()) topic payload with
  | .state hb on ts =>
    (String.fromUTF8? ⟨hb.toArray⟩).map fun s => Ev.state s.toList on ts
  | .invalid _ _ _ => some .other
  | _ => none

def stepHostLoop (h : HLState) : List String → HLState × String
  | ["new", mode, cfg, host, now] =>
    if mode ≠ "loop" ∧ mode ≠ "loopr" ∧ mode ≠ "app" then (h, "bad-op") else
    match hlParseCfg cfg, hlStrOfHex host, now.toNat? with
    | some cfg, some host, some now =>
      match HostLoop.new host now with
      | none => ({ cfg := cfg, host := host, st := none, app := mode = "app" }, "panic")
      | some (s, e) => ({ cfg := cfg, host := host, st := some s, app := mode = "app" }, hlShowStep e [])
    | _, _, _ => (h, "bad-op")
  | ["ev", "online", now] => hlRunStep h (.ev .online) now
  | ["ev", "offline", now] => hlRunStep h (.ev .offline) now
  | ["ev", "other", now] => hlRunStep h (.ev .other) now
  | ["ev", "state", host, on, ts, now] =>
    match hlStrOfHex host, ts.toNat? with
    | some host, some ts =>
      if on = "1" then hlRunStep h (.ev (.state host true ts)) now
      else if on = "0" then hlRunStep h (.ev (.state host false ts)) now
      else (h, "bad-op")
    | _, _ => (h, "bad-op")
  | ["wire", t, p, now] =>
    match unhex t, unhex p with
    | some t, some p =>
      match hlEvOfWire t p with
      | some e => hlRunStep h (.ev e) now
      | none => (h, "bad-op")
    | _, _ => (h, "bad-op")
  | ["cancel", now] => hlRunStep h .cancel now
  | ["timeout", now] => hlRunStep h .timeout now
  | ["match", f, t] =>
    match hlStrOfHex f, hlStrOfHex t with
    | some f, some t => (h, if mqttMatch f t then "1" else "0")
    | _, _ => (h, "bad-op")
  | ["valid", n] =>
    match hlStrOfHex n with
    | some n => (h, if validName n then "1" else "0")
    | none => (h, "bad-op")
  | ["topic", "state", a] =>
    match hlStrOfHex a with
    | some a => (h, hlHexOfStr (stateHostTopic a))
    | none => (h, "bad-op")
  | ["topic", "node", g, v, n] =>
    match hlStrOfHex g, hlStrOfHex v, hlStrOfHex n with
    | some g, some v, some n => (h, hlHexOfStr (nodeTopic g v n))
    | _, _, _ => (h, "bad-op")
  | ["topic", "device", g, v, n, d] =>
    match hlStrOfHex g, hlStrOfHex v, hlStrOfHex n, hlStrOfHex d with
    | some g, some v, some n, some d => (h, hlHexOfStr (deviceTopic g v n d))
    | _, _, _, _ => (h, "bad-op")
  | _ => (h, "bad-op")

end Srad.Drv
