import SradModel.Model.Metric
import SradModel.Model.MetricWire
import SradModel.Drv.Util

/-
Driver for component `metric` (harness/src/c12.rs). Terms of the line protocol are
`head` or `head(kid;kid;...)` with heads over [A-Za-z0-9_-]; see c12.rs for the grammar of
publish metrics `P(..)`, payload metrics `Q(..)`, typed property sets `us(..)`, payload property
sets `ps(k(..);v(..))`, store entries `E(..)` / `B(..)`.
Property sets in *answers* are printed sorted by key (stably) at every level: a property set is a
map and its order on the wire is the hash map's.

Requests through the concrete wire codec of `Model/MetricWire.lean` (C12W; `valid` = `validUtf8`):
  metric wenc <seq|_> <ts|_> L(Q..)   -> ok <hex of encW payload> | range <hex> (payload not `inRange`)
  metric wdec <hex>                   -> ok <seq|_> <ts|_> L(Q..) | err        (`decW`)
  metric bprops <who> L(us..)         -> ok L(ps..) | undelivered   (property sets of birth metrics at the host store)
  metric we2e <who> <variant> <prevseq> <now> L(P..)
        -> as `metric e2e`, but the host reads `decW (encW payload)` (`invalid-publish` if that fails)
-/
/- everything but `stepMetric` lives in its own namespace (no clashes with other drivers) -/
namespace Srad.Drv.M12
open Srad Srad.Drv Srad.Metric Srad.Codec

inductive Tree where
  | mk (head : String) (kids : List Tree)
  deriving Inhabited

def Tree.head : Tree → String | .mk h _ => h
def Tree.kids : Tree → List Tree | .mk _ k => k

def isHeadChar (c : Char) : Bool := c.isAlphanum || c == '_' || c == '-'

mutual
partial def parseTreeAt (cs : List Char) : Option (Tree × List Char) :=
  let head := cs.takeWhile isHeadChar
  let rest := cs.dropWhile isHeadChar
  if head.isEmpty then none else
  match rest with
  | '(' :: ')' :: r => some (.mk (String.ofList head) [], r)
  | '(' :: r =>
    match parseKids r with
    | some (kids, r') => some (.mk (String.ofList head) kids, r')
    | none => none
  | _ => some (.mk (String.ofList head) [], rest)
partial def parseKids (cs : List Char) : Option (List Tree × List Char) :=
  match parseTreeAt cs with
  | some (t, ';' :: r) =>
    match parseKids r with
    | some (ks, r') => some (t :: ks, r')
    | none => none
  | some (t, ')' :: r) => some ([t], r)
  | _ => none
end

def parseTree (s : String) : Option Tree :=
  match parseTreeAt s.toList with
  | some (t, []) => some t
  | _ => none

/-! ### terms → model -/

def hexBytes (s : String) : Option (List UInt8) := unhexAux s.toList

def pOB (t : Tree) : Option (Option Bool) :=
  match t.head with
  | "n" => some none | "t" => some (some true) | "f" => some (some false) | _ => none

def pON (t : Tree) : Option (Option Nat) :=
  if t.head = "_" then some none else t.head.toNat?.map some

def pHS (t : Tree) : Option Str :=
  match t.head.toList with
  | 'h' :: r => unhexAux r
  | _ => none

def pOS (t : Tree) : Option (Option Str) :=
  if t.head = "_" then some none else (pHS t).map some

def natOf (cs : List Char) : Option Nat := (String.ofList cs).toNat?

def pScalar (t : Tree) : Option Scalar :=
  if !t.kids.isEmpty then none else
  match t.head.toList with
  | ['x'] => some .ext
  | 'i' :: r => (natOf r).map .int
  | 'l' :: r => (natOf r).map .long
  | 'f' :: r => (natOf r).map .float
  | 'd' :: r => (natOf r).map .double
  | ['b', '0'] => some (.bool false)
  | ['b', '1'] => some (.bool true)
  | 's' :: r => (unhexAux r).map .str
  | _ => none

def pMVal (t : Tree) : Option (Option MVal) :=
  if !t.kids.isEmpty then none else
  match t.head.toList with
  | ['_'] => some none
  | ['x'] => some (some .ext)
  | 'i' :: r => (natOf r).map fun n => some (.int n)
  | 'l' :: r => (natOf r).map fun n => some (.long n)
  | 'f' :: r => (natOf r).map fun n => some (.float n)
  | 'd' :: r => (natOf r).map fun n => some (.double n)
  | ['b', '0'] => some (some (.bool false))
  | ['b', '1'] => some (some (.bool true))
  | 's' :: r => (unhexAux r).map fun b => some (.str b)
  | 'y' :: r => (unhexAux r).map fun b => some (.bytes b)
  | 'D' :: r => (unhexAux r).map fun b => some (.dataset b)
  | 'T' :: r => (unhexAux r).map fun b => some (.template b)
  | _ => none

mutual
partial def pPVal (t : Tree) : Option PVal :=
  if t.head = "_" && t.kids.isEmpty then some .none
  else if t.head = "ps" then (pPSet t).map fun (k, v) => .set k v
  else if t.head = "pl" then (mapM? pPSet t.kids).map .sets
  else (pScalar t).map .sc
partial def pPPV (t : Tree) : Option PPV :=
  match t with
  | .mk "p" [a, b, c] =>
    match pON a, pOB b, pPVal c with
    | some ty, some nu, some v => some (ty, nu, v)
    | _, _, _ => none
  | _ => none
partial def pPSet (t : Tree) : Option PSet :=
  match t with
  | .mk "ps" [.mk "k" ks, .mk "v" vs] =>
    match mapM? pHS ks, mapM? pPPV vs with
    | some k, some v => some (k, v)
    | _, _ => none
  | _ => none
end

def pODT (t : Tree) : Option (Option DT) :=
  if t.head = "_" then some none
  else match t.head.toNat? with
    | some n => (DT.ofCode n).map some
    | none => none

mutual
partial def pUVal (t : Tree) : Option UVal :=
  if t.head = "_" && t.kids.isEmpty then some .null
  else if t.head = "us" then (pUPS t).map .set
  else if t.head = "ul" then (mapM? pUPS t.kids).map .sets
  else match pScalar t with
    | some .ext => none
    | some v => some (.sc v)
    | none => none
partial def pUPS (t : Tree) : Option UPS :=
  if t.head ≠ "us" then none else
  mapM? (fun e =>
    match e with
    | .mk "e" [k, d, v] =>
      match pHS k, pODT d, pUVal v with
      | some k, some d, some v => some (k, d, v)
      | _, _, _ => none
    | _ => none) t.kids
end

def pEMeta (t : Tree) : Option (Option EMeta) :=
  match t with
  | .mk "_" [] => some none
  | .mk "em" [a, b, c, d, e, f] =>
    match pOS a, pOS b, pON c, pOS d, pOS e, pOS f with
    | some a, some b, some c, some d, some e, some f =>
      some (some { description := a, contentType := b, size := c, md5 := d, fileName := e, fileType := f })
    | _, _, _, _, _, _ => none
  | _ => none

def pPMeta (t : Tree) : Option (Option PMeta) :=
  match t with
  | .mk "_" [] => some none
  | .mk "pm" [a, b, c, d, e, f, g, h] =>
    match pOB a, pOS b, pON c, pON d, pOS e, pOS f, pOS g, pOS h with
    | some a, some b, some c, some d, some e, some f, some g, some h =>
      some (some { isMultiPart := a, contentType := b, size := c, seq := d, fileName := e,
                   fileType := f, md5 := g, description := h })
    | _, _, _, _, _, _, _, _ => none
  | _ => none

def pId (t : Tree) : Option MetricId :=
  match t.head.toList with
  | 'N' :: r => (unhexAux r).map .name
  | 'A' :: r => (natOf r).map .alias
  | _ => none

/-- a publish metric term, built as the harness builds it: `create_publish_metric` at clock
reading `now`, then the builder calls the term asks for -/
def pPM (now : Nat) (t : Tree) : Option PubMetric :=
  match t with
  | .mk "P" [id, v, tr, hi, ts, md, props] =>
    match pId id, pMVal v, pOB tr, pOB hi, pON ts, pEMeta md with
    | some id, some v, some tr, some hi, some ts, some md =>
      let props : Option (Option UPS) := if props.head = "_" then some none else (pUPS props).map some
      match props with
      | none => none
      | some props =>
        let m := PubMetric.new now none id v
        let m := match ts with | some t => m.withTimestamp t | none => m
        let m := match tr with | some b => m.transient b | none => m
        let m := match hi with | some b => m.historical b | none => m
        let m := match md with | some x => m.withMetadata x | none => m
        let m := match props with | some p => m.withProperties p | none => m
        some m
    | _, _, _, _, _, _ => none
  | _ => none

def pQM (t : Tree) : Option PMetric :=
  match t with
  | .mk "Q" [name, alias, ts, dt, hi, tr, nu, md, props, v] =>
    match pOS name, pON alias, pON ts, pON dt, pOB hi, pOB tr, pOB nu, pPMeta md, pMVal v with
    | some name, some alias, some ts, some dt, some hi, some tr, some nu, some md, some v =>
      let props : Option (Option PSet) := if props.head = "_" then some none else (pPSet props).map some
      match props with
      | none => none
      | some props =>
        some { name := name, alias := alias, timestamp := ts, datatype := dt, isHistorical := hi,
               isTransient := tr, isNull := nu, metadata := md, properties := props, value := v }
    | _, _, _, _, _, _, _, _, _ => none
  | _ => none

def pList {α} (f : Tree → Option α) (s : String) : Option (List α) :=
  match parseTree s with
  | some (.mk "L" kids) => mapM? f kids
  | _ => none

/-! ### model → terms -/

def hx (b : List UInt8) : String :=
  String.ofList (b.flatMap fun x => [hexDigit (x.toNat / 16), hexDigit (x.toNat % 16)])

def node (head : String) (kids : List String) : String := head ++ "(" ++ joinWith ";" kids ++ ")"

def sOB : Option Bool → String
  | none => "n" | some true => "t" | some false => "f"
def sON : Option Nat → String
  | none => "_" | some n => toString n
def sOS : Option Str → String
  | none => "_" | some s => "h" ++ hx s
def sTF (b : Bool) : String := if b then "t" else "f"

def sScalar : Scalar → String
  | .int n => s!"i{n}" | .long n => s!"l{n}" | .float n => s!"f{n}" | .double n => s!"d{n}"
  | .bool b => if b then "b1" else "b0" | .str s => "s" ++ hx s | .ext => "x"

def sMVal : Option MVal → String
  | none => "_"
  | some (.int n) => s!"i{n}" | some (.long n) => s!"l{n}" | some (.float n) => s!"f{n}"
  | some (.double n) => s!"d{n}" | some (.bool b) => if b then "b1" else "b0"
  | some (.str s) => "s" ++ hx s | some (.bytes b) => "y" ++ hx b | some (.dataset b) => "D" ++ hx b
  | some (.template b) => "T" ++ hx b | some .ext => "x"

/-- bytewise lexicographic `≤` (Rust's `Ord` on `str`) -/
def bytesLe : List UInt8 → List UInt8 → Bool
  | [], _ => true
  | _ :: _, [] => false
  | a :: s, b :: t => if a < b then true else if b < a then false else bytesLe s t

/-- stable insertion sort of (key, value) pairs by key -/
def insertKV {α} (x : Str × α) : List (Str × α) → List (Str × α)
  | [] => [x]
  | y :: t => if bytesLe y.1 x.1 then y :: insertKV x t else x :: y :: t
def sortKV {α} (l : List (Str × α)) : List (Str × α) := l.foldl (fun acc x => insertKV x acc) []

mutual
partial def sPVal (v : PVal) : String :=
  match v with
  | .none => "_"
  | .sc s => sScalar s
  | .set k vs => sPSet (k, vs)
  | .sets l => node "pl" (l.map sPSet)
partial def sPPV (p : PPV) : String := node "p" [sON p.1, sOB p.2.1, sPVal p.2.2]
partial def sPSet (s : PSet) : String :=
  if s.1.length = s.2.length then
    let kv := sortKV (s.1.zip s.2)
    node "ps" [node "k" (kv.map fun x => "h" ++ hx x.1), node "v" (kv.map fun x => sPPV x.2)]
  else
    node "ps" [node "k" (s.1.map fun x => "h" ++ hx x), node "v" (s.2.map sPPV)]
end

def sPMeta : Option PMeta → String
  | none => "_"
  | some m => node "pm" [sOB m.isMultiPart, sOS m.contentType, sON m.size, sON m.seq, sOS m.fileName,
      sOS m.fileType, sOS m.md5, sOS m.description]

def sId : MetricId → String
  | .name n => "N" ++ hx n
  | .alias a => s!"A{a}"

def sQM (q : PMetric) : String :=
  node "Q" [sOS q.name, sON q.alias, sON q.timestamp, sON q.datatype, sOB q.isHistorical,
    sOB q.isTransient, sOB q.isNull, sPMeta q.metadata,
    (match q.properties with | none => "_" | some s => sPSet s), sMVal q.value]

def sDetailsTail (d : Details) : List String :=
  [sMVal d.value, toString d.timestamp, sTF d.isHistorical, sTF d.isTransient, sPMeta d.metadata,
   (match d.properties with | none => "_" | some m => sPSet (hmapToPayload m))]

def sEntry (e : MetricId × Details) : String := node "E" (sId e.1 :: sDetailsTail e.2)

def sBirthEntry (e : BirthDetails × Details) : String :=
  node "B" (["h" ++ hx e.1.name, sON e.1.alias, toString e.1.datatype.code] ++ sDetailsTail e.2)

def sMErr : MErr → String
  | .seq => "seq" | .seq0 => "seq0" | .bdseq => "bdseq" | .ts => "ts" | .mts => "mts" | .dt => "dt"
  | .dtcode => "dtcode" | .name => "name" | .null => "null" | .props => "props"

/-- The harness births the fresh host node (and device) at timestamp 1 before the message under
test; the host's node actor ignores a message older than the node's birth, and a node birth not
newer than the last one (srad-app generic_app.rs: not part of this component's model). -/
def hostDataAnswer (r : Except MErr NData) : String :=
  match r with
  | .error e => "err " ++ sMErr e
  | .ok d =>
    s!"data {d.seq} {d.timestamp} " ++
      (if d.timestamp < 1 then "dropped" else node "L" (d.metrics.map sEntry))

def hostBirthAnswer (isNode : Bool) (r : Except MErr BirthMsg) : String :=
  match r with
  | .error e => "err " ++ sMErr e
  | .ok b =>
    s!"birth {b.timestamp} " ++
      (if b.timestamp < 1 || (isNode && b.timestamp ≤ 0) then "dropped"
       else node "L" (b.metrics.map sBirthEntry))

def stepMetric : List String → String
  | ["new"] => "ok"
  | ["edge", now, pm] =>
    match now.toNat?, (parseTree pm) with
    | some now, some t =>
      match pPM now t with
      | some m => sQM (edgeEncode m)
      | none => "bad-op"
    | _, _ => "bad-op"
  | ["host", verb, seq, ts, l] =>
    let seq? : Option (Option Nat) := if seq = "_" then some none else seq.toNat?.map some
    let ts? : Option (Option Nat) := if ts = "_" then some none else ts.toNat?.map some
    match seq?, ts?, pList pQM l with
    | some seq, some ts, some ms =>
      let p : Payload := { timestamp := ts, metrics := ms, seq := seq }
      match verb with
      | "ND" | "DD" => hostDataAnswer (ndataOfPayload p)
      | "NB" => hostBirthAnswer true (nbirthOfPayload p)
      | "DB" => hostBirthAnswer false (dbirthOfPayload p)
      | _ => "bad-op"
    | _, _, _ => "bad-op"
  | ["pset", ps] =>
    match (parseTree ps).bind pPSet with
    | some s =>
      match decPS s with
      | .ok m => "ok " ++ sPSet (hmapToPayload m)
      | .err => "err"
      | .panic => "panic"
    | none => "bad-op"
  | ["pdesc", pv] =>
    -- one step down from a received property value (`impl TryFrom<PropertyValueValue> for PropertySet`
    -- and `… for PropertySetList`): what `hostDescend` of the C12 nested-set theorems is built on
    match (parseTree pv).bind pPVal with
    | some v =>
      let a := match setOfValue v with
        | .ok m => "ok " ++ sPSet (hmapToPayload m)
        | .err => "err"
        | .panic => "panic"
      let b := match setsOfValue v with
        | .ok l => "ok " ++ node "pl" (l.map fun m => sPSet (hmapToPayload m))
        | .err => "err"
        | .panic => "panic"
      "set:" ++ a ++ " sets:" ++ b
    | none => "bad-op"
  | ["e2e", who, variant, prevseq, now, l] =>
    match prevseq.toNat?, now.toNat? with
    | some prevseq, some now =>
      match pList (pPM now) l with
      | some ms =>
        if who ≠ "n" && who ≠ "d" then "bad-op" else
        let st : EdgeState := { seq := prevseq, online := true, birthed := true }
        let single := variant = "pm" || variant = "tpm"
        let sorting := variant = "pms" || variant = "tpms"
        let known := single || sorting || variant = "pmu" || variant = "tpmu"
        if !known || (single && ms.length ≠ 1) then "bad-op" else
        let r := if sorting then publishSorted true now st ms else publishUnsorted true now st ms
        match r with
        | .refused .noMetrics => "nometrics"
        | .refused _ => "state"
        | .handedOver p _ => "ok " ++ hostDataAnswer (ndataOfPayload p)
      | none => "bad-op"
    | _, _ => "bad-op"
  | ["bprops", who, l] =>
    -- property sets carried by BIRTH metrics (`BirthMetricDetails::with_properties`): the same edge encoding
    -- (`encPS`) and host decoding (`decPS`) as for data metrics; a set the host refuses loses the whole birth
    if who ≠ "n" && who ≠ "d" then "bad-op" else
    match pList pUPS l with
    | some sets =>
      let rs := sets.map fun u => decPS (encPS u)
      if rs.all (fun r => match r with | .ok _ => true | _ => false) then
        "ok " ++ node "L" (rs.map fun r => match r with | .ok m => sPSet (hmapToPayload m) | _ => "_")
      else "undelivered"
    | none => "bad-op"
  | ["wbytes", who, variant, prevseq, now, l] =>
    -- the bytes of the message the edge hands over: `encW` of the published payload (ties `toTree`)
    match prevseq.toNat?, now.toNat? with
    | some prevseq, some now =>
      match pList (pPM now) l with
      | some ms =>
        if who ≠ "n" && who ≠ "d" then "bad-op" else
        let st : EdgeState := { seq := prevseq, online := true, birthed := true }
        let single := variant = "pm" || variant = "tpm"
        let sorting := variant = "pms" || variant = "tpms"
        let known := single || sorting || variant = "pmu" || variant = "tpmu"
        if !known || (single && ms.length ≠ 1) then "bad-op" else
        let r := if sorting then publishSorted true now st ms else publishUnsorted true now st ms
        match r with
        | .refused .noMetrics => "nometrics"
        | .refused _ => "state"
        | .handedOver p _ => "ok " ++ hex (encW p)
      | none => "bad-op"
    | _, _ => "bad-op"
  | ["wenc", seq, ts, l] =>
    let seq? : Option (Option Nat) := if seq = "_" then some none else seq.toNat?.map some
    let ts? : Option (Option Nat) := if ts = "_" then some none else ts.toNat?.map some
    match seq?, ts?, pList pQM l with
    | some seq, some ts, some ms =>
      let p : Payload := { timestamp := ts, metrics := ms, seq := seq }
      (if inRange validUtf8 p then "ok " else "range ") ++ hex (encW p)
    | _, _, _ => "bad-op"
  | ["wdec", h] =>
    match unhex h with
    | some b =>
      match decW validUtf8 b with
      | some p => s!"ok {sON p.seq} {sON p.timestamp} " ++ node "L" (p.metrics.map sQM)
      | none => "err"
    | none => "bad-op"
  | ["we2e", who, variant, prevseq, now, l] =>
    match prevseq.toNat?, now.toNat? with
    | some prevseq, some now =>
      match pList (pPM now) l with
      | some ms =>
        if who ≠ "n" && who ≠ "d" then "bad-op" else
        let st : EdgeState := { seq := prevseq, online := true, birthed := true }
        let single := variant = "pm" || variant = "tpm"
        let sorting := variant = "pms" || variant = "tpms"
        let known := single || sorting || variant = "pmu" || variant = "tpmu"
        if !known || (single && ms.length ≠ 1) then "bad-op" else
        let r := if sorting then publishSorted true now st ms else publishUnsorted true now st ms
        match r with
        | .refused .noMetrics => "nometrics"
        | .refused _ => "state"
        | .handedOver p _ =>
          match hostReceiveData (decW validUtf8) (encW p) with
          | .invalidPublish => "invalid-publish"
          | .invalidPayload e => "ok " ++ hostDataAnswer (.error e)
          | .data d => "ok " ++ hostDataAnswer (.ok d)
      | none => "bad-op"
    | _, _ => "bad-op"
  | _ => "bad-op"

end Srad.Drv.M12

namespace Srad.Drv
/-- component `metric` -/
def stepMetric (req : List String) : String := M12.stepMetric req
end Srad.Drv
