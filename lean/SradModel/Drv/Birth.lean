/-
Line-protocol driver for the birth model (component `birth`). The driver keeps the world around
the pure functions of `Model/Birth.lean`: the hash values exported by the harness, the
template registry, the device map, each object's manager and the tokens of its latest birth.
User payloads `U` are the canonical value tokens (strings), passed through.

  birth new <flags>                         flags ⊆ {d,o,h} or `-`  (debug assertions, overflow checks, in-half bump)
  birth hash <hexname> <u64>
  birth tpl <slot> <hexname>                bind template slot to its definition metric name
  birth node <scripted|simple> <slots|_>    build the node, registering the slots with the builder
  birth regupd <upd,..|_>                   r<slot> | d<hexname> | c   (next node birth only)
  birth script <n|hexdev> <req;..|_>        m,<hexname>,<a|n>,<dt>,<val|->,<ts|->  |  t,<hexname>,<a|n>,<dt>,<hextref|->,<ts|->
  birth simple <n|hexdev> <ent,..>          <hexname>:<a|n>:<dt>:<val>:<c|->
  birth dev <hexname> <scripted|simple> <now>
  birth undev <hexname>
  birth undevh <hexname> <k>                unregister through the k-th handle ever returned for the name (by name)
  birth online|rebirth <now> <orders|_>     orders: <n|hexdev>=<hexname>,<hexname>..;..
  birth drebirth <hexdev> <now> <orders|_>
  birth offline
  birth pub <n|hexdev> <k>
  birth cmd <n|hexdev> <a<alias>|n<hexname>>
-/
import SradModel.Model.Birth
import SradModel.Model.SipHash
import SradModel.Drv.Util

namespace Srad.BirthDrv
open Srad Srad.Birth Srad.Drv

abbrev BU := String

inductive MgrKind where
  | scripted | simple
  deriving DecidableEq

structure BObj where
  kind : MgrKind := .scripted
  /-- scripted: the script as sent (`-` timestamps are read from the clock at each birth) -/
  script : String := "_"
  sm : List (SimpleMetric BU) := []
  /-- tokens of the latest birth: per request (scripted) or per entry of `order` (simple) -/
  tokens : List (Res MetricId) := []
  /-- simple: entries in the order of the latest birth -/
  order : List (SimpleMetric BU) := []
  dead : Bool := false

inductive RegUpd where
  | reg (slot : Nat)
  | dereg (n : Name)
  | clear

structure BWorld where
  cfg : Cfg := ⟨false, false, false⟩
  hash : List (Name × Nat) := []
  tpl : List (Nat × Name) := []
  registry : List (Name × BU) := []
  regUpd : List RegUpd := []
  /-- `DeviceMap::template_registry` / `Device::template_registry`: keys at the last node birth -/
  devReg : List Name := []
  bdseq : Nat := 0
  online : Bool := false
  built : Bool := false
  dm : DevMap := {}
  node : BObj := {}
  devs : List (Name × BObj) := []

/-- the hash of a name: what the harness reported (checked against the model when it was reported), else the
SipHash model itself -/
def BWorld.h (w : BWorld) (n : Name) : Nat := (w.hash.lookup n).getD (Srad.Sip.hashNat n)

/-! ### parsing -/

def parseFlags (s : String) : Option Cfg :=
  if s = "-" then some ⟨false, false, false⟩
  else if s.toList.all (fun c => c = 'd' ∨ c = 'o' ∨ c = 'h') then
    some ⟨s.toList.contains 'd', s.toList.contains 'o', s.toList.contains 'h'⟩
  else none

def parseAlias : String → Option Bool
  | "a" => some true
  | "n" => some false
  | _ => none

def optTok (s : String) : Option String := if s = "-" then none else some s

def parseReq (now : Nat) (s : String) : Option (Req BU) :=
  match s.splitOn "," with
  | [k, nm, al, dt, v, ts] =>
    match unhex nm, parseAlias al, dt.toNat?, (if ts = "-" then some now else ts.toNat?) with
    | some nm, some al, some dt, some ts =>
      if k = "m" then some (.metric ⟨nm, al, dt, ts⟩ (optTok v))
      else if k = "t" then
        match optTok v with
        | none => some (.template ⟨nm, al, dt, ts⟩ none)
        | some t => (unhex t).map fun tr => .template ⟨nm, al, dt, ts⟩ (some (tr, ""))
      else none
    | _, _, _, _ => none
  | _ => none

def parseScript (now : Nat) (s : String) : Option (List (Req BU)) :=
  if s = "_" then some [] else mapM? (parseReq now) (s.splitOn ";")

def parseEntry (s : String) : Option (SimpleMetric BU) :=
  match s.splitOn ":" with
  | [nm, al, dt, v, cb] =>
    match unhex nm, parseAlias al, dt.toNat? with
    | some nm, some al, some dt => some ⟨nm, al, dt, v, cb = "c"⟩
    | _, _, _ => none
  | _ => none

def parseUpd (s : String) : Option RegUpd :=
  match s.toList with
  | 'r' :: t => (String.ofList t).toNat?.map .reg
  | 'd' :: t => (unhex (String.ofList t)).map .dereg
  | ['c'] => some .clear
  | _ => none

def parseObj (s : String) : Option (Option Name) :=
  if s = "n" then some none else (unhex s).map some

def parseOrders (s : String) : Option (List (Option Name × List Name)) :=
  if s = "_" then some [] else
  mapM? (fun part =>
    match part.splitOn "=" with
    | [o, l] =>
      match parseObj o, mapM? unhex (l.splitOn ",") with
      | some o, some l => some (o, l)
      | _, _ => none
    | _ => none) (s.splitOn ";")

/-! ### printing -/

/-- hex that is empty for the empty name (presence is marked by a prefix) -/
def hx (b : List UInt8) : String := if b.isEmpty then "" else hex b

def showId : MetricId → String
  | .alias a => s!"a{a}"
  | .name n => "n" ++ hx n

def showErr : Err → String
  | .duplicate => "e:dup" | .unsupportedDatatype => "e:unsup"
  | .valueNotProvided => "e:noval" | .unregisteredTemplate => "e:unreg"

def showTok : Res MetricId → String
  | .ok id => showId id
  | .err e => showErr e
  | .panic => "p"

def showVal : Val BU → String
  | .int64 n => s!"L{n}"
  | .bool b => if b then "B1" else "B0"
  | .defn u => u
  | .inst t _ => "inst:" ++ hex t
  | .user u => u

def showOptNat : Option Nat → String
  | none => "-"
  | some n => toString n

def showMetric (m : Metric BU) : String :=
  joinWith "," [
    (match m.name with | none => "-" | some n => "." ++ hx n),
    showOptNat m.alias, showOptNat m.datatype, showOptNat m.timestamp,
    (match m.isNull with | none => "-" | some true => "t" | some false => "f"),
    (match m.value with | none => "-" | some v => showVal v)]

/-- the node's part of an NBIRTH is printed in payload order except for the definition
metrics, whose order is the registry's hash-map order: they are sorted by name -/
def insertBy (le : α → α → Bool) (x : α) : List α → List α
  | [] => [x]
  | y :: t => if le x y then x :: y :: t else y :: insertBy le x t

def sortBy (le : α → α → Bool) (l : List α) : List α := l.foldr (insertBy le) []

def nameLe : Name → Name → Bool
  | [], _ => true
  | _ :: _, [] => false
  | a :: s, b :: t => a < b || (a == b && nameLe s t)

def metricNameLe (a b : Metric BU) : Bool := nameLe (a.name.getD []) (b.name.getD [])

def showBirth (nDefs : Nat) : Res (List (Metric BU) × List (Res MetricId)) → String
  | .ok (ms, res) =>
    let head := ms.take 2
    let defs := sortBy metricNameLe ((ms.drop 2).take nDefs)
    let rest := ms.drop (2 + nDefs)
    "{res=[" ++ joinWith "," (res.map showTok) ++ "] m=[" ++
      joinWith "|" ((head ++ defs ++ rest).map showMetric) ++ "]}"
  | _ => "{panic}"

def showDBirth : Res (List (Metric BU) × List (Res MetricId)) → String
  | .ok (ms, res) =>
    "{res=[" ++ joinWith "," (res.map showTok) ++ "] m=[" ++ joinWith "|" (ms.map showMetric) ++ "]}"
  | _ => "{panic}"

/-! ### the world -/

def isPerm (a b : List Name) : Bool :=
  a.length == b.length && a.all (fun x => a.count x == b.count x)

/-- the manager of an object at a birth; for a simple manager the iteration order is given by
the harness (observed) and checked to be a permutation of the entries -/
def objMgr (now : Nat) (o : BObj) (order : Option (List Name)) :
    Option (Mgr BU × List (SimpleMetric BU)) :=
  match o.kind with
  | .scripted => (parseScript now o.script).map fun r => (.scripted r, [])
  | .simple =>
    let names := o.sm.map (·.name)
    let ord := order.getD names
    if isPerm ord names then
      let ents := ord.filterMap fun n => o.sm.find? (fun m => m.name == n)
      some (.simple ents, ents)
    else none

def applyUpds (w : BWorld) : List RegUpd → List (Name × BU) → List (Name × BU) × List String
  | [], reg => (reg, [])
  | u :: t, reg =>
    match u with
    | .reg slot =>
      match w.tpl.lookup slot with
      | none => let (r, l) := applyUpds w t reg; (r, "bad" :: l)
      | some n =>
        match regRegister reg n s!"def:{slot + 1}" with
        | .ok reg' => let (r, l) := applyUpds w t reg'; (r, "ok" :: l)
        | .error .invalidName => let (r, l) := applyUpds w t reg; (r, "inv" :: l)
        | .error .duplicate => let (r, l) := applyUpds w t reg; (r, "dup" :: l)
    | .dereg n => let (r, l) := applyUpds w t (regDeregister reg n); (r, "-" :: l)
    | .clear => let (r, l) := applyUpds w t []; (r, "-" :: l)

def setDev (devs : List (Name × BObj)) (n : Name) (o : BObj) : List (Name × BObj) :=
  devs.map fun e => if e.1 == n then (n, o) else e

/-- DBIRTH of one device (if it is alive); returns the updated object and the printed part -/
def birthDevice (w : BWorld) (now : Nat) (orders : List (Option Name × List Name))
    (n : Name) (o : BObj) : Option (BObj × String) :=
  if o.dead then some (o, "") else
  match w.dm.devs.lookup n, objMgr now o (orders.lookup (some n)) with
  | some id, some (mgr, ents) =>
    let b := deviceBirth w.cfg w.h now id w.devReg mgr
    let o' := match b with
      | .ok (_, res) => { o with tokens := res, order := ents }
      | _ => { o with dead := true, tokens := [] }
    some (o', " D" ++ hex n ++ showDBirth b)
  | _, _ => none

def birthDevices (w : BWorld) (now : Nat) (orders : List (Option Name × List Name)) :
    List (Name × BObj) → Option (List (Name × BObj) × String)
  | [] => some ([], "")
  | (n, o) :: t =>
    match birthDevice w now orders n o, birthDevices w now orders t with
    | some (o', s), some (t', s') => some ((n, o') :: t', s ++ s')
    | _, _ => none

/-- `Node::birth`: registry update, NBIRTH, then every device -/
def nodeBirthStep (w : BWorld) (now : Nat) (orders : List (Option Name × List Name)) :
    BWorld × String :=
  if !w.online ∨ w.node.dead then (w, "-") else
  let (reg, regRes) := applyUpds w w.regUpd w.registry
  let w := { w with registry := reg, regUpd := [] }
  match objMgr now w.node (orders.lookup none) with
  | none => (w, "bad-perm")
  | some (mgr, ents) =>
    let b := nodeBirth w.cfg w.h now w.bdseq w.registry mgr
    let pre := "reg=[" ++ joinWith "," regRes ++ "] N" ++ showBirth w.registry.length b
    match b with
    | .ok (_, res) =>
      let w := { w with node := { w.node with tokens := res, order := ents },
                        devReg := w.registry.map (·.1) }
      let sorted := sortBy (fun a b => nameLe a.1 b.1) w.devs
      match birthDevices w now orders sorted with
      | some (devs, s) => ({ w with devs := devs }, pre ++ s)
      | none => (w, "bad-perm")
    | _ => ({ w with node := { w.node with dead := true, tokens := [] } }, pre)

def getObj (w : BWorld) : Option Name → Option BObj
  | none => some w.node
  | some n => w.devs.lookup n

def putObj (w : BWorld) (t : Option Name) (o : BObj) : BWorld :=
  match t with
  | none => { w with node := o }
  | some n => { w with devs := setDev w.devs n o }

def parseId (s : String) : Option MetricId :=
  match s.toList with
  | 'a' :: t => (String.ofList t).toNat?.map .alias
  | 'n' :: t => (unhex (String.ofList t)).map .name
  | _ => none

def showPub (m : Metric BU) : String :=
  match m.alias, m.name with
  | some a, _ => s!"a{a}"
  | none, some n => "n" ++ hx n
  | none, none => "none"

def stepBirth (w : BWorld) : List String → BWorld × String
  | ["new", fl] =>
    match parseFlags fl with
    | some cfg => ({ cfg := cfg }, "ok")
    | none => (w, "bad-op")
  | ["hash", nm, v] =>
    match unhex nm, v.toNat? with
    | some nm, some v =>
      -- M17: the reported `DefaultHasher` value is CHECKED against the SipHash-1-3 model, not believed
      let hv := Srad.Sip.hashNat nm
      ({ w with hash := (nm, v) :: w.hash }, if hv = v then "ok" else s!"hash-mismatch {hv}")
    | _, _ => (w, "bad-op")
  | ["tpl", slot, nm] =>
    match slot.toNat?, unhex nm with
    | some slot, some nm => ({ w with tpl := (slot, nm) :: w.tpl }, "ok")
    | _, _ => (w, "bad-op")
  | ["node", kind, slots] =>
    match (if kind = "scripted" then some MgrKind.scripted
           else if kind = "simple" then some MgrKind.simple else none),
          mapM? String.toNat? (splitList slots) with
    | some kind, some slots =>
      let (reg, res) := applyUpds w (slots.map .reg) []
      if res.all (· = "ok") then
        ({ w with registry := reg, devReg := reg.map (·.1), built := true,
                  node := { kind := kind } }, "ok")
      else (w, "panic")
    | _, _ => (w, "bad-op")
  | ["regupd", upds] =>
    match mapM? parseUpd (splitList upds) with
    | some u => ({ w with regUpd := u }, "ok")
    | none => (w, "bad-op")
  | ["script", obj, sc] =>
    match parseObj obj, parseScript 0 sc with
    | some t, some _ =>
      match getObj w t with
      | some o => (putObj w t { o with script := sc }, "ok")
      | none => (w, "bad-op")
    | _, _ => (w, "bad-op")
  | ["simple", obj, ents] =>
    match parseObj obj, mapM? parseEntry (splitList ents) with
    | some t, some es =>
      match getObj w t with
      | some o =>
        if o.dead then (w, "dead") else
        let (sm, outs) := es.foldl (fun (acc : List (SimpleMetric BU) × List String) e =>
          match simpleRegister acc.1 e with
          | some sm' => (sm', acc.2 ++ ["1"])
          | none => (acc.1, acc.2 ++ ["0"])) (o.sm, [])
        (putObj w t { o with sm := sm }, joinWith "," outs)
      | none => (w, "bad-op")
    | _, _ => (w, "bad-op")
  | ["dev", nm, kind, now] =>
    match unhex nm, (if kind = "scripted" then some MgrKind.scripted
           else if kind = "simple" then some MgrKind.simple else none), now.toNat? with
    | some nm, some kind, some now =>
      match addDevice w.cfg w.h w.dm nm with
      | .invalid => (w, "err invalid")
      | .dup => (w, "err dup")
      | .panic => (w, "panic")
      | .ok dm _ =>
        let o : BObj := { kind := kind }
        let w := { w with dm := dm, devs := (nm, o) :: w.devs }
        if w.online ∧ !w.node.dead then
          match birthDevice w now [] nm o with
          | some (o', s) => ({ w with devs := setDev w.devs nm o' }, "ok" ++ s)
          | none => (w, "bad-perm")
        else (w, "ok")
    | _, _, _ => (w, "bad-op")
  | ["undev", nm] =>
    match unhex nm with
    | some nm => ({ w with dm := removeDevice w.dm nm,
                           devs := w.devs.filter (fun e => e.1 != nm) }, "ok")
    | none => (w, "bad-op")
  | ["undevh", nm, k] =>
    -- `unregister_device(handle)` unregisters the device of the handle's NAME, whichever registration it is
    match unhex nm, k.toNat? with
    | some nm, some _ => ({ w with dm := removeDevice w.dm nm,
                                   devs := w.devs.filter (fun e => e.1 != nm) }, "ok")
    | _, _ => (w, "bad-op")
  | ["devmv", nn, on] =>
    -- while offline: unregister `on`, register `nn` with the same SimpleMetricManager
    match unhex nn, unhex on with
    | some nn, some on =>
      if w.online then (w, "bad-op") else
      match w.devs.lookup on with
      | none => (w, "bad-op")
      | some o =>
        match o.kind, o.dead with
        | .simple, false =>
          let w1 := { w with dm := removeDevice w.dm on, devs := w.devs.filter (fun e => e.1 != on) }
          match addDevice w1.cfg w1.h w1.dm nn with
          | .invalid => (w1, "err invalid")
          | .dup => (w1, "err dup")
          | .panic => (w1, "panic")
          | .ok dm _ => ({ w1 with dm := dm, devs := (nn, { o with tokens := [], order := [] }) :: w1.devs }, "ok")
        | _, _ => (w, "bad-op")
    | _, _ => (w, "bad-op")
  | ["online", now, orders] =>
    match now.toNat?, parseOrders orders with
    | some now, some orders =>
      if w.online then (w, "-") else nodeBirthStep { w with online := true } now orders
    | _, _ => (w, "bad-op")
  | ["rebirth", now, orders] =>
    match now.toNat?, parseOrders orders with
    | some now, some orders => nodeBirthStep w now orders
    | _, _ => (w, "bad-op")
  | ["drebirth", nm, now, orders] =>
    match unhex nm, now.toNat?, parseOrders orders with
    | some nm, some now, some orders =>
      if !w.online ∨ w.node.dead then (w, "-") else
      match w.devs.lookup nm with
      | some o =>
        match birthDevice w now orders nm o with
        | some (o', s) => ({ w with devs := setDev w.devs nm o' }, if s = "" then "-" else s.drop 1 |>.toString)
        | none => (w, "bad-perm")
      | none => (w, "bad-op")
    | _, _, _ => (w, "bad-op")
  | ["offline"] =>
    if w.online then ({ w with online := false, bdseq := (w.bdseq + 1) % 256 }, "ok")
    else (w, "ok")
  | ["pub", obj, k] =>
    match parseObj obj, k.toNat? with
    | some t, some k =>
      match getObj w t with
      | some o =>
        -- publishing is gated by the node being online and birthed (C04's business): no metric
        if !w.online ∨ w.node.dead then (w, "none") else
        -- scripted: `k` is the request index; simple: the entry index in registration order
        let idx : Option Nat := match o.kind with
          | .scripted => some k
          | .simple => (o.sm[k]?).bind fun m =>
              let i := o.order.findIdx (fun e => e.name == m.name)
              if i < o.order.length then some i else none
        match idx.bind (fun i => o.tokens[i]?) with
        | some (.ok id) => (w, showPub (publishToMetric (createPublish id (some "v") 0)))
        | _ => (w, "none")
      | none => (w, "bad-op")
    | _, _ => (w, "bad-op")
  | ["cmd", obj, id] =>
    match parseObj obj, parseId id with
    | some t, some id =>
      match getObj w t with
      | some o =>
        let ids := o.tokens.filterMap fun r => match r with | .ok i => some i | _ => none
        match (cmdLookup o.order ids).lookup id with
        | some n => (w, "cb " ++ hex n)
        | none => (w, "none")
      | none => (w, "bad-op")
    | _, _ => (w, "bad-op")
  | _ => (w, "bad-op")

end Srad.BirthDrv
