/- Driver utilities: tokens, hex, numbers. Import-free (linked into `srad_model`). -/
namespace Srad.Drv

def words (line : String) : List String :=
  (line.trimAscii.toString.splitOn " ").filter (· ≠ "")

def hexDigit (n : Nat) : Char :=
  if n < 10 then Char.ofNat (48 + n) else Char.ofNat (87 + n)

/-- bytes as lower-case hex; the empty string is `-` -/
def hex (b : List UInt8) : String :=
  if b.isEmpty then "-" else
  String.ofList (b.flatMap fun x => [hexDigit (x.toNat / 16), hexDigit (x.toNat % 16)])

def unhexDigit (c : Char) : Option Nat :=
  if '0' ≤ c ∧ c ≤ '9' then some (c.toNat - 48)
  else if 'a' ≤ c ∧ c ≤ 'f' then some (c.toNat - 87)
  else none

def unhexAux : List Char → Option (List UInt8)
  | [] => some []
  | a :: b :: t =>
    match unhexDigit a, unhexDigit b, unhexAux t with
    | some x, some y, some r => some (UInt8.ofNat (16 * x + y) :: r)
    | _, _, _ => none
  | _ => none

def unhex (s : String) : Option (List UInt8) :=
  if s = "-" then some [] else unhexAux s.toList

def joinWith (sep : String) : List String → String
  | [] => ""
  | [x] => x
  | x :: t => x ++ sep ++ joinWith sep t

/-- `String::from_utf8(..).is_ok()` -/
def validUtf8 (b : List UInt8) : Bool :=
  (String.fromUTF8? ⟨b.toArray⟩).isSome

def mapM? {α β} (f : α → Option β) : List α → Option (List β)
  | [] => some []
  | x :: t => match f x, mapM? f t with
    | some y, some r => some (y :: r)
    | _, _ => none

/-- list tokens: `_` is the empty list, otherwise comma separated -/
def splitList (s : String) : List String :=
  if s = "_" then [] else s.splitOn ","

end Srad.Drv
