import SradModel.Model.Admit
import SradModel.Drv.Codec

/-
Driver for component `admit` (C14). Requests:
  admit new
  admit node[w] <kind> <group> <node> <P>            kind: birth|death|cmd|data|other
  admit dev[w]  <kind> <group> <node> <device> <P>   (`w`: the harness went through topic + bytes)
  P      = <seq> <ts> <uuid> <body> <n> <metric>{n}                 (`~` = absent)
  metric = <name> <alias> <ts> <datatype> <hist> <trans> <null> <meta> <props> <variant> <field>
  props  = ~ | <keys>/<values>; keys = _ | hex,hex,…; values = _ | ty.null.variant.field,…
Answers:
  none | invalid <group> <node> <device|~> <error> | node <group> <node> <event> | device <group> <node> <device> <event>
-/
namespace Srad.Drv.AdmitDrv
open Srad Srad.Drv Srad.Codec Srad.Admit
-- helpers live in their own namespace so that they cannot clash with other drivers' helpers

def u64 (n : Nat) : Bool := n < 18446744073709551616
def u32 (n : Nat) : Bool := n < 4294967296

/-- `~` = None -/
def optTok {α} (f : String → Option α) (s : String) : Option (Option α) :=
  if s = "~" then some none else (f s).map some

def natU64 (s : String) : Option Nat := s.toNat?.bind fun n => if u64 n then some n else none
def natU32 (s : String) : Option Nat := s.toNat?.bind fun n => if u32 n then some n else none
def boolTok (s : String) : Option Bool := if s = "1" then some true else if s = "0" then some false else none

/-- values of their type: `IntValue(u32)`, `LongValue(u64)`, float/double bit patterns -/
def pvTyped : PV → Bool
  | .int n => u32 n
  | .long n => u64 n
  | .float n => u32 n
  | .double n => u64 n
  | _ => true

def parseValue (w variant field : String) : Option (Option PV) :=
  if variant = "~" then (if field = "~" then some none else none)
  else match parsePV w variant field with
    | some pv => if pvTyped pv then some (some pv) else none
    | none => none

def parsePropVal (s : String) : Option PropVal :=
  match s.splitOn "." with
  | [ty, nl, variant, field] =>
    match optTok natU32 ty, optTok boolTok nl, parseValue "p" variant field with
    | some ty, some nl, some v => some { ty := ty, isNull := nl, value := v }
    | _, _, _ => none
  | _ => none

def parseProps (s : String) : Option (Option PSet) :=
  if s = "~" then some none else
  match s.splitOn "/" with
  | [ks, vs] =>
    match mapM? unhex (splitList ks), mapM? parsePropVal (splitList vs) with
    | some keys, some values => some (some { keys := keys, values := values })
    | _, _ => none
  | _ => none

def parseMetric : List String → Option Metric
  | [name, alias, ts, dt, hist, trans, nl, mta, props, variant, field] =>
    match optTok unhex name, optTok natU64 alias, optTok natU64 ts, optTok natU32 dt with
    | some name, some alias, some ts, some dt =>
      match optTok boolTok hist, optTok boolTok trans, optTok boolTok nl with
      | some hist, some trans, some nl =>
        match parseProps props, parseValue "m" variant field with
        | some props, some value =>
          some { name := name, alias := alias, timestamp := ts, datatype := dt, isHistorical := hist,
                 isTransient := trans, isNull := nl,
                 metadata := if mta = "~" then none else some mta,
                 properties := props, value := value }
        | _, _ => none
      | _, _, _ => none
    | _, _, _, _ => none
  | _ => none

def parseMetrics : Nat → List String → Option (List Metric)
  | 0, [] => some []
  | 0, _ => none
  | n + 1, toks =>
    match parseMetric (toks.take 11), parseMetrics n (toks.drop 11) with
    | some m, some r => if toks.length < 11 then none else some (m :: r)
    | _, _ => none

def parsePayload : List String → Option Payload
  | sq :: ts :: uuid :: body :: n :: rest =>
    match optTok natU64 sq, optTok natU64 ts, optTok unhex uuid, optTok unhex body, n.toNat? with
    | some sq, some ts, some uuid, some body, some n =>
      (parseMetrics n rest).map fun ms =>
        { timestamp := ts, metrics := ms, seq := sq, uuid := uuid, body := body }
    | _, _, _, _, _ => none
  | _ => none

def parseKind : String → Option Kind
  | "birth" => some .birth | "death" => some .death | "cmd" => some .cmd | "data" => some .data
  | "other" => some .other | _ => none

/-! printing -/

def showMErr : MErr → String
  | .missingTimestamp => "metric:missing-timestamp"
  | .missingDatatype => "metric:missing-datatype"
  | .invalidDatatype => "metric:invalid-datatype"
  | .missingName => "metric:missing-name"
  | .notNullNoValue => "metric:not-null-no-value"
  | .invalidProperties => "metric:invalid-properties"

def showPErr : PErr → String
  | .missingSeq => "missing-seq"
  | .invalidSeq => "invalid-seq"
  | .invalidBdseq => "invalid-bdseq"
  | .missingTimestamp => "missing-timestamp"
  | .metric e => showMErr e

def showOptNat : Option Nat → String
  | some n => toString n
  | none => "~"

def bytesLt : List UInt8 → List UInt8 → Bool
  | [], [] => false
  | [], _ :: _ => true
  | _ :: _, [] => false
  | a :: s, b :: t => if a < b then true else if b < a then false else bytesLt s t

def insertSorted {β} (x : Bytes × β) : List (Bytes × β) → List (Bytes × β)
  | [] => [x]
  | y :: t => if bytesLt x.1 y.1 then x :: y :: t else y :: insertSorted x t

/-- the decoded property set, sorted by key (a `HashMap` in the Rust) -/
def showDProps (l : List (Bytes × DPropVal)) : String :=
  let sorted := l.foldl (fun acc x => insertSorted x acc) []
  if sorted.isEmpty then "_" else
  joinWith "," (sorted.map fun (k, v) =>
    hex k ++ "=" ++
    (match v.value with
     | some pv => (showPV pv).replace " " "."
     | none => "~.~") ++ "." ++
    (match v.datatype with
     | some d => toString d.code
     | none => "~"))

def showValue : Option PV → String
  | some pv => showPV pv
  | none => "~ ~"

def b01 (b : Bool) : String := if b then "1" else "0"

def showDetails (d : Details (List (Bytes × DPropVal))) : String :=
  showValue d.value ++ " " ++
  (match d.properties with | some p => showDProps p | none => "~") ++ " " ++
  (match d.metadata with | some m => m | none => "~") ++ " " ++
  toString d.timestamp ++ " " ++ b01 d.isHistorical ++ " " ++ b01 d.isTransient

def showBirthMetric (x : BirthDetails × Details (List (Bytes × DPropVal))) : String :=
  hex x.1.name ++ " " ++ showOptNat x.1.alias ++ " " ++ toString x.1.datatype.code ++ " " ++ showDetails x.2

def showDataMetric (x : MId × Details (List (Bytes × DPropVal))) : String :=
  (match x.1 with
   | .name n => "n:" ++ hex n
   | .alias a => "a:" ++ toString a) ++ " " ++ showDetails x.2

def showList {α} (f : α → String) (l : List α) : String :=
  toString l.length ++ (l.foldl (fun acc x => acc ++ " " ++ f x) "")

abbrev DP := List (Bytes × DPropVal)

def showNodeEvent : NodeEvent DP → String
  | .birth b => s!"nbirth {b.bdseq} {b.timestamp} " ++ showList showBirthMetric b.metrics
  | .death d => s!"ndeath {d.bdseq}"
  | .data d => s!"ndata {d.seq} {d.timestamp} " ++ showList showDataMetric d.metrics

def showDeviceEvent : DeviceEvent DP → String
  | .birth b => s!"dbirth {b.seq} {b.timestamp} " ++ showList showBirthMetric b.metrics
  | .death d => s!"ddeath {d.seq} {d.timestamp}"
  | .data d => s!"ddata {d.seq} {d.timestamp} " ++ showList showDataMetric d.metrics

def showAppEvent : Option (AppEvent DP) → String
  | none => "none"
  | some (.node id e) => "node " ++ hex id.group ++ " " ++ hex id.node ++ " " ++ showNodeEvent e
  | some (.device id n e) =>
    "device " ++ hex id.group ++ " " ++ hex id.node ++ " " ++ hex n ++ " " ++ showDeviceEvent e
  | some (.invalidPayload d) =>
    "invalid " ++ hex d.nodeId.group ++ " " ++ hex d.nodeId.node ++ " " ++
    (match d.device with | some n => hex n | none => "~") ++ " " ++ showPErr d.error

def step : List String → String
  | ["new"] => "ok"
  | mode :: kind :: group :: node :: rest =>
    if mode = "node" ∨ mode = "nodew" then
      match parseKind kind, unhex group, unhex node, parsePayload rest with
      | some k, some g, some n, some p =>
        showAppEvent (handleNode decodePSet { group := g, node := n } k p)
      | _, _, _, _ => "bad-op"
    else if mode = "dev" ∨ mode = "devw" then
      match rest with
      | dev :: rest =>
        match parseKind kind, unhex group, unhex node, unhex dev, parsePayload rest with
        | some k, some g, some n, some d, some p =>
          showAppEvent (handleDevice decodePSet { group := g, node := n } d k p)
        | _, _, _, _, _ => "bad-op"
      | _ => "bad-op"
    else "bad-op"
  | _ => "bad-op"

end Srad.Drv.AdmitDrv

namespace Srad.Drv
/-- entry point used by `Driver.lean` -/
def stepAdmit (toks : List String) : String := AdmitDrv.step toks
end Srad.Drv
