import SradModel.Model.Host
import SradModel.Drv.Util

namespace Srad.Drv
open Srad Srad.Host

structure HostD where
  cfg : Cfg := { invalidPayload := false, outOfSyncBdSeq := true, unknownNode := true, unknownDevice := true,
                 unknownMetric := true, reorderFailure := true, recordedStateStale := true,
                 reorderTimeout := none, cooldown := 0, resequence := true }
  app : App := {}
  /-- `Application::run`: running until a `cancel` request, then returned (`Host.runStep`) -/
  phase : Phase := .running

/-- the id a store call shows for a payload WITHOUT METRICS (`m=0` on the request): none. The model's
`id` is a ghost tag the harness puts into a metric; a metric-less message cannot carry it and the
recording store prints `-1`. -/
def bareId : Nat := 2 ^ 64

def showId (id : Nat) : String := if id = bareId then "-1" else toString id

/-- in the harness's alignment (`poll_until_offline_with_timeout` = 1 s, armed inside the request's own
millisecond) `Application::run` has returned 999 ms after the millisecond of the cancel request when
the final Offline is withheld -/
def stopWaitMs : Nat := 999

def kvGet (ws : List String) (key : String) : Option String :=
  ws.findSome? fun w =>
    match w.splitOn "=" with
    | [k, v] => if k = key then some v else none
    | _ => none

def kvNat (ws : List String) (key : String) : Option Nat := (kvGet ws key).bind String.toNat?

def parseAns : Option String → Option Ans
  | some "ok" => some .ok
  | some "inv" => some .invalid
  | some "unk" => some .unknownMetric
  | none => some .ok
  | _ => none

/-- node names are `n<k>` -/
def parseNode (s : String) : Option Nat :=
  match s.toList with
  | 'n' :: t => (String.ofList t).toNat?
  | _ => none

def showEff : Eff → Option String
  | .nodeBirth id ok => some s!"nodeBirth({id},{if ok then 1 else 0})"
  | .nodeData id => some s!"nodeData({showId id})"
  | .nodeStale => some "nodeStale"
  | .devCreated d => some s!"devCreated({d})"
  | .devBirth d id ok => some s!"devBirth({d},{showId id},{if ok then 1 else 0})"
  | .devData d id => some s!"devData({d},{showId id})"
  | .devStale d => some s!"devStale({d})"
  | .ncmd => some "ncmd"
  | .timerStart => none       -- not observable from outside
  | .timerCancel => none

def insertNat (x : Nat) : List Nat → List Nat
  | [] => [x]
  | y :: t => if x ≤ y then x :: y :: t else y :: insertNat x t

def sortNat (l : List Nat) : List Nat := l.foldr insertNat []

/-- canonical per-node rendering: runs of `devStale` are sorted by device (hash-map order) -/
def renderNode (n : Nat) : List Eff → List Nat → List String
  | [], run => (sortNat run).map fun d => s!"n{n}:devStale({d})"
  | .devStale d :: t, run => renderNode n t (d :: run)
  | e :: t, run =>
    ((sortNat run).map fun d => s!"n{n}:devStale({d})") ++
      (match showEff e with
       | some s => [s!"n{n}:{s}"]
       | none => []) ++ renderNode n t []

def nodesOf (es : List AppEff) : List Nat :=
  sortNat ((es.map fun e => match e with | .nodeCreated n => n | .node n _ => n).eraseDups)

def renderApp (es : List AppEff) : String :=
  let parts := (nodesOf es).flatMap fun n =>
    let created := if es.any (fun e => e == AppEff.nodeCreated n) then [s!"n{n}:nodeCreated"] else []
    let effs := es.filterMap fun e => match e with
      | .node n' f => if n' = n then some f else none
      | _ => none
    -- unobservable effects are dropped before runs of devStale are formed
    let effs := effs.filter fun f => (showEff f).isSome
    created ++ renderNode n effs []
  if parts.isEmpty then "-" else joinWith ";" parts

/-- timers due at the end of the request that ran at clock reading `t` (harness alignment:
a timer armed at reading m with timeout d expires at the end of reading m + d - 1) -/
def fireDue (c : Cfg) (a : App) (t : Nat) : App × List AppEff :=
  a.nodes.foldl (fun (acc : App × List AppEff) (p : Nat × St) =>
    match ((findNode p.1 acc.1.nodes).map (·.timer) : Option Timer) with
    | some (Timer.armed dl) =>
      if dl ≤ t + 1 then
        let (a', e) := appStep c acc.1 (.timerFire p.1) t t
        (a', acc.2 ++ e)
      else acc
    | _ => acc) (a, [])

def advTicks (c : Cfg) : Nat → Nat → App → List AppEff → App × List AppEff
  | 0, _, a, acc => (a, acc)
  | k + 1, t, a, acc =>
    let (a', e) := fireDue c a t
    advTicks c k (t + 1) a' (acc ++ e)

def parseCfg (ws : List String) : Option Cfg := do
  let b := fun k => (kvNat ws k).map (· == 1)
  let to ← kvGet ws "to"
  let toV ← if to = "-" then some none else to.toNat?.map some
  some { invalidPayload := ← b "ip", outOfSyncBdSeq := ← b "bd", unknownNode := ← b "un",
         unknownDevice := ← b "ud", unknownMetric := ← b "um", reorderFailure := ← b "rf",
         recordedStateStale := ← b "rs", reorderTimeout := toV, cooldown := ← kvNat ws "cd",
         resequence := ← b "rq" }

/-- `m=0`: the payload carries no metrics. For the host it is a message like any other (it has its
sequence number and timestamp, the store is called with an empty list); a store rejection needs a
metric to ride on, so `ans` must be `ok`; a DDEATH never carries metrics and takes no `m=`. -/
def parseRMsg (kind : String) (ws : List String) : Option RMsg := do
  let bare ← match kvGet ws "m" with
    | none => some false
    | some "0" => some true
    | some _ => none
  let id := if bare then bareId else (kvNat ws "id").getD 0
  let ans ← parseAns (kvGet ws "ans")
  if bare && (ans != Ans.ok || kind == "ddeath") then none
  else
  match kind with
  | "ndata" => some (.ndata id ans)
  | "dbirth" => some (.dbirth (← kvNat ws "dev") id ans)
  | "ddeath" => some (.ddeath (← kvNat ws "dev") id)
  | "ddata" => some (.ddata (← kvNat ws "dev") id ans)
  | _ => none

def finishStep (st : HostD) (a : App) (e : List AppEff) (now : Nat) : HostD × String :=
  let (a', e') := fireDue st.cfg a now
  ({ st with app := a' }, renderApp (e ++ e'))

/-- `host cancel off=<0|1>`: the stop request is taken in the request's own millisecond (timers due at
its end still fire: the actors are alive), then the host waits for the final Offline - `off=1`: it is
delivered in the next millisecond, `off=0`: never, the bounded wait runs out; a host that is offline
does not wait at all - and `run()` returns. Answer: effects, then ` w=<ms waited>`. -/
def cancelHost (st : HostD) (off : Bool) (now : Nat) : HostD × String :=
  let r0 : RunApp := { app := st.app, phase := st.phase }
  let (r1, e1) := runStep st.cfg r0 .stop now now
  let (a1, f1) := fireDue st.cfg r1.app now
  let w := if !a1.online then 0 else if off then 1 else stopWaitMs
  let r2 : RunApp := { r1 with app := a1 }
  let (r3, e3) := if a1.online && off then runStep st.cfg r2 (.ev .offline) (now + 1) (now + 1) else (r2, [])
  let (a4, e4) := advTicks st.cfg w (now + 1) r3.app []
  let (r5, e5) := runStep st.cfg { r3 with app := a4 } .cancelled (now + w) (now + w)
  ({ st with app := r5.app, phase := r5.phase }, renderApp (e1 ++ f1 ++ e3 ++ e4 ++ e5) ++ s!" w={w}")

def stepHost (st : HostD) (ws : List String) : HostD × String :=
  match kvNat ws "now" with
  | none => (st, "bad-op")
  | some now =>
    match ws with
    | "new" :: rest =>
      match parseCfg rest with
      | some c => ({ cfg := c, app := { online := true, nodes := [] }, phase := .running }, "ok")
      | none => (st, "bad-op")
    | ["cancel", offW, _] =>
      match kvNat [offW] "off" with
      | some off =>
        if off > 1 then (st, "bad-op")
        else if st.phase != Phase.running then (st, "-")     -- a second cancel meets a loop that is gone
        else cancelHost st (off == 1) now
      | none => (st, "bad-op")
    | _ =>
    -- `Application::run` has returned: whatever is requested now meets a host that is gone (`runStep`, phase `returned`)
    if st.phase != Phase.running then
      match ws with
      | "ev" :: _ | ["inv", _, _] | ["offline", _] | ["online", _] | ["adv", _, _] => (st, "-")
      | _ => (st, "bad-op")
    else
    match ws with
    | "ev" :: node :: kind :: rest =>
      match parseNode node with
      | none => (st, "bad-op")
      | some n =>
        let inp : Option In :=
          match kind with
          | "nbirth" => do
            some (.nbirth (← kvNat rest "ts") (← kvNat rest "bd") ((kvNat rest "id").getD 0) (← parseAns (kvGet rest "ans")))
          | "ndeath" => do some (.ndeath (← kvNat rest "bd"))
          | k => do
            let m ← parseRMsg k rest
            let sq ← kvNat rest "seq"
            if sq < 256 then some (.rmsg sq (← kvNat rest "ts") m) else none
        match inp with
        | none => (st, "bad-op")
        | some i =>
          let (a, e) := appStep st.cfg st.app (.node n i) now now
          finishStep st a e now
    | ["inv", node, _] =>
      match parseNode node with
      | none => (st, "bad-op")
      | some n =>
        let (a, e) := appStep st.cfg st.app (.invalidPayload n) now now
        finishStep st a e now
    | ["offline", _] =>
      let (a, e) := appStep st.cfg st.app .offline now now
      finishStep st a e now
    | ["online", _] =>
      let (a, e) := appStep st.cfg st.app .online now now
      finishStep st a e now
    | ["adv", ms, _] =>
      match ms.toNat? with
      | none => (st, "bad-op")
      | some k =>
        let (a, e) := advTicks st.cfg k now st.app []
        ({ st with app := a }, renderApp e)
    | _ => (st, "bad-op")

end Srad.Drv
