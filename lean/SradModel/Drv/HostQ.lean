import SradModel.Model.HostQ
import SradModel.Drv.Host
import Std.Data.HashSet

/-
Trace admission for `Model/HostQ` (component `hostq`): the harness pushes a whole BURST of events
into the real `Application` without waiting in between, settles, and reports what every node's
stores / the client saw. The driver searches the interleavings of `dispatch` / `offl` / `actMsg` /
`actReason` (and `fire` once nothing else can move) for one that produces, for every node,
exactly the observed effect list, and keeps the set of model states such schedules end in.

  hostq new <cfg as `host new`> q=<n> now=<ms>                      => ok
  hostq burst <ev>|<ev>|… now=<ms> => n1:[e;e;…] n2:[…]   (or `-`)  => ok | rejected …
  hostq adv <ms> now=<ms> => n1:[…]                                  => ok | rejected …
  hostq cancel off=<0|1> now=<ms> => n1:[…] w=<ms>                   => ok | rejected …   (then every line must observe `-`)
  hostq stats                                                        => counters (reporting only)
`<ev>` = `ev <node> nbirth|ndeath|ndata|dbirth|ddeath|ddata k=v…` | `inv <node>` | `offline` | `online`.
-/
namespace Srad.Drv.HQ
open Srad Srad.Drv Srad.Host Srad.HostQ

deriving instance Hashable for Srad.Reseq.Mode
deriving instance Hashable for Srad.Reseq.St
deriving instance Hashable for Srad.Host.Reason
deriving instance Hashable for Srad.Host.Life
deriving instance Hashable for Srad.Host.Timer
deriving instance Hashable for Srad.Host.Ans
deriving instance Hashable for Srad.Host.RMsg
deriving instance Hashable for Srad.Host.In
deriving instance Hashable for Srad.Host.Eff
deriving instance Hashable for Srad.Host.St
deriving instance Hashable for Srad.HostQ.QMsg
deriving instance Hashable for Srad.HostQ.AppEv
deriving instance Hashable for Srad.HostQ.Node
deriving instance Hashable for Srad.HostQ.State

/-- what one node has emitted so far in the current line -/
structure Emit where
  created : Bool := false
  effs : List Eff := []          -- observable effects only
  deriving DecidableEq, Hashable

/-- one node of the schedule search. `marks`: for a node with a pending reason, how many queued
messages were ahead of it when it was accepted (statistics only). `flags`: 1 = the dispatcher was
blocked by a full queue, 2 = a reason was dropped (one was pending), 4 = a reason was consumed
after a message dispatched later, 8 = a reason was consumed before a message dispatched earlier -/
structure SNode where
  σ : State
  em : List (Nat × Emit) := []
  marks : List (Nat × Nat) := []
  flags : Nat := 0
  deriving DecidableEq, Hashable

def aGet {α} (n : Nat) : List (Nat × α) → Option α
  | [] => none
  | (k, v) :: t => if k = n then some v else aGet n t

/-- insert / replace, keys kept sorted (canonical) -/
def aSet {α} (n : Nat) (v : α) : List (Nat × α) → List (Nat × α)
  | [] => [(n, v)]
  | (k, w) :: t => if k = n then (k, v) :: t else if n < k then (n, v) :: (k, w) :: t else (k, w) :: aSet n v t

def aErase {α} (n : Nat) : List (Nat × α) → List (Nat × α)
  | [] => []
  | (k, w) :: t => if k = n then t else (k, w) :: aErase n t

def observable (e : Eff) : Bool := (showEff e).isSome

def stale? : Eff → Bool
  | .devStale _ => true
  | _ => false

/-- canonical tokens of a node's effects: runs of `devStale` sorted by device (hash-map order) -/
def qTokens : List Eff → List Nat → List String
  | [], run => (sortNat run).map fun d => s!"devStale({d})"
  | .devStale d :: t, run => qTokens t (d :: run)
  | e :: t, run =>
    ((sortNat run).map fun d => s!"devStale({d})") ++
      (match showEff e with | some s => [s] | none => []) ++ qTokens t []

def Emit.tokens (e : Emit) : List String :=
  (if e.created then ["nodeCreated"] else []) ++ qTokens e.effs []

/-- tokens that can no longer change: everything before the trailing run of `devStale` -/
def Emit.settled (e : Emit) : List String :=
  (if e.created then ["nodeCreated"] else []) ++
    qTokens ((e.effs.reverse.dropWhile stale?).reverse) []

def Emit.count (e : Emit) : Nat := (if e.created then 1 else 0) + e.effs.length

def isPrefix : List String → List String → Bool
  | [], _ => true
  | _ :: _, [] => false
  | a :: as, b :: bs => a == b && isPrefix as bs

/-- can the emission still grow into the observation? -/
def compatible (obs : List (Nat × List String)) (em : List (Nat × Emit)) : Bool :=
  em.all fun (n, e) =>
    let o := (aGet n obs).getD []
    e.count ≤ o.length && isPrefix e.settled o

/-- is the emission exactly the observation? -/
def exact (obs : List (Nat × List String)) (em : List (Nat × Emit)) : Bool :=
  (obs.all fun (n, o) => ((aGet n em).map Emit.tokens).getD [] == o) &&
  (em.all fun (n, e) => e.tokens == (aGet n obs).getD [])

def flagOr (f : Nat) (bit : Nat) : Nat := if f / bit % 2 = 1 then f else f + bit

/-- fold what a transition did into the search node (`σ'` = state after the transition) -/
def SNode.absorb (x : SNode) (σ' : State) : List Out → SNode
  | [] => { x with σ := σ' }
  | o :: os =>
    let x' : SNode :=
      match o with
      | .created n => { x with em := aSet n { (aGet n x.em).getD {} with created := true } x.em }
      | .enq _ _ => x
      | .offered n _ true => { x with marks := aSet n (σ'.node n).queue.length x.marks }
      | .offered _ _ false => { x with flags := flagOr x.flags 2 }
      | .tookMsg n _ _ _ effs =>
        let e := (aGet n x.em).getD {}
        let x1 := { x with em := aSet n { e with effs := e.effs ++ effs.filter observable } x.em }
        match aGet n x.marks with
        | some 0 => { x1 with flags := flagOr x1.flags 4 }
        | some (k + 1) => { x1 with marks := aSet n k x1.marks }
        | none => x1
      | .tookReason n _ _ effs =>
        let e := (aGet n x.em).getD {}
        let x1 := { x with em := aSet n { e with effs := e.effs ++ effs.filter observable } x.em }
        match aGet n x1.marks with
        | some (_ + 1) => { x1 with marks := aErase n x1.marks, flags := flagOr x1.flags 8 }
        | _ => { x1 with marks := aErase n x1.marks }
    x'.absorb σ' os

def evTarget : AppEv → Option Nat
  | .node n _ => some n
  | .invalid n => some n
  | _ => none

/-- The labels tried while anything can move without time passing: a PERSISTENT set (partial-order
reduction). Actors of different nodes are independent of each other and of dispatcher steps for
other nodes, so it is enough to interleave the next dispatcher step with the steps of the node
it targets; once the dispatcher is done the nodes are run one after the other. Every quiescent
(state, per-node effect lists) pair reachable by the full interleaving is still reached. -/
def moveLabels (σ : State) : List Label :=
  match σ.sending with
  | n :: _ => [.offl n, .actMsg n, .actReason n]
  | [] =>
    match σ.inbox with
    | ev :: _ =>
      Label.dispatch :: (match evTarget ev with | some n => [.actMsg n, .actReason n] | none => [])
    | [] =>
      (σ.nodes.findSome? fun (n, nd) =>
        if !nd.queue.isEmpty || nd.pending.isSome then some [Label.actMsg n, Label.actReason n] else none).getD []

def dispatcherBlocked (c : Cfg) (q : Nat) (σ : State) : Bool :=
  if σ.sending.isEmpty then !σ.inbox.isEmpty && (HostQ.step c q σ .dispatch).isNone
  else match σ.sending with
    | n :: _ => (HostQ.step c q σ (.offl n)).isNone
    | [] => false

/-- every quiescent search node reachable from `start` whose emission is compatible with the
observation (worklist + visited set). At quiescence the due timeout tasks fire (virtual time moves
on only when every task is idle) and the search goes on. -/
partial def exploreQ (c : Cfg) (q : Nat) (budget : Nat) (obs : List (Nat × List String))
    (start : List SNode) (prune : Bool := true) : List SNode × Bool :=
  let rec go (work : List SNode) (visited : Std.HashSet SNode) (ends : List SNode) : List SNode × Bool :=
    if visited.size > budget then (ends, true)
    else
      match work with
      | [] => (ends, false)
      | x :: rest =>
        if visited.contains x then go rest visited ends
        else
          let visited := visited.insert x
          let x := if dispatcherBlocked c q x.σ then { x with flags := flagOr x.flags 1 } else x
          let succ (ls : List Label) : List SNode := ls.filterMap fun l =>
            match HostQ.step c q x.σ l with
            | some (σ', o) =>
              let y := x.absorb σ' o
              if !prune || compatible obs y.em then some y else none
            | none => none
          let enabled (ls : List Label) : Bool := ls.any fun l => (HostQ.step c q x.σ l).isSome
          let mv := moveLabels x.σ
          if enabled mv then go (succ mv ++ rest) visited ends
          else
            let fl := x.σ.nodes.map fun (n, _) => Label.fire n
            if enabled fl then go (succ fl ++ rest) visited ends
            else go rest visited (x :: ends)
  go start {} []

structure HostQStats where
  bursts : Nat := 0
  admitted : Nat := 0
  multi : Nat := 0               -- bursts admitted by schedules ending in more than one state
  someFlag : List Nat := [0, 0, 0, 0]   -- per flag: bursts where SOME admitting schedule has it
  allFlag : List Nat := [0, 0, 0, 0]    -- per flag: bursts where EVERY admitting schedule has it
  maxEnds : Nat := 0

structure HostQD where
  cfg : Cfg := { invalidPayload := false, outOfSyncBdSeq := true, unknownNode := true, unknownDevice := true, unknownMetric := true, reorderFailure := true, recordedStateStale := true, reorderTimeout := none, cooldown := 0, resequence := true }
  q : Nat := 1024
  sts : List State := []
  stats : HostQStats := {}
  /-- `Application::run` has returned (a `cancel` request was admitted): the host is gone -/
  stopped : Bool := false

def parseAppEv (ws : List String) : Option AppEv :=
  match ws with
  | "ev" :: node :: kind :: rest => do
    let n ← parseNode node
    match kind with
    | "nbirth" =>
      some (.node n (.nbirth (← kvNat rest "ts") (← kvNat rest "bd") ((kvNat rest "id").getD 0) (← parseAns (kvGet rest "ans"))))
    | "ndeath" => some (.node n (.ndeath (← kvNat rest "bd")))
    | k =>
      let m ← parseRMsg k rest
      some (.node n (.rmsg (← kvNat rest "seq") (← kvNat rest "ts") m))
  | ["inv", node] => (parseNode node).map AppEv.invalid
  | ["offline"] => some .offline
  | ["online"] => some .online
  | _ => none

/-- `n1:[a;b]` -/
def parseObsNode (tok : String) : Option (Nat × List String) :=
  match tok.splitOn ":[" with
  | [name, body] =>
    if body.endsWith "]" then
      let inner := (body.dropEnd 1).toString
      (parseNode name).map fun n => (n, if inner.isEmpty then [] else inner.splitOn ";")
    else none
  | _ => none

def parseObsQ (ws : List String) : Option (List (Nat × List String)) :=
  match ws with
  | ["-"] => some []
  | [] => some []
  | l => mapM? parseObsNode l

def dedupStates (l : List State) : List State :=
  l.foldl (fun acc s => if acc.contains s then acc else s :: acc) []

def bitOf (f : Nat) (i : Nat) : Bool := f / (2 ^ i) % 2 = 1

def bump (l : List Nat) (p : Nat → Bool) : List Nat :=
  (l.zipIdx).map fun (v, i) => if p i then v + 1 else v

def renderEm (em : List (Nat × Emit)) : String :=
  let parts := (em.filter fun (_, e) => e.count > 0).map fun (n, e) => s!"n{n}:[" ++ joinWith ";" e.tokens ++ "]"
  if parts.isEmpty then "-" else joinWith " " parts

/-- diagnostic for a rejected line: some of the outcomes the model can produce from the same
states (search without pruning, small budget) -/
def diagQ (c : Cfg) (q : Nat) (starts : List SNode) : String :=
  let (ends, _) := exploreQ c q 20000 [] starts false
  let outs := (ends.map fun x => renderEm x.em).eraseDups
  s!"model-outcomes={outs.length}: " ++ joinWith " | " (outs.take 4)

def setClock (t : Nat) (σ : State) : State := if σ.clock ≤ t then { σ with clock := t } else σ

/-- next clock reading (≤ last) at which some timeout task of `σ` is due -/
def nextDue (σ : State) (last : Nat) : Nat :=
  σ.nodes.foldl (fun acc (p : Nat × Node) =>
    match p.2.task with
    | some dl => if dl - 1 < acc then dl - 1 else acc
    | none => acc) last

/-- `adv`: clock readings `now … now+k-1`; at each the due tasks fire and the actors run on -/
partial def advQ (c : Cfg) (q : Nat) (obs : List (Nat × List String)) (last : Nat) (x : SNode) : List SNode :=
  let t := max x.σ.clock (nextDue x.σ last)
  let x := { x with σ := setClock t x.σ }
  let (ends, _) := exploreQ c q 200000 obs [x]
  if t ≥ last then ends
  else ends.flatMap fun y => advQ c q obs last { y with σ := setClock (t + 1) y.σ }

def stepHostQ (d : HostQD) (ws : List String) : HostQD × String :=
  let (req, obsW) := splitArrowQ ws
  match req with
  | ["stats"] =>
    let s := d.stats
    let show4 (l : List Nat) := joinWith "," (l.map toString)
    (d, s!"bursts={s.bursts} admitted={s.admitted} multi-end={s.multi} max-ends={s.maxEnds} " ++
        s!"some[blocked,dropped,late,overtake]={show4 s.someFlag} all[blocked,dropped,late,overtake]={show4 s.allFlag}")
  | _ =>
  match kvNat req "now" with
  | none => (d, "bad-op")
  | some now =>
    match req with
    | "new" :: rest =>
      match parseCfg rest, kvNat rest "q" with
      | some c, some q =>
        let σ0 : State := { State.init now with online := true }
        ({ d with cfg := c, q := q, sts := [σ0], stopped := false }, "ok")
      | _, _ => (d, "bad-op")
    | "cancel" :: offW :: _ =>
      -- `AppClient::cancel()` between two bursts (every task at rest, inbox and queues empty): the event loop takes
      -- the stop request and from then on dispatches nothing (`Host.runStep`, phase `stopping`); the actors and their
      -- timeout tasks live on until `run()` returns: at once on an offline host, with the final Offline (`off=1`,
      -- delivered 1 ms later, noted by the event loop only) or when the bounded wait runs out (`stopWaitMs`)
      if d.stopped then (d, if obsW == ["-"] then "ok" else "rejected after-return")
      else
      match kvNat [offW] "off", obsW.getLast?.bind (fun t => kvNat [t] "w"), parseObsQ obsW.dropLast with
      | some off, some w, some obs =>
        if off > 1 then (d, "bad-op")
        else
          let qs := d.sts.flatMap fun σ =>
            let wExp := if !σ.online then 0 else if off == 1 then 1 else stopWaitMs
            if wExp != w then []
            else advQ d.cfg d.q obs (now + w) { σ := setClock now { σ with online := σ.online && off != 1 } }
          let good := qs.filter fun x => exact obs x.em
          let ends := dedupStates (good.map (·.σ))
          if good.isEmpty then (d, s!"rejected states={d.sts.length} cancel")
          else ({ d with sts := ends, stopped := true }, "ok")
      | _, _, _ => (d, if obsW.getLast? == some "w=never" then "rejected run-never-returned" else "bad-op")
    | "burst" :: rest =>
      if d.stopped then (d, if obsW == ["-"] then "ok" else "rejected after-return") else
      let evToks := rest.takeWhile fun w => !w.startsWith "now="
      let evs := mapM? (fun s => parseAppEv (words s)) ((joinWith " " evToks).splitOn "|")
      match evs, parseObsQ obsW with
      | some evs, some obs =>
        if !(evs.all AppEv.wf) then (d, "bad-op")
        else
          let starts := d.sts.map fun σ => ({ σ := { setClock now σ with inbox := evs } } : SNode)
          let (qs, exhausted) := exploreQ d.cfg d.q 400000 obs starts
          let good := qs.filter fun x => exact obs x.em
          let ends := dedupStates (good.map (·.σ))
          let st := d.stats
          if good.isEmpty then
            ({ d with stats := { st with bursts := st.bursts + 1 } },
              (if exhausted then "budget-exhausted " else "rejected ") ++ s!"states={d.sts.length} " ++ diagQ d.cfg d.q starts)
          else
            let st := { st with bursts := st.bursts + 1, admitted := st.admitted + 1,
                                multi := st.multi + (if ends.length > 1 then 1 else 0),
                                maxEnds := max st.maxEnds ends.length,
                                someFlag := bump st.someFlag fun i => good.any fun x => bitOf x.flags i,
                                allFlag := bump st.allFlag fun i => good.all fun x => bitOf x.flags i }
            ({ d with sts := ends, stats := st }, "ok")
      | _, _ => (d, "bad-op")
    | ["adv", ms, _] =>
      if d.stopped then (d, if obsW == ["-"] then "ok" else "rejected after-return") else
      match ms.toNat?, parseObsQ obsW with
      | some k, some obs =>
        if k = 0 then (d, "bad-op")
        else
          let last := now + k - 1
          let qs := d.sts.flatMap fun σ => advQ d.cfg d.q obs last { σ := setClock now σ }
          let good := qs.filter fun x => exact obs x.em
          let ends := dedupStates (good.map (·.σ))
          if good.isEmpty then (d, s!"rejected states={d.sts.length} adv")
          else ({ d with sts := ends }, "ok")
      | _, _ => (d, "bad-op")
    | _ => (d, "bad-op")
where
  splitArrowQ (ws : List String) : List String × List String :=
    match ws.span (· ≠ "=>") with
    | (a, _ :: b) => (a, b)
    | (a, []) => (a, [])

end Srad.Drv.HQ

namespace Srad.Drv
export HQ (HostQD stepHostQ)
end Srad.Drv
