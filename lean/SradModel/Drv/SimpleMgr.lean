import SradModel.Model.SimpleMgr
import SradModel.Drv.Codec
import SradModel.Drv.Util

/-! Driver for component `smgr` (M16): parses the request lines of harness/src/smgr.rs and runs
`Srad.SimpleMgr` (and through it `Srad.Birth.registerMetric`, `Srad.Codec.fromProto / toProto`).
One `SimpleMetricManager` is under test per case, for a node (`n`) or for devices (`d`); the
driver keeps the world around it: the hash values exported by the harness, the device map
(`Birth.addDevice`), whether the node is online, and the `SimpleManagerPublishMetric`s the
harness holds between an `upd` and the next `pub`.

  smgr new <n|d> <flags>                     flags ⊆ {d,o,h} or `-` as in `birth new`
  smgr hash <hexname> <u64>
  smgr reg <hexname> <ty> <val> <a|n> <-|r|e>   register_metric; handler: none / recording / echo
                                             → some | none | panic
  smgr attach n                              EoNBuilder::with_metric_manager(..).build()  → init
  smgr attach <hexdev> <now> <births>        register_device(dev, mgr.clone()) + enable   → init
                                             → ok [<birth>..] | err invalid | err dup
  smgr online|rebirth <now> <births>         births = `_` | <n|hexdev>=<hexname,..|_>;..  (observed
  smgr drebirth <hexdev> <now> <births>      order of the births and, per birth, of the metrics)
                                             → <birth>.. | -      birth = N[m|..] | D<hexdev>[m|..] | N{panic}
                                               m = <hexname>,<alias|->,<dt>,<ts>,<variant>:<field>
  smgr offline                               → ok
  smgr upd <hexname> <val> <ts>              metric.update(|x| *x = val) at clock reading ts; the
                                             result is kept by the harness   → old=<val> | panic
  smgr pub <one|many>                        publish_metric / publish_metrics of what is kept
                                             → err unbirthed|nometrics|offline | ok <n|hexdev> [pm,..] | panic
                                               pm = <id>=<variant>:<field>@<ts>
  smgr cmd <n|hexdev> <now> <cm>*            NCMD / DCMD; cm = <id>;<variant>;<field> | <id>;~;~
                                             → cb <hexname> <val|~>[ -> <publish answer>] | .. or `-`
-/
namespace Srad.Drv.SimpleMgrD
open Srad Srad.Birth Srad.Codec Srad.SimpleMgr Srad.Drv

abbrev Hd := Option Name

structure SmgrD where
  live : Bool := false
  devKind : Bool := false
  cfg : Cfg := ⟨false, false, false⟩
  hash : List (Name × Nat) := []
  st : St Hd := {}
  held : List (Option PM) := []
  echo : List Name := []
  nodeBuilt : Bool := false
  online : Bool := false
  nodeDead : Bool := false
  dm : DevMap := {}
  attached : List Name := []

def SmgrD.h (d : SmgrD) (n : Name) : Nat := (d.hash.lookup n).getD 0

def parseFlags (s : String) : Option Cfg :=
  if s = "-" then some ⟨false, false, false⟩
  else if s.toList.all (fun c => c = 'd' ∨ c = 'o' ∨ c = 'h') then
    some ⟨s.toList.contains 'd', s.toList.contains 'o', s.toList.contains 'h'⟩
  else none

def showId : MetricId → String
  | .alias a => s!"a{a}"
  | .name n => "n" ++ hex n

def parseId (s : String) : Option MetricId :=
  match s.toList with
  | 'a' :: t => (String.ofList t).toNat?.map .alias
  | 'n' :: t => (unhex (String.ofList t)).map .name
  | _ => none

def showPVTok (v : PV) : String := (showPV v).replace " " ":"

def showOptNat : Option Nat → String
  | none => "-"
  | some n => toString n

def showBirthMetric (m : Metric PV) : String :=
  joinWith "," [
    (match m.name with | none => "~" | some n => hex n),
    showOptNat m.alias, showOptNat m.datatype, showOptNat m.timestamp,
    (match m.value with
      | some (.user v) => showPVTok v
      | some _ => "other"
      | none => "~")]

def showPM (p : PM) : String :=
  showId p.id ++ "=" ++ (match p.value with | some v => showPVTok v | none => "~") ++ "@" ++ toString p.ts

/-- stable insertion sort by timestamp (`metrics.sort_by(|a, b| a.timestamp.cmp(&b.timestamp))`
of `MetricPublisher::publish_metrics`, part of the handle) -/
def insertByTs (x : PM) : List PM → List PM
  | [] => [x]
  | y :: r => if x.ts ≤ y.ts then x :: y :: r else y :: insertByTs x r

def sortByTs : List PM → List PM
  | [] => []
  | x :: t => insertByTs x (sortByTs t)

/-- `H::publish_metrics` of the real handles in the states the harness produces (every client
hand-over is accepted): `NoMetrics` for an empty batch; the node handle is `Offline` unless the
node is online (and then birthed); a device handle is `UnBirthed` unless its DBIRTH went out -/
def handleAnswer (d : SmgrD) (h : Hd) (pms : List PM) : String :=
  let sorted := sortByTs pms
  if sorted.isEmpty then "err nometrics"
  else
    match h with
    | none => if d.online then "ok n [" ++ joinWith "," (sorted.map showPM) ++ "]" else "err offline"
    | some dev =>
      if d.online then "ok " ++ hex dev ++ " [" ++ joinWith "," (sorted.map showPM) ++ "]"
      else "err unbirthed"

def showPub (d : SmgrD) : R (PubOut Hd) → String
  | .panic => "panic"
  | .ok .noHandle => "err unbirthed"
  | .ok (.handed h pms) => handleAnswer d h pms

/-- the initializer a node hands to its manager: bdSeq and Node Control/Rebirth are registered -/
def nodePrelude (cfg : Cfg) (h : Name → Nat) (now : Nat) : Option (Init PV) :=
  match registerMetric cfg h ({ obj := 0, registry := [] } : Init PV) ⟨bdSeqName, false, dtInt64, now⟩
      (some (.int64 0)) with
  | .ok (_, s1) =>
    match registerMetric cfg h s1 ⟨rebirthName, false, dtBoolean, now⟩ (some (.bool false)) with
    | .ok (_, s2) => some s2
    | _ => none
  | _ => none

def parseObj (s : String) : Option Hd :=
  if s = "n" then some none else (unhex s).map some

def parseBirths (s : String) : Option (List (Hd × List Name)) :=
  if s = "_" then some [] else
  mapM? (fun part =>
    match part.splitOn "=" with
    | [o, l] =>
      match parseObj o, mapM? unhex (splitList l) with
      | some o, some l => some (o, l)
      | _, _ => none
    | _ => none) (s.splitOn ";")

/-- one birth of the object `obj` -/
def birthOne (d : SmgrD) (now : Nat) (obj : Hd) (order : List Name) : Option (SmgrD × String) :=
  let bi? : Option (Init PV) :=
    match obj with
    | none => nodePrelude d.cfg d.h now
    | some dev => (d.dm.devs.lookup dev).map fun id => { obj := id, registry := [] }
  match bi? with
  | none => none
  | some bi =>
    let r := initialiseBirth d.cfg d.h now order bi d.st
    let tag := match obj with | none => "N" | some dev => "D" ++ hex dev
    match r.bi with
    | some bi' =>
      some ({ d with st := r.st },
        tag ++ "[" ++ joinWith "|" ((bi'.metrics.drop bi.metrics.length).map showBirthMetric) ++ "]")
    | none => some ({ d with st := r.st, nodeDead := d.nodeDead || obj.isNone }, tag ++ "{panic}")

def birthMany (d : SmgrD) (now : Nat) : List (Hd × List Name) → Option (SmgrD × List String)
  | [] => some (d, [])
  | (obj, order) :: t =>
    if d.nodeDead then some (d, []) else
    match birthOne d now obj order with
    | none => none
    | some (d', s) =>
      match birthMany d' now t with
      | none => none
      | some (d'', l) => some (d'', s :: l)

/-- the births a node birth causes at the manager under test: the node itself (`n`-kind) or
every attached device (`d`-kind), the latter in the order observed -/
def expectedObjs (d : SmgrD) : List Hd :=
  if d.devKind then d.attached.map some else [none]

def runBirths (d : SmgrD) (now : Nat) (births : List (Hd × List Name)) (expected : List Hd) :
    SmgrD × String :=
  if !(births.map (·.1)).isPerm expected then (d, "bad-births") else
  match birthMany d now births with
  | none => (d, "bad-births")
  | some (d', l) => (d', if l.isEmpty then "-" else joinWith " " l)

/-- a command value token; what the harness refuses (`checked_value`) is refused here too -/
def checkedPV (variant field : String) : Option PV :=
  let inRange (bound : Nat) : Option PV :=
    match field.toNat? with
    | some n => if n < bound then parsePV "m" variant field else none
    | none => none
  match variant with
  | "int" | "float" => inRange 4294967296
  | "long" | "double" => inRange 18446744073709551616
  | "bool" => if field = "0" ∨ field = "1" then parsePV "m" variant field else none
  | "str" => (unhex field).bind fun b => if validUtf8 b then some (.str b) else none
  | "bytes" => parsePV "m" variant field
  | "template" =>
    if field ∈ ["n-", "nr", "t-", "tr", "f-", "fr"] then parsePV "m" variant field else none
  | "dataset" | "ext" => if field = "-" then parsePV "m" variant field else none
  | _ => none

def parseCm (tok : String) : Option CmdMetric :=
  match tok.splitOn ";" with
  | [id, variant, field] =>
    match parseId id with
    | none => none
    | some id =>
      if variant = "~" then (if field = "~" then some ⟨id, none⟩ else none)
      else (checkedPV variant field).map fun v => ⟨id, some v⟩
  | _ => none

def showCbVal : Option SV → String
  | none => "~"
  | some v => showSV v

/-- the recording handler, and the echo handler for the metrics registered with `e` -/
def runHandlers (d : SmgrD) (now : Nat) : St Hd → List Invocation → St Hd × List String
  | s, [] => (s, [])
  | s, i :: t =>
    let base := "cb " ++ hex i.name ++ " " ++ showCbVal i.value
    if i.name ∈ d.echo then
      let r := echoHandler now s i
      let str := match r.2 with
        | none => base
        | some out => base ++ " -> " ++ showPub d out
      let rest := runHandlers d now r.1 t
      (rest.1, str :: rest.2)
    else
      let rest := runHandlers d now s t
      (rest.1, base :: rest.2)

def stepSmgr (d : SmgrD) : List String → SmgrD × String
  | ["new", kind, fl] =>
    match parseFlags fl with
    | some cfg =>
      if kind = "n" then ({ live := true, cfg := cfg }, "ok")
      else if kind = "d" then ({ live := true, cfg := cfg, devKind := true, nodeBuilt := true }, "ok")
      else (d, "bad-op")
    | none => (d, "bad-op")
  | rest =>
    if !d.live then (d, "bad-op") else
    match rest with
    | ["hash", nm, v] =>
      match unhex nm, v.toNat? with
      | some nm, some v => ({ d with hash := (nm, v) :: d.hash }, "ok")
      | _, _ => (d, "bad-op")
    | ["reg", nm, ty, v, al, cb] =>
      match unhex nm, parseSTy ty, (if al = "a" then some true else if al = "n" then some false else none),
            (if cb = "-" then some (false, false) else if cb = "r" then some (true, false)
             else if cb = "e" then some (true, true) else none) with
      | some nm, some ty, some al, some (hasCb, isEcho) =>
        match parseSV ty v with
        | some sv =>
          if !ty.holds sv then (d, "bad-op") else
          match register d.st nm ty sv al hasCb with
          | .panic => (d, "panic")
          | .ok (s', true) =>
            ({ d with st := s', echo := if isEcho then nm :: d.echo else d.echo }, "some")
          | .ok (s', false) => ({ d with st := s' }, "none")
        | none => (d, "bad-op")
      | _, _, _, _ => (d, "bad-op")
    | ["attach", "n"] =>
      if d.devKind ∨ d.nodeBuilt then (d, "bad-op") else
      match init d.st none with
      | .ok s' => ({ d with st := s', nodeBuilt := true }, "ok")
      | .panic => (d, "panic")
    | ["attach", dev, now, births] =>
      match unhex dev, now.toNat?, parseBirths births with
      | some dev, some now, some births =>
        if !d.devKind ∨ d.nodeDead then (d, "bad-op") else
        match addDevice d.cfg d.h d.dm dev with
        | .invalid => (d, "err invalid")
        | .dup => (d, "err dup")
        | .panic => (d, "panic")
        | .ok dm _ =>
          match init d.st (some dev) with
          | .panic => (d, "panic")
          | .ok s' =>
            let d1 := { d with st := s', dm := dm, attached := d.attached ++ [dev] }
            if d1.online then
              let r := runBirths d1 now births [some dev]
              (r.1, if r.2 = "bad-births" then r.2 else "ok " ++ r.2)
            else if births.isEmpty then (d1, "ok") else (d1, "bad-births")
      | _, _, _ => (d, "bad-op")
    | ["online", now, births] =>
      match now.toNat?, parseBirths births with
      | some now, some births =>
        if !d.nodeBuilt ∨ d.online then (d, "bad-op") else
        if d.nodeDead then (d, "dead") else
        runBirths { d with online := true } now births (expectedObjs d)
      | _, _ => (d, "bad-op")
    | ["rebirth", now, births] =>
      match now.toNat?, parseBirths births with
      | some now, some births =>
        if !d.online then (d, "bad-op") else
        if d.nodeDead then (d, "dead") else
        runBirths d now births (expectedObjs d)
      | _, _ => (d, "bad-op")
    | ["drebirth", dev, now, births] =>
      match unhex dev, now.toNat?, parseBirths births with
      | some dev, some now, some births =>
        if !d.online ∨ !d.devKind ∨ dev ∉ d.attached then (d, "bad-op") else
        runBirths d now births [some dev]
      | _, _, _ => (d, "bad-op")
    | ["offline"] =>
      if !d.online then (d, "bad-op") else
      if d.nodeDead then (d, "dead") else ({ d with online := false }, "ok")
    | ["upd", nm, v, ts] =>
      match unhex nm, ts.toNat? with
      | some nm, some ts =>
        match d.st.metrics.find? (fun e => e.name = nm) with
        | none => (d, "bad-op")
        | some e =>
          match parseSV e.ty v with
          | none => (d, "bad-op")
          | some sv =>
            if !e.ty.holds sv then (d, "bad-op") else
            match update ts d.st nm (fun _ => sv) with
            | .panic => (d, "panic")
            | .ok (s', pm) => ({ d with st := s', held := d.held ++ [pm] }, "old=" ++ showSV e.value)
      | _, _ => (d, "bad-op")
    | ["pub", mode] =>
      if mode ≠ "one" ∧ mode ≠ "many" then (d, "bad-op") else
      if mode = "one" ∧ d.held.length ≠ 1 then (d, "bad-op") else
      ({ d with held := [] }, showPub d (publish d.st d.held))
    | "cmd" :: target :: now :: cms =>
      match parseObj target, now.toNat?, mapM? parseCm cms with
      | some target, some now, some cms =>
        let okTarget := match target with
          | none => !d.devKind ∧ d.nodeBuilt
          | some dev => d.devKind ∧ dev ∈ d.attached
        if !okTarget ∨ !d.online then (d, "bad-op") else
        if d.nodeDead then (d, "dead") else
        match command d.st cms with
        | .panic => (d, "panic")
        | .ok invs =>
          let r := runHandlers d now d.st invs
          ({ d with st := r.1 }, if r.2.isEmpty then "-" else joinWith " | " r.2)
      | _, _, _ => (d, "bad-op")
    | _ => (d, "bad-op")

end Srad.Drv.SimpleMgrD
