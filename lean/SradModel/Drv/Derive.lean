/-
Driver for component `derive` (C17). One schema per case:
  derive new <id> S <name> <ver|~> <refoverride|~> <n> field*     -> def <ver|~> <metrics> <params>
     field := s <wire> <skip> <m|om|p|op> <ty> <cell>  |  n <wire> <skip> S… V…
  derive inst V…                        template_instance            -> I <ref> <ver|~> <metrics> <params>
  derive rt V…                          try_from(template_instance)  -> ok V… | err <e>
  derive from I…                        try_from                     -> ok V… | err <e>
  derive diff V…(b) V…(a)               b.template_instance_from_difference(&a) -> none | some I…
  derive patch V…(b) V…(a)              a.update_from_instance(that) -> none | ok V… | err <e> V…
  derive upd V…(a) I…                   a.update_from_instance(i)    -> ok V… | err <e> V…
  derive updf V…(a) I…                  same; the harness built `i` to be foreign: `bad-op`
                                        unless the specification predicate `foreign` agrees
Tokens: names/strings hex (`-` empty, `~` absent); cells `~` | n:<bits> | b:<0|1> | s:<hex> | V <n> cell*;
metrics `<n> (v <name> <dt> <pv> | t <name> <dt> <n|t|f> <ref> <ver> <metrics> <params>)*`;
params `<n> (<name> <ty> <pv>)*`; pv `~` | int:…|long:…|float:…|double:…|bool:…|str:…|bytes:…|dataset:-|ext:-
-/
import SradModel.Model.Derive
import SradModel.Model.DeriveSpec
import SradModel.Drv.Util
import SradModel.Drv.Codec

namespace Srad.Drv
open Srad Srad.Codec Srad.Derive

abbrev P (α : Type) := List String → Option (α × List String)

def pOptName : P (Option Name)
  | "~" :: r => some (none, r)
  | t :: r => (unhex t).map fun b => (some b, r)
  | [] => none

def pName : P Name
  | t :: r => (unhex t).map fun b => (b, r)
  | [] => none

def pNat : P Nat
  | t :: r => t.toNat?.map fun n => (n, r)
  | [] => none

def pOptNat : P (Option Nat)
  | "~" :: r => some (none, r)
  | t :: r => t.toNat?.map fun n => (some n, r)
  | [] => none

def splitColon (s : String) : Option (String × String) :=
  match s.splitOn ":" with
  | [a, b] => some (a, b)
  | _ => none

def svOfTok (t : String) : Option SV :=
  match splitColon t with
  | some ("n", x) => x.toNat?.map .n
  | some ("b", x) => if x = "1" then some (.b true) else if x = "0" then some (.b false) else none
  | some ("s", x) => (unhex x).map .s
  | _ => none

def pCell : P (Option SV)
  | "~" :: r => some (none, r)
  | t :: r => (svOfTok t).map fun v => (some v, r)
  | [] => none

def pvOfTok (t : String) : Option PV :=
  match splitColon t with
  | some ("int", x) => x.toNat?.map .int
  | some ("long", x) => x.toNat?.map .long
  | some ("float", x) => x.toNat?.map .float
  | some ("double", x) => x.toNat?.map .double
  | some ("bool", x) => if x = "1" then some (.bool true) else if x = "0" then some (.bool false) else none
  | some ("str", x) => (unhex x).map .str
  | some ("bytes", x) => (unhex x).map .bytes
  | some ("dataset", _) => some .dataset
  | some ("ext", _) => some .ext
  | _ => none

def pPV : P (Option PV)
  | "~" :: r => some (none, r)
  | t :: r => (pvOfTok t).map fun v => (some v, r)
  | [] => none

mutual
partial def pVals : P Vals
  | "V" :: r => do
    let (n, r) ← pNat r
    pCells n r
  | _ => none
partial def pCells (n : Nat) : P Vals := fun r =>
  match n with
  | 0 => some (.nil, r)
  | n + 1 =>
    match r with
    | "V" :: _ => do
      let (sub, r) ← pVals r
      let (rest, r) ← pCells n r
      pure (.nest sub rest, r)
    | _ => do
      let (c, r) ← pCell r
      let (rest, r) ← pCells n r
      pure (.s c rest, r)
end

def pSKind : P SKind
  | k :: ty :: r => do
    let t ← parseSTy ty
    match k with
    | "m" => pure (.metric t, r)
    | "om" => pure (.optMetric t, r)
    | "p" => pure (.param t, r)
    | "op" => pure (.optParam t, r)
    | _ => none
  | _ => none

def pBool : P Bool
  | "1" :: r => some (true, r)
  | "0" :: r => some (false, r)
  | _ => none

mutual
partial def pSchema : P Schema
  | "S" :: r => do
    let (name, r) ← pName r
    let (ver, r) ← pOptName r
    let (ovr, r) ← pOptName r
    let (n, r) ← pNat r
    let (fs, r) ← pFields n r
    pure ({ ref := ovr.getD (defaultRef name ver), ver := ver, fields := fs }, r)
  | _ => none
partial def pFields (n : Nat) : P Fields := fun r =>
  match n with
  | 0 => some (.nil, r)
  | n + 1 =>
    match r with
    | "s" :: r => do
      let (w, r) ← pName r
      let (skip, r) ← pBool r
      let (k, r) ← pSKind r
      let (d, r) ← pCell r
      let (rest, r) ← pFields n r
      pure (.scalar w skip k d rest, r)
    | "n" :: r => do
      let (w, r) ← pName r
      let (skip, r) ← pBool r
      let (σ, r) ← pSchema r
      let (d, r) ← pVals r
      let (rest, r) ← pFields n r
      pure (.nested w skip σ.ref σ.ver σ.fields d rest, r)
    | _ => none
end

def pParams : Nat → P (List WP)
  | 0, r => some ([], r)
  | n + 1, r => do
    let (name, r) ← pOptName r
    let (ty, r) ← pOptNat r
    let (v, r) ← pPV r
    let (rest, r) ← pParams n r
    pure ({ name := name, ty := ty, value := v } :: rest, r)

def pIsDef : P (Option Bool)
  | "n" :: r => some (none, r)
  | "t" :: r => some (some true, r)
  | "f" :: r => some (some false, r)
  | _ => none

partial def pMetrics (n : Nat) : P WMs := fun r =>
  match n with
  | 0 => some (.nil, r)
  | n + 1 =>
    match r with
    | "v" :: r => do
      let (name, r) ← pOptName r
      let (dt, r) ← pOptNat r
      let (v, r) ← pPV r
      let (rest, r) ← pMetrics n r
      pure (.val name dt v rest, r)
    | "t" :: r => do
      let (name, r) ← pOptName r
      let (dt, r) ← pOptNat r
      let (isDef, r) ← pIsDef r
      let (ref, r) ← pOptName r
      let (ver, r) ← pOptName r
      let (nm, r) ← pNat r
      let (sub, r) ← pMetrics nm r
      let (np, r) ← pNat r
      let (ps, r) ← pParams np r
      let (rest, r) ← pMetrics n r
      pure (.templ name dt isDef ref ver sub ps rest, r)
    | _ => none

def pInst : P TInst
  | "I" :: r => do
    let (ref, r) ← pName r
    let (ver, r) ← pOptName r
    let (nm, r) ← pNat r
    let (ms, r) ← pMetrics nm r
    let (np, r) ← pNat r
    let (ps, r) ← pParams np r
    pure ({ ref := ref, ver := ver, metrics := ms, params := ps }, r)
  | _ => none

/-! printing -/

def tokOptName : Option Name → String
  | none => "~"
  | some b => hex b

def tokSV : SV → String
  | .n x => s!"n:{x}"
  | .b v => if v then "b:1" else "b:0"
  | .s b => "s:" ++ hex b

def tokCell : Option SV → String
  | none => "~"
  | some v => tokSV v

def tokPV : Option PV → String
  | none => "~"
  | some (.int x) => s!"int:{x}"
  | some (.long x) => s!"long:{x}"
  | some (.float x) => s!"float:{x}"
  | some (.double x) => s!"double:{x}"
  | some (.bool v) => if v then "bool:1" else "bool:0"
  | some (.str s) => "str:" ++ hex s
  | some (.bytes b) => "bytes:" ++ hex b
  | some .dataset => "dataset:-"
  | some .ext => "ext:-"
  | some _ => "other:-"

def tokOptNat : Option Nat → String
  | none => "~"
  | some n => toString n

def valsCells : Vals → List String
  | .nil => []
  | .s v rest => tokCell v :: valsCells rest
  | .nest sub rest =>
    let c := valsCells sub
    (joinWith " " (("V " ++ toString c.length) :: c)) :: valsCells rest

def tokVals (v : Vals) : String :=
  let c := valsCells v
  joinWith " " (("V " ++ toString c.length) :: c)

def tokParams (ps : List WP) : String :=
  joinWith " " (toString ps.length ::
    ps.map fun p => tokOptName p.name ++ " " ++ tokOptNat p.ty ++ " " ++ tokPV p.value)

def tokIsDef : Option Bool → String
  | none => "n"
  | some true => "t"
  | some false => "f"

def metricToks : WMs → List String
  | .nil => []
  | .val n dt v rest =>
    ("v " ++ tokOptName n ++ " " ++ tokOptNat dt ++ " " ++ tokPV v) :: metricToks rest
  | .templ n dt isDef ref ver sub ps rest =>
    let c := metricToks sub
    ("t " ++ tokOptName n ++ " " ++ tokOptNat dt ++ " " ++ tokIsDef isDef ++ " " ++ tokOptName ref
      ++ " " ++ tokOptName ver ++ " " ++ joinWith " " (toString c.length :: c) ++ " " ++ tokParams ps)
      :: metricToks rest

def tokMetrics (ms : WMs) : String :=
  let c := metricToks ms
  joinWith " " (toString c.length :: c)

def tokInst (i : TInst) : String :=
  "I " ++ hex i.ref ++ " " ++ tokOptName i.ver ++ " " ++ tokMetrics i.metrics ++ " " ++ tokParams i.params

def tokErr : TErr → String
  | .invalidPayload => "invalidPayload"
  | .unknownParameter n => "unknownParameter " ++ hex n
  | .unknownMetric n => "unknownMetric " ++ hex n
  | .refMismatch n => "refMismatch " ++ hex n
  | .versionMismatch => "versionMismatch"
  | .invalidParameterValue n => "invalidParameterValue " ++ hex n
  | .invalidMetricValue n => "invalidMetricValue " ++ hex n
  | .illTyped => "illTyped"

def tokFrom : Except TErr Vals → String
  | .ok v => "ok " ++ tokVals v
  | .error e => "err " ++ tokErr e

def tokUpd : Except TErr Unit × Vals → String
  | (.ok _, v) => "ok " ++ tokVals v
  | (.error e, v) => "err " ++ tokErr e ++ " " ++ tokVals v

def stepDerive (st : Option Schema) : List String → Option Schema × String
  | "new" :: _id :: rest =>
    match pSchema rest with
    | some (σ, []) =>
      let d := definition σ
      (some σ, "def " ++ tokOptName d.ver ++ " " ++ tokMetrics d.metrics ++ " " ++ tokParams d.params)
    | _ => (none, "bad-op")
  | "inst" :: rest =>
    match st, pVals rest with
    | some σ, some (a, []) => (st, tokInst (instanceOf σ a))
    | _, _ => (st, "bad-op")
  | "rt" :: rest =>
    match st, pVals rest with
    | some σ, some (a, []) => (st, tokFrom (fromInstance σ (instanceOf σ a)))
    | _, _ => (st, "bad-op")
  | "from" :: rest =>
    match st, pInst rest with
    | some σ, some (i, []) => (st, tokFrom (fromInstance σ i))
    | _, _ => (st, "bad-op")
  | "diff" :: rest =>
    match st, pVals rest with
    | some σ, some (b, r) =>
      match pVals r with
      | some (a, []) =>
        (st, match diff σ b a with | none => "none" | some d => "some " ++ tokInst d)
      | _ => (st, "bad-op")
    | _, _ => (st, "bad-op")
  | "patch" :: rest =>
    match st, pVals rest with
    | some σ, some (b, r) =>
      match pVals r with
      | some (a, []) =>
        (st, match diff σ b a with | none => "none" | some d => tokUpd (update σ a d))
      | _ => (st, "bad-op")
    | _, _ => (st, "bad-op")
  | "upd" :: rest =>
    match st, pVals rest with
    | some σ, some (a, r) =>
      match pInst r with
      | some (i, []) => (st, tokUpd (update σ a i))
      | _ => (st, "bad-op")
    | _, _ => (st, "bad-op")
  | "updf" :: rest =>
    match st, pVals rest with
    | some σ, some (a, r) =>
      match pInst r with
      | some (i, []) => (st, if foreign σ i then tokUpd (update σ a i) else "bad-op")
      | _ => (st, "bad-op")
    | _, _ => (st, "bad-op")
  | _ => (st, "bad-op")

end Srad.Drv
