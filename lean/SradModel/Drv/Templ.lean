/-
Line-protocol driver for the template model (component `templ`).

Token grammar (prefix notation, space separated):
  TMPL    := <is_definition: n|t|f> <template_ref: ~|hex> CONTENT
  CONTENT := <version: ~|hex> <k> METRIC{k} <j> PARAM{j}
  METRIC  := p <rest> <datatype: ~|nat> <value: ~|token>      value absent / not a template
           | t <rest> <datatype: ~|nat> TMPL                   value is a template
  PARAM   := token
  MV      := T TMPL | O token
`~` is `None`; hex strings use `-` for the empty string. `rest` and value/parameter tokens are
opaque (the harness puts the protobuf encoding of the remaining fields there).

Requests:
  new                          reset the registry                         -> ok
  def CONTENT                  definition -> MetricValue -> four decoders -> T TMPL | D:r | I:r | V:r | K:r
  inst <ref> CONTENT           instance   -> MetricValue -> four decoders -> same
  dec MV                       four decoders on an arbitrary value        -> D:r | I:r | V:r | K:r
  breg <name> CONTENT          EoNBuilder::register_template              -> ok | panic
  birth                        a birth_update_template_registry callback starts -> ok
  reg <name> CONTENT           TemplateRegistry::register                 -> ok | err name|dup|def|unreg
  dereg <name> | clear         -> ok
  has <name>                   TemplateRegistry::contains                 -> 1 | 0
  nbirth                       closes a birth block: the template definition metrics of the NBIRTH the
                               node hands over after the callback, sorted by name
                               -> <k> | <name> <datatype> T TMPL | ...
-/
import SradModel.Model.Templ
import SradModel.Drv.Util

namespace Srad.Drv
open Srad Srad.Codec Srad.Templ

def optHex (s : String) : Option (Option Bytes) :=
  if s = "~" then some none else (unhex s).map some

def showOptHex : Option Bytes → String
  | none => "~"
  | some b => hex b

def optNat (s : String) : Option (Option Nat) :=
  if s = "~" then some none else s.toNat?.map some

def showOptNat : Option Nat → String
  | none => "~"
  | some n => toString n

def parseIsDef : String → Option (Option Bool)
  | "n" => some none | "t" => some (some true) | "f" => some (some false) | _ => none

def showIsDef : Option Bool → String
  | none => "n" | some true => "t" | some false => "f"

def takeN : Nat → List String → Option (List String × List String)
  | 0, l => some ([], l)
  | _ + 1, [] => none
  | n + 1, x :: t => (takeN n t).map fun (a, b) => (x :: a, b)

structure Content where
  version : Option Bytes
  metrics : List Metric
  params : List String

mutual
partial def parseMetric : List String → Option (Metric × List String)
  | "p" :: rest :: dt :: val :: t =>
    match optNat dt with
    | some d => some (.plain rest d (if val = "~" then none else some val), t)
    | none => none
  | "t" :: rest :: dt :: t =>
    match optNat dt, parseTmpl t with
    | some d, some (tm, t') =>
      some (.templ rest d tm.version tm.ref tm.isDef tm.metrics tm.params, t')
    | _, _ => none
  | _ => none
partial def parseMetrics : Nat → List String → Option (List Metric × List String)
  | 0, l => some ([], l)
  | n + 1, l =>
    match parseMetric l with
    | some (m, l') =>
      match parseMetrics n l' with
      | some (ms, l'') => some (m :: ms, l'')
      | none => none
    | none => none
partial def parseContent : List String → Option (Content × List String)
  | ver :: k :: t =>
    match optHex ver, k.toNat? with
    | some v, some kn =>
      match parseMetrics kn t with
      | some (ms, j :: t') =>
        match j.toNat? with
        | some jn =>
          match takeN jn t' with
          | some (ps, t'') => some ({ version := v, metrics := ms, params := ps }, t'')
          | none => none
        | none => none
      | _ => none
    | _, _ => none
  | _ => none
partial def parseTmpl : List String → Option (Tmpl × List String)
  | d :: r :: t =>
    match parseIsDef d, optHex r, parseContent t with
    | some isDef, some ref, some (c, t') =>
      some ({ version := c.version, metrics := c.metrics, params := c.params, ref := ref, isDef := isDef }, t')
    | _, _, _ => none
  | _ => none
end

mutual
def showMetric : Metric → List String
  | .plain rest dt val => ["p", rest, showOptNat dt, val.getD "~"]
  | .templ rest dt v ref d ms ps =>
    ["t", rest, showOptNat dt, showIsDef d, showOptHex ref, showOptHex v, toString ms.length]
      ++ showMetrics ms ++ (toString ps.length :: ps)
def showMetrics : List Metric → List String
  | [] => []
  | m :: t => showMetric m ++ showMetrics t
end

def showContent (v : Option Bytes) (ms : List Metric) (ps : List String) : List String :=
  [showOptHex v, toString ms.length] ++ showMetrics ms ++ (toString ps.length :: ps)

def showTmpl (t : Tmpl) : List String :=
  [showIsDef t.isDef, showOptHex t.ref] ++ showContent t.version t.metrics t.params

def showTErr : Err → String
  | .value => "err value" | .variant => "err variant" | _ => "err other"

def showDefRes : Res TDef → String
  | .ok d => joinWith " " ("ok" :: "D" :: showContent d.version d.metrics d.params)
  | .err e => showTErr e
  | .panic => "panic"

def showInstRes : Res TInst → String
  | .ok i => joinWith " " ("ok" :: "I" :: hex i.ref :: showContent i.version i.metrics i.params)
  | .err e => showTErr e
  | .panic => "panic"

def showValRes : Res TVal → String
  | .ok (.definition d) => showDefRes (.ok d)
  | .ok (.inst i) => showInstRes (.ok i)
  | .err e => showTErr e
  | .panic => "panic"

def showDecoders (mv : MV) : String :=
  "D:" ++ showDefRes (defFromMV mv) ++ " | I:" ++ showInstRes (instFromMV mv) ++
  " | V:" ++ showValRes (valueFromMV mv) ++ " | K:" ++ showValRes (kindTemplate mv)

def showMVAndDecoders (mv : MV) : String :=
  match mv with
  | .templ t => joinWith " " ("T" :: showTmpl t) ++ " | " ++ showDecoders mv
  | .other tok => "O " ++ tok ++ " | " ++ showDecoders mv

def showRegErr : RegErr → String
  | .invalidName => "err name" | .duplicate => "err dup"
  | .invalidDefinition => "err def" | .unregistered => "err unreg"

def parseNamedContent (name : String) (rest : List String) : Option (Bytes × TDef) :=
  match unhex name, parseContent rest with
  | some n, some (c, []) => some (n, { version := c.version, metrics := c.metrics, params := c.params })
  | _, _ => none

/-- lexicographic order on byte strings (`Vec<u8>: Ord`) -/
def bytesLe : Bytes → Bytes → Bool
  | [], _ => true
  | _ :: _, [] => false
  | a :: s, b :: t => a < b || (a == b && bytesLe s t)

def insertByName (e : Bytes × MV) : List (Bytes × MV) → List (Bytes × MV)
  | [] => [e]
  | x :: t => if bytesLe e.1 x.1 then e :: x :: t else x :: insertByName e t

/-- stable insertion sort by name -/
def sortByName (l : List (Bytes × MV)) : List (Bytes × MV) :=
  l.foldr insertByName []

def showAnnounced (e : Bytes × MV) : String :=
  match e.2 with
  | .templ t => joinWith " " (hex e.1 :: toString templateCode :: "T" :: showTmpl t)
  | .other tok => joinWith " " [hex e.1, toString templateCode, "O", tok]

/-- the template definition metrics of an NBIRTH for registry `r` -/
def showNBirth (r : Registry) : String :=
  joinWith " | " (toString r.length :: (sortByName (announced r)).map showAnnounced)

def stepTempl (r : Registry) : List String → Registry × String
  | ["new"] => ([], "ok")
  | "def" :: rest =>
    match parseContent rest with
    | some (c, []) =>
      (r, showMVAndDecoders (defToMV { version := c.version, metrics := c.metrics, params := c.params }))
    | _ => (r, "bad-op")
  | "inst" :: ref :: rest =>
    match unhex ref, parseContent rest with
    | some rf, some (c, []) =>
      (r, showMVAndDecoders
        (instToMV { ref := rf, version := c.version, metrics := c.metrics, params := c.params }))
    | _, _ => (r, "bad-op")
  | "dec" :: "T" :: rest =>
    match parseTmpl rest with
    | some (t, []) => (r, showDecoders (.templ t))
    | _ => (r, "bad-op")
  | ["dec", "O", tok] => (r, showDecoders (.other tok))
  | "breg" :: name :: rest =>
    match parseNamedContent name rest with
    | some (n, d) =>
      match builderRegister r n d with
      | .ok r' => (r', "ok")
      | .err _ => (r, "bad-op")
      | .panic => (r, "panic")
    | none => (r, "bad-op")
  | ["birth"] => (r, "ok")
  | "reg" :: name :: rest =>
    match parseNamedContent name rest with
    | some (n, d) =>
      match register r n d with
      | .ok r' => (r', "ok")
      | .error e => (r, showRegErr e)
    | none => (r, "bad-op")
  | ["dereg", name] =>
    match unhex name with
    | some n => (deregister r n, "ok")
    | none => (r, "bad-op")
  | ["clear"] => (clear r, "ok")
  | ["nbirth"] => (r, showNBirth r)
  | ["has", name] =>
    match unhex name with
    | some n => (r, if r.has n then "1" else "0")
    | none => (r, "bad-op")
  | _ => (r, "bad-op")

end Srad.Drv
