import SradModel.Model.Rumqtt
import SradModel.Drv.Topic
import SradModel.Drv.Util

/-!
Driver for component `rumqtt` (M14): the glue `srad-client-rumqtt` run against a fake broker.
Requests as in harness/src/rumqtt.rs. The driver keeps the glue's `ConnectionState`, the options
of the next CONNECT, the broker's answer policy queue and whether a connection is up, translates
every step into the sequence of rumqttc outcomes (`RuEv`) it causes, and prints what the model
(`reports`, `sleepCount`, the conversions) says the harness observes.

### From broker / client actions to rumqttc 0.24 outcomes (read off rumqttc's v5 event loop)

* a connection attempt the broker answers with CONNACK(success)      -> `connAck`
* an attempt it refuses (CONNACK not-authorised), drops after CONNECT,
  or answers with a non-CONNACK packet                                -> `error`
  (one attempt per `poll`; attempts follow each other until one succeeds)
* broker PUBLISH                                                       -> `incomingPublish`
* broker DISCONNECT (either framing), dropped socket                   -> `error`
  rumqttc 0.24 never yields `Incoming(Disconnect)`: its state machine turns a server
  DISCONNECT into `Err(StateError::ServerDisconnect)`; the glue's arm for it is dead code with
  this rumqttc version (modelled all the same, `incomingDisconnect`)
* `Client::disconnect()`                                               -> `outgoingDisconnect`,
  then, the broker closing the socket, `error`; polled further, rumqttc reconnects at once
* publish / subscribe requests, PUBACK, SUBACK, PINGRESP               -> `otherEvent` (no report;
  left out of the sequences below since they change nothing)
* `subscribe_many(vec![])`: accepted by the client, refused inside the event loop
  (`StateError::EmptySubscription`)                                    -> `error`
* a burst "n PUBLISH + DISCONNECT" read in one piece                   -> `error` first, the n
  publishes only after the next successful CONNECT, *before* its ConnAck: rumqttc keeps the
  events it had buffered when the error struck. How many of the n come out before the error
  (`k`) depends on how the bytes were read; the harness reports the `k` it saw in the request
  and the driver accepts any `0 ≤ k ≤ n` — the one place where the answer follows an observed
  choice of rumqttc / TCP.

Approximations: `otherEvent`s are not enumerated; filters are assumed valid for
`rumqttc::valid_filter` (the generator only builds such); a publish payload in a request is
the prost encoding the harness computed (it must be canonical for a replay to agree); timing:
`sl` is the number of whole seconds of the step, equal to the number of 1 s sleeps as long as
everything else in a step takes < 1 s.
-/
namespace Srad.Drv
open Srad Srad.Rumqtt Srad.StateJson
open Srad.Topic (QoS Verb)

structure RuD where
  live : Bool := false
  cap : Nat := 0
  st : ConnState := .disconnected
  /-- a connection is up (both ends) -/
  up : Bool := false
  /-- `cdisc stop` happened: the broker has closed, the client has not polled since -/
  limbo : Bool := false
  opts : ConnOpts Unit := { cleanStart := true, sessionExpiry := none, will := none, other := () }
  pols : List String := []

def ruQos : String → Option QoS
  | "0" => some .atMostOnce | "1" => some .atLeastOnce | _ => none

def showMq (q : MqttQoS) : String := toString q.wire

def showBool (b : Bool) : String := if b then "1" else "0"

def showMqttWill : Option MqttWill → String
  | none => "~"
  | some w => s!"{hex w.topic}:{hex w.message}:{showMq w.qos}:{showBool w.retain}"

def showConn (o : ConnOpts Unit) : String :=
  let se := match o.sessionExpiry with | some n => toString n | none => "~"
  s!"cs{showBool o.cleanStart}/se{se}/w{showMqttWill o.will}"

def showPub (w : WirePublish) : String :=
  s!"p:{hex w.topic}:{showMq w.qos}:{showBool w.retain}:{hex w.payload}"

def showSub (fs : List MqttFilter) : String :=
  "s:" ++ joinWith "+" (fs.map fun f => s!"{hex f.path}:{showMq f.qos}")

def dash (sep : String) (l : List String) : String := if l.isEmpty then "-" else joinWith sep l

def showRuEv : SradEv String → String
  | .online => "on" | .offline => "off" | .message e => "m:" ++ e

/-- `topic_and_payload_to_event` through the C13 model; `f`: prost accepts the payload -/
def ruToEvent (f : Bool) (t p : Bytes) : String :=
  (showEvent (Srad.Topic.parse validUtf8 (fun _ => if f then some () else none) t p)).replace " " "."

/-- successive connection attempts against the policy queue: outcomes, queue left, attempts -/
def reconnect : List String → List RuEv × List String × Nat
  | [] => ([.connAck], [], 1)
  | p :: rest =>
    if p = "ok" then ([.connAck], rest, 1)
    else
      let r := reconnect rest
      (.error :: r.1, r.2.1, r.2.2 + 1)

def parseWill4 (t p q r : String) : Option LastWill :=
  match unhex t, unhex p, ruQos q, parseFlag r with
  | some t, some p, some q, some r =>
    if validUtf8 t then some { topic := t, retain := r, qos := q, payload := p } else none
  | _, _, _, _ => none

def parseUserWill (s : String) : Option (Option MqttWill) :=
  if s = "~" then some none else
  match s.splitOn ":" with
  | [t, p, q, r] => (parseWill4 t p q r).map fun w => some (convertWill w)
  | _ => none

def parsePubKind : String → Option PubKind
  | "nbirth" => some (.node .birth) | "ndata" => some (.node .data) | "ncmd" => some (.node .cmd)
  | "ndeath" => some (.node .death) | "dbirth" => some (.device .birth)
  | "ddata" => some (.device .data) | "dcmd" => some (.device .cmd)
  | "ddeath" => some (.device .death) | "state" => some .state
  | _ => none

/-- `<kind> <topic> <payload>` | `state <topic> <0|1> <ts>` -> kind, topic, payload bytes -/
def parsePubArgs : List String → Option (PubKind × Bytes × Bytes)
  | ["state", t, o, ts] =>
    match unhex t, parseFlag o, ts.toNat? with
    | some t, some o, some ts =>
      if validUtf8 t ∧ ts < 18446744073709551616 then some (.state, t, statePayloadBytes o ts) else none
    | _, _, _ => none
  | [k, t, p] =>
    match parsePubKind k, unhex t, unhex p with
    | some k, some t, some p => if k ≠ .state ∧ validUtf8 t then some (k, t, p) else none
    | _, _, _ => none
  | _ => none

def parseFilter (s : String) : Option TopicFilter :=
  match s.splitOn ":" with
  | [spec, q] =>
    match ruQos q with
    | none => none
    | some q =>
      let str (h : String) : Option Bytes := (unhex h).bind fun b => if validUtf8 b then some b else none
      match spec.splitOn "." with
      | ["full"] => some { topic := .fullNamespace, qos := q }
      | ["group", id] => (str id).map fun id => { topic := .group id, qos := q }
      | ["node", g, n] =>
        match str g, str n with
        | some g, some n => some { topic := .node g n, qos := q }
        | _, _ => none
      | ["ntopic", t] => (str t).map fun t => { topic := .nodeTopic t, qos := q }
      | ["dtopic", t] => (str t).map fun t => { topic := .deviceTopic t, qos := q }
      | ["state", t] => (str t).map fun t => { topic := .state t, qos := q }
      | _ => none
  | _ => none

def parseFilters (s : String) : Option (List TopicFilter) :=
  if s = "-" then some [] else mapM? parseFilter (s.splitOn ",")

def validPol (p : String) : Bool := p = "ok" || p = "refuse" || p = "drop" || p = "junk"

def isSentinel (t : Bytes) : Bool := t.take 5 = [0x24, 0x4d, 0x31, 0x34, 0x2f]

/-- what the op itself does once a connection is up: results of the client calls, outcomes
before a possible reconnect, whether the connection is lost (a reconnect follows), outcomes
delivered between the failed attempts and the final ConnAck (stale events), packets the broker
sees, and whether the step ends in limbo -/
structure OpEff where
  ret : List String := []
  pre : List RuEv := []
  lost : Bool := false
  stale : List RuEv := []
  seen : List String := []
  limbo : Bool := false
  flag : Bool := true

def okErr (b : Bool) : String := if b then "ok" else "err"

def opEffect (d : RuD) : List String → Option OpEff
  | ["settle"] => some {}
  | ["bpub", t, p, f, q] =>
    match unhex t, unhex p, parseFlag f, ruQos q with
    | some t, some p, some f, some _ =>
      if isSentinel t then none else some { pre := [.incomingPublish t p], flag := f }
    | _, _, _, _ => none
  | ["bdisc"] => some { pre := [.error], lost := true }
  | ["bdiscb"] => some { pre := [.error], lost := true }
  | ["bdrop"] => some { pre := [.error], lost := true }
  | ["bburst", n, t, p, f, k] =>
    match n.toNat?, unhex t, unhex p, parseFlag f,
      (match k.splitOn "=" with | ["k", v] => v.toNat? | _ => none) with
    | some n, some t, some p, some f, some k =>
      if n > 9 ∨ k > n ∨ isSentinel t then none
      else some { pre := List.replicate k (.incomingPublish t p) ++ [.error], lost := true,
                  stale := List.replicate (n - k) (.incomingPublish t p), flag := f }
    | _, _, _, _, _ => none
  | "cpub" :: rest =>
    (parsePubArgs rest).map fun (k, t, p) =>
      match publishRequest k t p with
      | some w => { ret := ["ok"], seen := [showPub w] }
      | none => { ret := ["err"] }
  | "ctry" :: n :: rest =>
    match n.toNat?, parsePubArgs rest with
    | some n, some (k, t, p) =>
      if n > 70 then none else
      match publishRequest k t p with
      | some w =>
        let rs := tryMany d.cap 0 n
        some { ret := rs.map okErr, seen := (rs.filter id).map fun _ => showPub w }
      | none => some { ret := List.replicate n "err" }
    | _, _ => none
  | "cfull" :: rest =>
    (parsePubArgs rest).map fun (k, t, p) =>
      match publishRequest k t p with
      | some w =>
        let rs := tryMany d.cap 0 d.cap
        { ret := rs.map okErr ++ ["blocked"], seen := (rs.filter id).map fun _ => showPub w }
      | none => { ret := List.replicate (d.cap + 1) "err" }
  | ["csub", fs] =>
    (parseFilters fs).map fun tfs =>
      if tfs.isEmpty then { ret := ["ok"], pre := [.error], lost := true }
      else { ret := ["ok"], seen := [showSub (subscribeRequest tfs)] }
  | ["cdisc", "stop"] => some { ret := ["ok"], pre := [.outgoingDisconnect], seen := ["d"], limbo := true }
  | ["cdisc", "cont"] =>
    some { ret := ["ok"], pre := [.outgoingDisconnect, .error], lost := true, seen := ["d"] }
  | ["cdisc", "twice"] =>
    if d.cap < 2 then some { ret := ["unsupported"] }
    else some { ret := ["ok", "ok"], pre := [.outgoingDisconnect, .outgoingDisconnect, .error],
                lost := true, seen := ["d"] }
  | _ => none

/-- split the reconnect outcomes `errors… ++ [connAck]` to put the stale events before the
final ConnAck -/
def withStale (rc stale : List RuEv) : List RuEv :=
  rc.dropLast ++ stale ++ (match rc.getLast? with | some e => [e] | none => [])

def stepPolling (d : RuD) (ws : List String) : RuD × String :=
  match opEffect d ws with
  | none => (d, "bad-op")
  | some eff =>
    -- 1. the step starts from a live connection (every op but `settle` itself settles first)
    let (o1, pols1, n1) :=
      if d.up then (([] : List RuEv), d.pols, 0)
      else
        let r := reconnect d.pols
        ((if d.limbo then [RuEv.error] else []) ++ r.1, r.2.1, r.2.2)
    -- 2. the op, 3. the reconnect it causes
    let (o3, pols3, n3) :=
      if eff.lost then
        let r := reconnect pols1
        (withStale r.1 eff.stale, r.2.1, r.2.2)
      else (([] : List RuEv), pols1, 0)
    let tr := o1 ++ eff.pre ++ o3
    let f := ruToEvent eff.flag
    let evs := reports f d.st tr
    let sl := sleepCount f d.st tr
    let conns := List.replicate (n1 + n3) (showConn d.opts)
    let d' := { d with st := finalState f d.st tr, up := !eff.limbo, limbo := eff.limbo, pols := pols3 }
    (d', s!"ret={dash "," eff.ret} ev={dash "," (evs.map showRuEv)} sl={sl} conn={dash ";" conns} seen={dash ";" eff.seen}")

def stepRumqtt (d : RuD) : List String → RuD × String
  | ["new", cap, cs, se, will] =>
    match cap.toNat?, parseFlag cs, (if se = "~" then some none else se.toNat?.map some), parseUserWill will with
    | some cap, some cs, some se, some will =>
      if cap > 64 || (match se with | some n => decide (n ≥ 4294967296) | none => false) then (d, "bad-op")
      else
        ({ live := true, cap := cap, opts := newOptions { cleanStart := cs, sessionExpiry := se, will := will, other := () } }, "ok")
    | _, _, _, _ => (d, "bad-op")
  | ["end"] => ({}, "ok")
  | ws =>
    if !d.live then (d, "bad-op") else
    match ws with
    | ["will", t, p, q, r] =>
      match parseWill4 t p q r with
      | some w => ({ d with opts := setLastWill d.opts w }, "ok")
      | none => (d, "bad-op")
    | ["policy", ps] =>
      let l := if ps = "-" then [] else ps.splitOn ","
      if l.all validPol then ({ d with pols := l }, "ok") else (d, "bad-op")
    | _ => stepPolling d ws

end Srad.Drv
