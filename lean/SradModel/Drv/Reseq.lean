import SradModel.Model.Reseq
import SradModel.Drv.Util

namespace Srad.Drv
open Srad

def stepReseq (st : Reseq.St Nat) : List String → Reseq.St Nat × String
  | ["new"] => (Reseq.init, "ok")
  | ["P", sq, tag] =>
    match sq.toNat?, tag.toNat? with
    | some sq, some tag =>
      if sq < 256 then
        let (s', r) := Reseq.process st sq tag
        (s', match r with
          | .next m => s!"next {m}"
          | .inserted => "ins"
          | .dup => "dup")
      else (st, "bad-op")
    | _, _ => (st, "bad-op")
  | ["D"] =>
    let (s', r) := Reseq.drain st
    (s', match r with
      | .msg m => s!"msg {m}"
      | .empty => "empty"
      | .missing => "missing"
      | .panic => "panic")
  | ["R"] => (Reseq.reset st, "ok")
  | ["S", n] =>
    match n.toNat? with
    | some n => if n < 256 then (Reseq.setNext st n, "ok") else (st, "bad-op")
    | none => (st, "bad-op")
  | ["N"] => (st, s!"next={st.next}")
  | _ => (st, "bad-op")

end Srad.Drv
