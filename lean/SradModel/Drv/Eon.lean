import SradModel.Model.EonSpec
import SradModel.Drv.Util
import Std.Data.HashSet

/-
Trace validation for the edge-node model (T-trace): the harness sends each stimulus together with
the observations the implementation produced until quiescence; the driver searches for a schedule
of the model's tasks that emits exactly those observations and ends quiescent. This search only
validates the model against the code; the properties are theorems about every schedule.
-/
namespace Srad.Drv
open Srad Srad.Eon

def ckName : CK → String
  | .sub => "SUB" | .nbirth => "NBIRTH" | .ndeath => "NDEATH" | .ndata => "NDATA"
  | .dbirth => "DBIRTH" | .ddeath => "DDEATH" | .ddata => "DDATA" | .disconnect => "DISCONNECT"

def parseCK : String → Option CK
  | "SUB" => some .sub | "NBIRTH" => some .nbirth | "NDEATH" => some .ndeath | "NDATA" => some .ndata
  | "DBIRTH" => some .dbirth | "DDEATH" => some .ddeath | "DDATA" => some .ddata
  | "DISCONNECT" => some .disconnect | _ => none

def showObs : Obs → String
  | .call id k d sq bd t dec =>
    s!"C{id}:{ckName k}" ++ (match d with | some d => s!":d={d}" | none => "") ++
      (match sq with | some n => s!":seq={n}" | none => "") ++
      (match bd with | some n => s!":bd={n}" | none => "") ++
      (if t then ":try" else ":blk") ++
      (match dec with | .acc => ":acc" | .rej => ":rej" | .park => ":park")
  | .resolved id ok => s!"R{id}:" ++ (if ok then "ok" else "err")
  | .will bd => s!"W:bd={bd}"
  | .poll => "P"
  | .polled e => "E:" ++ (match e with | .online => "Online" | .offline => "Offline" | .node => "Node" | .device => "Device" | .other => "Other")
  | .ures j r => s!"U{j}:" ++ (match r with
      | .ok => "ok" | .noMetrics => "err:NoMetrics" | .offline => "err:Offline" | .unbirthed => "err:UnBirthed"
      | .cancelled => "cancelled" | .duplicate => "err:Duplicate")
  | .cbNcmd => "CB:ncmd"
  | .cbDcmd d => s!"CB:dcmd:{d}"
  | .bNode => "B:node"
  | .bDev d => s!"B:dev:{d}"
  | .runReturned => "X"

/-- the client's decision recorded in an observed call token -/
def tokenDec (tok : String) : Option Dec :=
  if tok.startsWith "C" then
    match (tok.splitOn ":").getLast? with
    | some "acc" => some .acc
    | some "rej" => some .rej
    | some "park" => some .park
    | _ => none
  else none

def nextDec (toks : List String) : Dec := (toks.findSome? tokenDec).getD .acc

/-- does the list of emitted observations match a prefix of the observed tokens? -/
def matchPrefix : List Obs → List String → Option (List String)
  | [], ts => some ts
  | o :: os, t :: ts => if showObs o = t then matchPrefix os ts else none
  | _ :: _, [] => none

/-- All quiescent states the model can be in after emitting exactly `toks` from `s0`:
exhaustive exploration of the interleavings of the model's tasks (worklist with a visited set
over (state, number of tokens left)). Returns the end states and whether the budget ran out. -/
partial def exploreAll (budget : Nat) (s0 : St) (toks0 : List String) : List St × Bool :=
  let rec go (work : List (St × List String)) (visited : Std.HashSet (St × Nat))
      (ends : List St) : List St × Bool :=
    if visited.size > budget then (ends, true)
    else
      match work with
      | [] => (ends, false)
      | (s, toks) :: rest =>
        if visited.contains (s, toks.length) then go rest visited ends
        else
          let visited := visited.insert (s, toks.length)
          let dec := nextDec toks
          let cands : List (St × List Obs) := (tasks s).flatMap fun t => step s t dec
          if toks.isEmpty && cands.isEmpty then
            go rest visited (if ends.contains s then ends else s :: ends)
          else
            let next := cands.filterMap fun c =>
              match matchPrefix c.2 toks with
              | some r => some (c.1, r)
              | none => none
            go (next ++ rest) visited ends
  go [(s0, toks0)] {} []

/-- diagnostic for a rejected line: follow matching steps greedily (first candidate), silent
steps otherwise, and report how many tokens were matched and what the model could emit there -/
def greedyDiag : Nat → St → List String → Nat → Nat × List String
  | 0, _, toks, k => (k, toks.take 1)
  | fuel + 1, s, toks, k =>
    let dec := nextDec toks
    let cands : List (St × List Obs) := (tasks s).flatMap fun t => step s t dec
    let matching := cands.filter fun c => !c.2.isEmpty && (matchPrefix c.2 toks).isSome
    match matching with
    | c :: _ => greedyDiag fuel c.1 (toks.drop c.2.length) (k + c.2.length)
    | [] =>
      match cands.filter (fun c => c.2.isEmpty) with
      | c :: _ => greedyDiag fuel c.1 toks k
      | [] => (k, ((cands.filterMap fun c => c.2.head?).map showObs).eraseDups)

def enabledObs (s : St) : List String :=
  ((tasks s).flatMap fun t => (step s t .acc).flatMap fun c => c.2.take 1 |>.map showObs).eraseDups

def parseCall (parts : List String) : Option Obs :=
  -- C<id>:<KIND>[:d=..][:seq=..][:bd=..]:<try|blk>:<dec>
  match parts with
  | idp :: kind :: rest =>
    match (idp.drop 1).toString.toNat?, parseCK kind with
    | some id, some k =>
      let fld (pre : String) : Option Nat := rest.findSome? fun p => if p.startsWith pre then (p.drop pre.length).toString.toNat? else none
      let isTry := rest.contains "try"
      let dec : Dec := if rest.contains "park" then .park else if rest.contains "rej" then .rej else .acc
      some (.call id k (fld "d=") (fld "seq=") (fld "bd=") isTry dec)
    | _, _ => none
  | _ => none

/-- an observed token as a model observation (for evaluating the property scanners on real traces) -/
def parseObs (t : String) : Option Obs :=
  let parts := t.splitOn ":"
  if t == "P" then some .poll
  else if t == "X" then some .runReturned
  else if t == "B:node" then some .bNode
  else if t == "CB:ncmd" then some .cbNcmd
  else if t.startsWith "W:bd=" then (t.drop 5).toString.toNat?.map .will
  else if t.startsWith "B:dev:" then (t.drop 6).toString.toNat?.map .bDev
  else if t.startsWith "CB:dcmd:" then (t.drop 8).toString.toNat?.map .cbDcmd
  else if t.startsWith "E:" then
    some (.polled (match (t.drop 2).toString with
      | "Online" => .online | "Offline" => .offline | "Node" => .node | "Device" => .device | _ => .other))
  else if t.startsWith "R" then
    match parts with
    | [a, b] => (a.drop 1).toString.toNat?.map fun id => .resolved id (b == "ok")
    | _ => none
  else if t.startsWith "C" then parseCall parts
  else if t.startsWith "U" then
    match parts with
    | a :: rest => (a.drop 1).toString.toNat?.map fun j => .ures j (match rest with
        | ["ok"] => .ok | ["cancelled"] => .cancelled | ["err", "NoMetrics"] => .noMetrics
        | ["err", "Offline"] => .offline | ["err", "UnBirthed"] => .unbirthed | _ => .duplicate)
    | _ => none
  else none

/-- evaluate every property scanner on a trace; returns the names of those that fail -/
def verdict (tr : List Obs) (skip : List Nat := []) : List String :=
  -- `skip`: device names registered again while a previous incarnation was still live — outside the
  -- hypothesis `hone` of the C04 theorems (the property's own proviso), so their scanners say nothing
  let devs := ((tr.filterMap fun o => match o with | .call _ _ (some d) _ _ _ _ => some d | _ => none).eraseDups).filter
    fun d => !skip.contains d
  (if seqOk none tr then [] else ["C02:seqOk"]) ++
  (if nbirthBdOk none tr then [] else ["C03:nbirthBdOk"]) ++
  (if willChainOk none false false tr then [] else ["C03:willChainOk"]) ++
  (if ndeathBdOk none false false tr then [] else ["C03:ndeathBdOk"]) ++
  (if gateOk false none tr then [] else ["C01:gateOk"]) ++
  (if firstAfterSubOk false tr then [] else ["C01:firstAfterSubOk"]) ++
  (devs.flatMap fun d => (if ddataOk d .none tr then [] else [s!"C04:ddataOk:{d}"]) ++
                         (if ddeathOk d false tr then [] else [s!"C04:ddeathOk:{d}"])) ++
  (if tryOk tr then [] else ["C20:tryOk"])

structure EonD where
  trace : List Obs := []           -- the observed trace of the case so far (reversed)
  sts : List St := [Eon.init 0]    -- every model state consistent with the observations so far
  users : Nat := 0                 -- number of user calls issued so far
  overlap : List Nat := []         -- names re-registered while a previous incarnation was live (C04's proviso fails)

def parsePubMode : String → Option Bool
  | "try" => some true | "trysort" => some true | "blk" => some false | "blksort" => some false | _ => none

def parseStim (d : EonD) (ws : List String) : Option (Stim × EonD) :=
  match ws with
  | ["online"] => some (.ev .online, d)
  | ["offline"] => some (.ev .offline, d)
  | "ncmd" :: rest =>
    let rb := rest.contains "rb=1" && !rest.contains "alias=1"
    let ts := rest.contains "ts=1"
    some (.ev (.ncmd rb ts), d)
  | ["dcmd", dv, ts] => dv.toNat?.map fun n => (.ev (.dcmd n (ts = "ts=1")), d)
  | ["reg", dv] => dv.toNat?.map fun n => (.reg n, d)
  | ["unreg", dv] => dv.toNat?.map fun n => (.unreg n, d)
  | ["enable", dv] => dv.toNat?.map fun n => (.enable n, d)
  | ["disable", dv] => dv.toNat?.map fun n => (.disable n, d)
  | ["drebirth", dv] => dv.toNat?.map fun n => (.drebirth n, d)
  | ["nrebirth"] => some (.nrebirth, d)
  | ["pub", "node", mode, n] =>
    match parsePubMode mode, (n.drop 2).toString.toNat? with
    | some t, some k => some (.pub d.users .node t k, { d with users := d.users + 1 })
    | _, _ => none
  | ["pub", "dev", dv, mode, n] =>
    match dv.toNat?, parsePubMode mode, (n.drop 2).toString.toNat? with
    | some x, some t, some k => some (.pub d.users (.dev x) t k, { d with users := d.users + 1 })
    | _, _, _ => none
  | ["cancel"] => some (.cancel d.users, { d with users := d.users + 1 })
  | ["resolve", id, r] => id.toNat?.map fun n => (.resolve n (r = "ok"), d)
  | ["adv", ms] => ms.toNat?.map fun n => (.advance n, d)
  | ["cbpark", "node"] => some (.cbPark .node true, d)
  | ["cbrelease", "node"] => some (.cbPark .node false, d)
  | ["cbpark", dv] => dv.toNat?.map fun n => (.cbPark (.dev n) true, d)
  | ["cbrelease", dv] => dv.toNat?.map fun n => (.cbPark (.dev n) false, d)
  | _ => none

/-- `evs <online|offline> …`: a burst of connection events, all of them ready in the event loop before any
task of the node runs. For the model this is nothing new: the events are appended to the event loop's inbox
in order (`applyStim … (.ev e)` once per event) and the tasks are explored from there.
`none` = not an `evs` request; `some none` = a malformed one. -/
def parseEvs : List String → Option (Option (List Eon.Ev))
  | "evs" :: es =>
    if es.isEmpty then some none
    else some (es.mapM fun e => match e with
      | "online" => some Eon.Ev.online
      | "offline" => some Eon.Ev.offline
      | _ => none)
  | _ => none

def applyEvs (s : St) (es : List Eon.Ev) : St := es.foldl (fun s e => (applyStim s (.ev e)).1) s

/-- harness-level tokens that are not observations of srad: `R<id>:…` echoes of a resolve stimulus
and `U:err:Duplicate` / `U:err:NoDevice` produced by the harness itself -/
def isHarnessTok (t : String) : Bool := t.startsWith "U:err:"

def splitArrow (ws : List String) : List String × List String :=
  match ws.span (· ≠ "=>") with
  | (a, _ :: b) => (a, b)
  | (a, []) => (a, [])

def stepEon (d : EonD) (ws : List String) : EonD × String :=
  let (req, obsW) := splitArrow ws
  let toks : List String :=
    match obsW with
    | [] => []
    | ["-"] => []
    | l => (joinWith " " l).splitOn ";" |>.filter (fun t => t ≠ "" && !isHarnessTok t)
  let d := { d with trace := (toks.filterMap parseObs).reverse ++ d.trace }
  -- run the line from every state still possible; keep the union of the reachable end states
  let run (starts : List (St × List Obs)) (d : EonD) : EonD × String :=
    -- what the stimulus itself emits (a resolution echo) must come first
    let res := starts.map fun (s, pre) =>
      match matchPrefix pre toks with
      | some rest => exploreAll 60000 s rest
      | none => ([], false)
    let ends := (res.flatMap (·.1)).foldl (fun acc s => if acc.contains s then acc else s :: acc) []
    let exhausted := res.any (·.2)
    if !ends.isEmpty then ({ d with sts := ends.map fun s => { s with wall := s.wall + 1 } }, "ok")
    else
      let s := (starts.map (·.1)).headD (Eon.init 0)
      let (k, en) := greedyDiag 400 s toks 0
      ({ d with sts := starts.map fun p => { p.1 with wall := p.1.wall + 1 } },
        (if exhausted then "budget-exhausted" else "rejected") ++
          s!" states={starts.length} greedy-matched={k}/{toks.length} then-model-enabled=[" ++ joinWith "," en ++ "]")
  -- the harness answers `U:err:NoDevice` / `U:err:Duplicate` / … itself when it has no handle for
  -- the device (nothing of srad is called then)
  let harnessRefused := (match obsW with
    | [] => false
    | l => ((joinWith " " l).splitOn ";").any (fun t => t.startsWith "U:err:"))
  match req with
  | ["verdict"] =>
    -- the property scanners of `Model/EonSpec` evaluated on the observed trace of this case
    let v := verdict d.trace.reverse d.overlap
    (d, if v.isEmpty then "ok" else "scanner-fails " ++ joinWith "," v)
  | "new" :: rest =>
    match (rest.findSome? fun w => if w.startsWith "cd=" then (w.drop 3).toString.toNat? else none) with
    | some cd =>
      let s0 : St := { Eon.init cd with wall := 1000000 }
      run [(s0, [])] { sts := [s0], users := 0, trace := (toks.filterMap parseObs).reverse }
    | none => (d, "bad-op")
  | "stim" :: rest =>
    if harnessRefused then run (d.sts.map fun s => (s, [])) d
    else if let some evs := parseEvs rest then
      match evs with
      | some es => run (d.sts.map fun s => (applyEvs s es, [])) d
      | none => (d, "bad-op")
    else
      match parseStim d rest with
      | some (stim, d') =>
        let d' := match stim with
          | .reg n =>
            if d.sts.any (fun s => s.devs.any fun x => x.name == n && x.pc != .done)
            then { d' with overlap := n :: d'.overlap } else d'
          | _ => d'
        run (d.sts.map fun s => applyStim s stim) d'
      | none => if rest.head? = some "rule" then run (d.sts.map fun s => (s, [])) d else (d, "bad-op")
  | _ => (d, "bad-op")

end Srad.Drv
