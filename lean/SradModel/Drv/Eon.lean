import SradModel.Model.Eon
import SradModel.Drv.Util
import Std.Data.HashSet

/-
Trace validation for the edge-node model (T-trace): the harness sends each stimulus together with
the observations the implementation produced until quiescence; the driver searches for a schedule
of the model's tasks that emits exactly those observations and ends quiescent. This search only
validates the model against the code; the properties are theorems about every schedule.
-/
namespace Srad.Drv
open Srad Srad.Eon

def ckName : CK → String
  | .sub => "SUB" | .nbirth => "NBIRTH" | .ndeath => "NDEATH" | .ndata => "NDATA"
  | .dbirth => "DBIRTH" | .ddeath => "DDEATH" | .ddata => "DDATA" | .disconnect => "DISCONNECT"

def parseCK : String → Option CK
  | "SUB" => some .sub | "NBIRTH" => some .nbirth | "NDEATH" => some .ndeath | "NDATA" => some .ndata
  | "DBIRTH" => some .dbirth | "DDEATH" => some .ddeath | "DDATA" => some .ddata
  | "DISCONNECT" => some .disconnect | _ => none

def showObs : Obs → String
  | .call id k d sq bd t dec =>
    s!"C{id}:{ckName k}" ++ (match d with | some d => s!":d={d}" | none => "") ++
      (match sq with | some n => s!":seq={n}" | none => "") ++
      (match bd with | some n => s!":bd={n}" | none => "") ++
      (if t then ":try" else ":blk") ++
      (match dec with | .acc => ":acc" | .rej => ":rej" | .park => ":park")
  | .will bd => s!"W:bd={bd}"
  | .poll => "P"
  | .polled e => "E:" ++ (match e with | .online => "Online" | .offline => "Offline" | .node => "Node" | .device => "Device" | .other => "Other")
  | .ures j r => s!"U{j}:" ++ (match r with
      | .ok => "ok" | .noMetrics => "err:NoMetrics" | .offline => "err:Offline" | .unbirthed => "err:UnBirthed"
      | .cancelled => "cancelled" | .duplicate => "err:Duplicate")
  | .cbNcmd => "CB:ncmd"
  | .cbDcmd d => s!"CB:dcmd:{d}"
  | .bNode => "B:node"
  | .bDev d => s!"B:dev:{d}"
  | .runReturned => "X"

/-- the client's decision recorded in an observed call token -/
def tokenDec (tok : String) : Option Dec :=
  if tok.startsWith "C" then
    match (tok.splitOn ":").getLast? with
    | some "acc" => some .acc
    | some "rej" => some .rej
    | some "park" => some .park
    | _ => none
  else none

def nextDec (toks : List String) : Dec := (toks.findSome? tokenDec).getD .acc

/-- does the list of emitted observations match a prefix of the observed tokens? -/
def matchPrefix : List Obs → List String → Option (List String)
  | [], ts => some ts
  | o :: os, t :: ts => if showObs o = t then matchPrefix os ts else none
  | _ :: _, [] => none

/-- All quiescent states the model can be in after emitting exactly `toks` from `s0`:
exhaustive exploration of the interleavings of the model's tasks (worklist with a visited set
over (state, number of tokens left)). Returns the end states and whether the budget ran out. -/
partial def exploreAll (budget : Nat) (s0 : St) (toks0 : List String) : List St × Bool :=
  let rec go (work : List (St × List String)) (visited : Std.HashSet (St × Nat))
      (ends : List St) : List St × Bool :=
    if visited.size > budget then (ends, true)
    else
      match work with
      | [] => (ends, false)
      | (s, toks) :: rest =>
        if visited.contains (s, toks.length) then go rest visited ends
        else
          let visited := visited.insert (s, toks.length)
          let dec := nextDec toks
          let cands : List (St × List Obs) := (tasks s).flatMap fun t => step s t dec
          if toks.isEmpty && cands.isEmpty then
            go rest visited (if ends.contains s then ends else s :: ends)
          else
            let next := cands.filterMap fun c =>
              match matchPrefix c.2 toks with
              | some r => some (c.1, r)
              | none => none
            go (next ++ rest) visited ends
  go [(s0, toks0)] {} []

/-- diagnostic for a rejected line: follow matching steps greedily (first candidate), silent
steps otherwise, and report how many tokens were matched and what the model could emit there -/
def greedyDiag : Nat → St → List String → Nat → Nat × List String
  | 0, _, toks, k => (k, toks.take 1)
  | fuel + 1, s, toks, k =>
    let dec := nextDec toks
    let cands : List (St × List Obs) := (tasks s).flatMap fun t => step s t dec
    let matching := cands.filter fun c => !c.2.isEmpty && (matchPrefix c.2 toks).isSome
    match matching with
    | c :: _ => greedyDiag fuel c.1 (toks.drop c.2.length) (k + c.2.length)
    | [] =>
      match cands.filter (fun c => c.2.isEmpty) with
      | c :: _ => greedyDiag fuel c.1 toks k
      | [] => (k, ((cands.filterMap fun c => c.2.head?).map showObs).eraseDups)

def enabledObs (s : St) : List String :=
  ((tasks s).flatMap fun t => (step s t .acc).flatMap fun c => c.2.take 1 |>.map showObs).eraseDups

structure EonD where
  sts : List St := [Eon.init 0]    -- every model state consistent with the observations so far
  users : Nat := 0                 -- number of user calls issued so far

def parsePubMode : String → Option Bool
  | "try" => some true | "trysort" => some true | "blk" => some false | "blksort" => some false | _ => none

def parseStim (d : EonD) (ws : List String) : Option (Stim × EonD) :=
  match ws with
  | ["online"] => some (.ev .online, d)
  | ["offline"] => some (.ev .offline, d)
  | "ncmd" :: rest =>
    let rb := rest.contains "rb=1" && !rest.contains "alias=1"
    let ts := rest.contains "ts=1"
    some (.ev (.ncmd rb ts), d)
  | ["dcmd", dv, ts] => dv.toNat?.map fun n => (.ev (.dcmd n (ts = "ts=1")), d)
  | ["reg", dv] => dv.toNat?.map fun n => (.reg n, d)
  | ["unreg", dv] => dv.toNat?.map fun n => (.unreg n, d)
  | ["enable", dv] => dv.toNat?.map fun n => (.enable n, d)
  | ["disable", dv] => dv.toNat?.map fun n => (.disable n, d)
  | ["drebirth", dv] => dv.toNat?.map fun n => (.drebirth n, d)
  | ["nrebirth"] => some (.nrebirth, d)
  | ["pub", "node", mode, n] =>
    match parsePubMode mode, (n.drop 2).toString.toNat? with
    | some t, some k => some (.pub d.users .node t k, { d with users := d.users + 1 })
    | _, _ => none
  | ["pub", "dev", dv, mode, n] =>
    match dv.toNat?, parsePubMode mode, (n.drop 2).toString.toNat? with
    | some x, some t, some k => some (.pub d.users (.dev x) t k, { d with users := d.users + 1 })
    | _, _, _ => none
  | ["cancel"] => some (.cancel d.users, { d with users := d.users + 1 })
  | ["resolve", id, r] => id.toNat?.map fun n => (.resolve n (r = "ok"), d)
  | ["adv", ms] => ms.toNat?.map fun n => (.advance n, d)
  | ["cbpark", "node"] => some (.cbPark .node true, d)
  | ["cbrelease", "node"] => some (.cbPark .node false, d)
  | ["cbpark", dv] => dv.toNat?.map fun n => (.cbPark (.dev n) true, d)
  | ["cbrelease", dv] => dv.toNat?.map fun n => (.cbPark (.dev n) false, d)
  | _ => none

/-- harness-level tokens that are not observations of srad: `R<id>:…` echoes of a resolve stimulus
and `U:err:Duplicate` / `U:err:NoDevice` produced by the harness itself -/
def isHarnessTok (t : String) : Bool := t.startsWith "R" || t.startsWith "U:err:"

def splitArrow (ws : List String) : List String × List String :=
  match ws.span (· ≠ "=>") with
  | (a, _ :: b) => (a, b)
  | (a, []) => (a, [])

def stepEon (d : EonD) (ws : List String) : EonD × String :=
  let (req, obsW) := splitArrow ws
  let toks : List String :=
    match obsW with
    | [] => []
    | ["-"] => []
    | l => (joinWith " " l).splitOn ";" |>.filter (fun t => t ≠ "" && !isHarnessTok t)
  -- run the line from every state still possible; keep the union of the reachable end states
  let run (starts : List St) (d : EonD) : EonD × String :=
    let res := starts.map fun s => exploreAll 60000 s toks
    let ends := (res.flatMap (·.1)).foldl (fun acc s => if acc.contains s then acc else s :: acc) []
    let exhausted := res.any (·.2)
    if !ends.isEmpty then ({ d with sts := (ends.take 64).map fun s => { s with wall := s.wall + 1 } }, "ok")
    else
      let s := starts.headD (Eon.init 0)
      let (k, en) := greedyDiag 400 s toks 0
      ({ d with sts := starts.map fun s => { s with wall := s.wall + 1 } },
        (if exhausted then "budget-exhausted" else "rejected") ++
          s!" states={starts.length} greedy-matched={k}/{toks.length} then-model-enabled=[" ++ joinWith "," en ++ "]")
  -- the harness answers `U:err:NoDevice` / `U:err:Duplicate` / … itself when it has no handle for
  -- the device (nothing of srad is called then)
  let harnessRefused := (match obsW with
    | [] => false
    | l => ((joinWith " " l).splitOn ";").any (fun t => t.startsWith "U:err:"))
  match req with
  | "new" :: rest =>
    match (rest.findSome? fun w => if w.startsWith "cd=" then (w.drop 3).toString.toNat? else none) with
    | some cd =>
      let s0 : St := { Eon.init cd with wall := 1000000 }
      run [s0] { sts := [s0], users := 0 }
    | none => (d, "bad-op")
  | "stim" :: rest =>
    if harnessRefused then run d.sts d
    else
      match parseStim d rest with
      | some (stim, d') => run (d.sts.map fun s => (applyStim s stim).1) d'
      | none => if rest.head? = some "rule" then run d.sts d else (d, "bad-op")
  | _ => (d, "bad-op")

end Srad.Drv
